#!/usr/bin/env python3
"""Build the overlay interpreter /verif/.venv (offline).

/venv (python 3.12, the repository's own interpreter with numpy/scipy/pandas/...) is left
untouched.  /verif/.venv is a venv created from it that *adds* z3-solver, sympy, cvc5,
jsonschema, hypothesis from the offline wheelhouse and sees /venv's site-packages through a
.pth file.  check.py calls ensure() itself, so a fresh restore of committed files works
without running this first.
"""
import os
import subprocess
import sys

HERE = os.path.dirname(os.path.abspath(__file__))
VENV = os.path.join(HERE, '.venv')
BASE_PY = '/venv/bin/python'
BASE_SITE = '/venv/lib/python3.12/site-packages'
WHEELS = '/opt/veriftools/wheels'
PKGS = ['z3-solver', 'sympy', 'cvc5', 'jsonschema', 'hypothesis']
STAMP = os.path.join(VENV, '.ok')


def ensure(verbose=False):
    py = os.path.join(VENV, 'bin', 'python')
    if os.path.exists(STAMP) and os.path.exists(py):
        return py
    out = None if verbose else subprocess.DEVNULL
    lock = os.path.join(HERE, '.venv.lock')
    import fcntl
    with open(lock, 'w') as lf:
        fcntl.flock(lf, fcntl.LOCK_EX)
        if os.path.exists(STAMP) and os.path.exists(py):
            return py
        subprocess.check_call([BASE_PY, '-m', 'venv', '--clear', VENV], stdout=out, stderr=out)
        sp = os.path.join(VENV, 'lib', 'python3.12', 'site-packages')
        with open(os.path.join(sp, '_repo_overlay.pth'), 'w') as f:
            f.write("import site; site.addsitedir(%r)\n" % BASE_SITE)
        env = dict(os.environ, PIP_NO_INDEX='1', PIP_DISABLE_PIP_VERSION_CHECK='1')
        subprocess.check_call([py, '-m', 'pip', 'install', '-q', '--no-index',
                               '--find-links', WHEELS] + PKGS, stdout=out, stderr=out, env=env)
        subprocess.check_call([py, '-c', 'import z3, sympy, numpy, scipy, jsonschema'])
        open(STAMP, 'w').write('ok\n')
    return py


if __name__ == '__main__':
    print(ensure(verbose=True))
