import sys, os; sys.path.insert(0, os.getcwd())
# C07, clause "tilting a spherical surface about its own centre of curvature changes nothing downstream".
# Re-describing a spherical surface IN FRONT OF THE STOP as tilted about its own centre of curvature
# (same sphere, same glass, same stop) changes the rays Optic.trace_generic returns for an off-axis
# field, and the paraxial data (f2, EPL).  Paraxial rays ignore the rotation of a surface but apply
# its decentre, so the entrance pupil used for launching the real rays moves.
import warnings; warnings.simplefilter('ignore')
import numpy as np
from optiland.optic import Optic
from optiland.materials import IdealMaterial
def own_trace(p, d, surfs, z_img):
    """Independent tracer. surfs: list of (vertex xyz, R, k, n_before, n_after); conic axis along z.
    Signed propagation to the surface (virtual propagation allowed, as in sequential ray tracing)."""
    p = np.array(p, float); d = np.array(d, float) / np.linalg.norm(d)
    for V, R, k, n1, n2 in surfs:
        q = p - np.array(V, float)
        if np.isinf(R):
            t = -q[2] / d[2]; nrm = np.array([0, 0, -1.0])
        else:
            c = 1.0 / R
            A = c * (d[0]**2 + d[1]**2 + (1 + k) * d[2]**2)
            B = 2 * c * (q[0]*d[0] + q[1]*d[1] + (1 + k) * q[2]*d[2]) - 2 * d[2]
            C = c * (q[0]**2 + q[1]**2 + (1 + k) * q[2]**2) - 2 * q[2]
            ts = np.roots([A, B, C]) if abs(A) > 1e-300 else np.array([-C / B])
            ts = ts[np.isreal(ts)].real
            t = min(ts, key=lambda t: abs((q + t*d)[2]))      # intersection nearest the vertex plane
            h = q + t*d
            nrm = np.array([c*h[0], c*h[1], c*(1 + k)*h[2] - 1.0]); nrm /= np.linalg.norm(nrm)
        p = p + t*d
        if nrm @ d > 0: nrm = -nrm
        mu = n1 / n2; ci = -nrm @ d
        d = mu*d + (mu*ci - np.sqrt(1 - mu**2 * (1 - ci**2))) * nrm
    t = (z_img - p[2]) / d[2]
    return p + t*d, d
R = [40.0, -60.0, -35.0, 120.0]; T = [5.0, 3.0, 2.5, 55.0]; N = [1.5, 1.0, 1.7, 1.0]
z = np.concatenate([[0.0], np.cumsum(T)])

def lens(k=None, rx=0.0, ry=0.0):
    o = Optic(); o.add_surface(index=0, thickness=np.inf)
    for i in range(4):
        o.add_surface(index=i+1, radius=R[i], thickness=T[i], material=IdealMaterial(N[i]), is_stop=(i == 1))
    o.add_surface(index=5)
    o.set_aperture('EPD', 10.0); o.set_field_type('angle'); o.add_field(y=0); o.add_field(y=10)
    o.add_wavelength(0.55, is_primary=True)
    if k is not None:
        cs = o.surface_group.surfaces[k].geometry.cs
        # local z axis in the global frame for the library's convention (globalize: rotate_y(ry), then rotate_x(rx))
        axis = np.array([np.sin(ry), -np.sin(rx)*np.cos(ry), np.cos(rx)*np.cos(ry)])
        C = np.array([0, 0, z[k-1] + R[k-1]])            # centre of curvature stays where it is
        cs.rx, cs.ry = rx, ry
        cs.x, cs.y, cs.z = [float(v) for v in C - R[k-1]*axis]
    return o

# independent: entrance pupil = image of the stop (vertex of surface 2, 5 mm inside n=1.5) through surface 1
l = -T[0]                                   # stop seen from surface 1, light travelling backwards: n/l -> 1/l'
lp = 1.0 / ((1.0 - N[0]) / (-R[0]) + N[0] / l)   # refraction glass->air at a surface of radius -R (reversed)
EPL = -lp
Hy, Py = 1.0, 0.7
a = np.radians(10.0); d = np.array([0, np.sin(a), np.cos(a)])
surfs = [((0, 0, z[i]), R[i], 0.0, 1.0 if i == 0 else N[i-1], N[i]) for i in range(4)]
pe, de = own_trace(np.array([0, Py*5.0, EPL]) - 30*d, d, surfs, z[4])
print('independent: EPL = %.9f ; field 10 deg, pupil (0, 0.7): y_img = %.10f  M_img = %.10f' % (EPL, pe[1], de[1]))
bad = False
for k, rx, ry in [(None, 0, 0), (3, 0.3, 0.0), (4, 0.2, 0.25), (1, 0.3, 0.0), (1, 0.05, 0.0), (1, 0.0, -0.3), (2, 0.3, 0.0)]:
    o = lens(k, rx, ry)
    r = o.trace_generic(0.0, Hy, 0.0, Py, 0.55)
    ok = abs(r.y[0] - pe[1]) < 1e-8 and abs(r.M[0] - de[1]) < 1e-9 and abs(r.x[0]) < 1e-8
    if k != 2:   # surface 2 carries the stop: tilting it does move the stop rim, so only report it
        bad |= not ok
    print('library, surface %s tilted (rx=%s, ry=%s) about its centre: x_img = %.3e y_img = %.10f M_img = %.10f | EPL = %.6f f2 = %.6f %s'
          % (k, rx, ry, r.x[0], r.y[0], r.M[0], o.paraxial.EPL(), o.paraxial.f2(), 'ok' if ok else ('(stop surface)' if k == 2 else '<-- VIOLATION')))
sys.exit(1 if bad else 0)
