import sys, os; sys.path.insert(0, os.getcwd())
# C07, clause "inserting a dummy surface between equal media changes nothing downstream".
# A dummy plane put in a gap at zero (or small) distance from a curved surface -- the usual way a
# dummy / stop plane is written in a prescription -- makes the library lose every ray that meets the
# curved surface on the far side of the dummy plane (sag region): the results become NaN.
import warnings; warnings.simplefilter('ignore')
import numpy as np
from optiland.optic import Optic
from optiland.materials import IdealMaterial
def own_trace(p, d, surfs, z_img):
    """Independent tracer. surfs: list of (vertex xyz, R, k, n_before, n_after); conic axis along z.
    Signed propagation to the surface (virtual propagation allowed, as in sequential ray tracing)."""
    p = np.array(p, float); d = np.array(d, float) / np.linalg.norm(d)
    for V, R, k, n1, n2 in surfs:
        q = p - np.array(V, float)
        if np.isinf(R):
            t = -q[2] / d[2]; nrm = np.array([0, 0, -1.0])
        else:
            c = 1.0 / R
            A = c * (d[0]**2 + d[1]**2 + (1 + k) * d[2]**2)
            B = 2 * c * (q[0]*d[0] + q[1]*d[1] + (1 + k) * q[2]*d[2]) - 2 * d[2]
            C = c * (q[0]**2 + q[1]**2 + (1 + k) * q[2]**2) - 2 * q[2]
            ts = np.roots([A, B, C]) if abs(A) > 1e-300 else np.array([-C / B])
            ts = ts[np.isreal(ts)].real
            t = min(ts, key=lambda t: abs((q + t*d)[2]))      # intersection nearest the vertex plane
            h = q + t*d
            nrm = np.array([c*h[0], c*h[1], c*(1 + k)*h[2] - 1.0]); nrm /= np.linalg.norm(nrm)
        p = p + t*d
        if nrm @ d > 0: nrm = -nrm
        mu = n1 / n2; ci = -nrm @ d
        d = mu*d + (mu*ci - np.sqrt(1 - mu**2 * (1 - ci**2))) * nrm
    t = (z_img - p[2]) / d[2]
    return p + t*d, d
R = [40.0, -60.0, -35.0, 120.0]; T = [5.0, 3.0, 2.5, 55.0]; N = [1.5, 1.0, 1.7, 1.0]

def lens(gap=None, frac=0.0):
    """4-surface lens, stop on surface 2; optional dummy plane in gap `gap` (after surface `gap`)
    at fraction `frac` of the gap, same medium on both sides."""
    o = Optic(); o.add_surface(index=0, thickness=np.inf); idx = 1
    for i in range(4):
        if gap == i + 1:
            o.add_surface(index=idx, radius=R[i], thickness=T[i]*frac, material=IdealMaterial(N[i]), is_stop=(i == 1)); idx += 1
            o.add_surface(index=idx, thickness=T[i]*(1 - frac), material=IdealMaterial(N[i])); idx += 1   # the dummy
        else:
            o.add_surface(index=idx, radius=R[i], thickness=T[i], material=IdealMaterial(N[i]), is_stop=(i == 1)); idx += 1
    o.add_surface(index=idx)
    o.set_aperture('EPD', 10.0); o.set_field_type('angle'); o.add_field(y=0); o.add_field(y=10)
    o.add_wavelength(0.55, is_primary=True)
    return o

# independent value: on-axis field of an object at infinity, pupil (0, 1) -> ray parallel to the axis at y = EPD/2
z = np.concatenate([[0.0], np.cumsum(T)])
surfs = [((0, 0, z[i]), R[i], 0.0, 1.0 if i == 0 else N[i-1], N[i]) for i in range(4)]
p_exp, d_exp = own_trace((0, 5.0, -10.0), (0, 0, 1.0), surfs, z[4])
print('independent trace  : y_img = %.12f  M_img = %.12f' % (p_exp[1], d_exp[1]))

bad = False
for gap, frac in [(None, 0), (1, 0.5), (1, 0.0), (1, 0.02), (1, 1.0), (2, 1.0), (4, 0.0)]:
    o = lens(gap, frac)
    r = o.trace_generic(0.0, 0.0, 0.0, 1.0, 0.55)
    y, M = float(r.y[0]), float(r.M[0])
    ok = abs(y - p_exp[1]) < 1e-9 and abs(M - d_exp[1]) < 1e-9
    bad |= not ok
    print('library, dummy in gap %s at fraction %s: y_img = %s  M_img = %s  f2 = %.9f  %s'
          % (gap, frac, y, M, o.paraxial.f2(), 'ok' if ok else '<-- VIOLATION'))
sys.exit(1 if bad else 0)
