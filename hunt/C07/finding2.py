import sys, os; sys.path.insert(0, os.getcwd())
# C07, clause "the library's own system-scaling operation produces exactly that scaled lens".
# Optic.scale_system(s) on a lens of planes/conics with an angular field:
#  (a) does not scale the decentres dx, dy of a surface (lengths of the prescription);
#  (b) scales a physical aperture object once per surface that carries it, so an aperture shared by
#      two surfaces ends up scaled by s**2.
import warnings; warnings.simplefilter('ignore')
import numpy as np
from optiland.optic import Optic
from optiland.materials import IdealMaterial
from optiland.physical_apertures import RadialAperture
def own_trace(p, d, surfs, z_img):
    """Independent tracer. surfs: list of (vertex xyz, R, k, n_before, n_after); conic axis along z.
    Signed propagation to the surface (virtual propagation allowed, as in sequential ray tracing)."""
    p = np.array(p, float); d = np.array(d, float) / np.linalg.norm(d)
    for V, R, k, n1, n2 in surfs:
        q = p - np.array(V, float)
        if np.isinf(R):
            t = -q[2] / d[2]; nrm = np.array([0, 0, -1.0])
        else:
            c = 1.0 / R
            A = c * (d[0]**2 + d[1]**2 + (1 + k) * d[2]**2)
            B = 2 * c * (q[0]*d[0] + q[1]*d[1] + (1 + k) * q[2]*d[2]) - 2 * d[2]
            C = c * (q[0]**2 + q[1]**2 + (1 + k) * q[2]**2) - 2 * q[2]
            ts = np.roots([A, B, C]) if abs(A) > 1e-300 else np.array([-C / B])
            ts = ts[np.isreal(ts)].real
            t = min(ts, key=lambda t: abs((q + t*d)[2]))      # intersection nearest the vertex plane
            h = q + t*d
            nrm = np.array([c*h[0], c*h[1], c*(1 + k)*h[2] - 1.0]); nrm /= np.linalg.norm(nrm)
        p = p + t*d
        if nrm @ d > 0: nrm = -nrm
        mu = n1 / n2; ci = -nrm @ d
        d = mu*d + (mu*ci - np.sqrt(1 - mu**2 * (1 - ci**2))) * nrm
    t = (z_img - p[2]) / d[2]
    return p + t*d, d
def lens(s, shared):
    ap = RadialAperture(9.0*s)
    o = Optic(); o.add_surface(index=0, thickness=np.inf)
    o.add_surface(index=1, radius=50.0*s, thickness=6.0*s, material=IdealMaterial(1.5), is_stop=True, aperture=ap)
    o.add_surface(index=2, radius=-40.0*s, conic=-1.2, thickness=60.0*s, dx=0.8*s, dy=-0.5*s,
                  aperture=ap if shared else RadialAperture(9.0*s))
    o.add_surface(index=3)
    o.set_aperture('EPD', 12.0*s); o.set_field_type('angle'); o.add_field(y=0); o.add_field(y=5)
    o.add_wavelength(0.55, is_primary=True)
    return o

def expected(s, Px, Py):
    # stop on the first surface -> entrance pupil at z = 0; field Hy = 1 -> 5 deg, ray going up
    surfs = [((0, 0, 0), 50.0*s, 0.0, 1.0, 1.5), ((0.8*s, -0.5*s, 6.0*s), -40.0*s, -1.2, 1.5, 1.0)]
    a = np.radians(5.0); d = np.array([0, np.sin(a), np.cos(a)])
    p0 = np.array([Px*6.0*s, Py*6.0*s, 0.0]) - 20*s*d
    return own_trace(p0, d, surfs, 66.0*s)

bad = False
for s in [0.5, 3.0]:
    Px, Py = 0.3, -0.6
    pe, de = expected(s, Px, Py)
    man = lens(s, False); r = man.trace_generic(0.0, 1.0, Px, Py, 0.55)
    print('s = %s' % s)
    print('  independent trace of the scaled prescription: x=%.10f y=%.10f L=%.10f M=%.10f' % (pe[0], pe[1], de[0], de[1]))
    print('  library, prescription typed in scaled        : x=%.10f y=%.10f L=%.10f M=%.10f I=%g' % (r.x[0], r.y[0], r.L[0], r.M[0], r.i[0]))
    o = lens(1.0, False); o.scale_system(s); r = o.trace_generic(0.0, 1.0, Px, Py, 0.55)
    cs = o.surface_group.surfaces[2].geometry.cs
    ok = abs(r.x[0] - pe[0]) < 1e-9*s and abs(r.y[0] - pe[1]) < 1e-9*s and abs(r.L[0] - de[0]) < 1e-9
    bad |= not ok
    print('  (a) library, scale_system(%s)                 : x=%.10f y=%.10f L=%.10f M=%.10f   dx,dy=%g,%g (expected %g,%g) %s'
          % (s, r.x[0], r.y[0], r.L[0], r.M[0], cs.x, cs.y, 0.8*s, -0.5*s, 'ok' if ok else '<-- VIOLATION'))
    o = lens(1.0, True); o.scale_system(s); r = o.trace_generic(0.0, 1.0, 0.0, 0.9, 0.55)
    rm = o.surface_group.surfaces[1].aperture.r_max
    ok = abs(rm - 9.0*s) < 1e-12
    bad |= not ok
    print('  (b) shared aperture after scale_system: r_max = %g (expected %g); intensity of pupil ray (0,0.9) = %g (expected 1) %s'
          % (rm, 9.0*s, r.i[0], 'ok' if ok else '<-- VIOLATION'))
sys.exit(1 if bad else 0)
