import sys, os; sys.path.insert(0, os.getcwd())
# C01, last clause: after update() each marginal-ray-height solve places the
# paraxial marginal ray at the requested height on its surface.
# Violated when the aperture definition makes the marginal ray depend on the
# solved thickness: aperture 'imageFNO' (EPD = f/FNO), or finite object + 'EPD'
# (launch slope depends on the entrance pupil position).
import numpy as np
from optiland.optic import Optic
from optiland.materials import IdealMaterial

H = 2.0       # requested marginal ray height on surface 3
IDX = 3


def build(finite, ap):
    o = Optic()
    o.add_surface(index=0, thickness=(100.0 if finite else np.inf))
    o.add_surface(index=1, radius=50.0, thickness=5.0, material=IdealMaterial(1.5168))
    o.add_surface(index=2, radius=-50.0, thickness=20.0)
    o.add_surface(index=3, radius=40.0, thickness=4.0, material=IdealMaterial(1.6727), is_stop=True)
    o.add_surface(index=4, radius=-80.0, thickness=30.0)
    o.add_surface(index=5)
    o.set_aperture(*ap)
    o.set_field_type('angle')
    o.add_field(0.0)
    o.add_wavelength(0.55, is_primary=True)
    return o


# ---------- independent paraxial model (own y-u trace, no library helper) ----
def prescription(o):
    sg = o.surface_group
    z = [float(np.ravel(s.geometry.cs.z)[0]) for s in sg.surfaces]
    R = [float(s.geometry.radius) for s in sg.surfaces]
    n = [float(np.ravel(s.material_post.n(0.55))[0]) for s in sg.surfaces]
    return z, R, n


def trace(y, u, z, R, n, upto):
    """ray given just in front of surface 1 (y, u); returns heights on 1..upto"""
    ys = []
    for k in range(1, upto + 1):
        if k > 1:
            y = y + u * (z[k] - z[k - 1])
        ys.append(y)
        c = 0.0 if np.isinf(R[k]) else 1.0 / R[k]
        u = (n[k - 1] * u - y * c * (n[k] - n[k - 1])) / n[k]
    return ys, u


def marginal_height(o, ap, finite, stop=3):
    z, R, n = prescription(o)
    last = len(z) - 1
    if ap[0] == 'imageFNO':
        _, uu = trace(1.0, 0.0, z, R, n, last - 1)
        epd = (-1.0 / uu) / ap[1]
    else:
        epd = ap[1]
    if not finite:
        y1, u1 = epd / 2, 0.0
    else:
        # entrance pupil: object-space image of the stop centre. With
        # y_stop = A*y1 + B*u1, a ray through the axis at distance L behind
        # surface 1 (y1 = -L*u1) hits the stop centre when L = B/A.
        A = trace(1.0, 0.0, z, R, n, stop)[0][-1]
        B = trace(0.0, 1.0, z, R, n, stop)[0][-1]
        L = B / A
        t0 = z[1] - z[0]
        u1 = (epd / 2) / (L + t0)
        y1 = u1 * t0
    return trace(y1, u1, z, R, n, IDX)[0][-1]


bad = False
for finite, ap in [(False, ('imageFNO', 5.0)), (True, ('EPD', 10.0)),
                   (False, ('EPD', 10.0))]:
    o = build(finite, ap)
    o.solves.add('marginal_ray_height', IDX, H)
    o.update()
    o.set_radius(45.0, 1)        # an edit, then update() again
    o.update()
    ya, _ = o.paraxial.marginal_ray()
    lib = float(ya[IDX][0])
    own = marginal_height(o, ap, finite)
    # does a thickness exist that fulfils the solve?  scan t2 with own model
    sol = None
    ts = np.linspace(0.5, 60.0, 2000)
    hs = []
    for t in ts:
        o2 = build(finite, ap)
        o2.set_radius(45.0, 1)
        o2.set_thickness(float(t), 2)
        hs.append(marginal_height(o2, ap, finite) - H)
    hs = np.array(hs)
    sc = np.where(np.sign(hs[:-1]) != np.sign(hs[1:]))[0]
    if len(sc):
        i = sc[0]
        sol = ts[i] - hs[i] * (ts[i + 1] - ts[i]) / (hs[i + 1] - hs[i])
    t2 = float(o.surface_group.get_thickness(2)[0])
    print(f'finite={finite} aperture={ap}: requested {H}; after update() '
          f'library marginal_ray y[{IDX}] = {lib:.6f}, independent trace = '
          f'{own:.6f}; t2 = {t2:.4f}; a t2 fulfilling the solve exists: '
          f'{None if sol is None else round(float(sol), 4)}')
    if abs(own - H) > 1e-6 or abs(lib - H) > 1e-6:
        bad = True
print('VIOLATED' if bad else 'holds')
sys.exit(1 if bad else 0)
