import sys, os; sys.path.insert(0, os.getcwd())
# C01: "the medium in front of each surface is the medium given for its
# predecessor" and an index edit "changes exactly that quantity".
# A surface given as material='mirror' has, by its prescription, the medium
# it sits in on both sides.  set_index on the surface in front of a mirror
# updates only the mirror's incoming medium: the reflected beam keeps
# travelling in the OLD medium, so the edited lens differs from the same
# prescription entered directly, and the next surface refracts from a medium
# that no longer exists in the prescription.
import numpy as np
from optiland.optic import Optic
from optiland.materials import IdealMaterial

WL = 0.55


def build(n1):
    o = Optic()
    o.add_surface(index=0, thickness=np.inf)
    o.add_surface(index=1, radius=80.0, thickness=10.0,
                  material=IdealMaterial(n1), is_stop=True)
    o.add_surface(index=2, radius=-120.0, thickness=-10.0, material='mirror')
    o.add_surface(index=3, radius=80.0, thickness=-40.0)   # back out into air
    o.add_surface(index=4)
    o.set_aperture('EPD', 10.0)
    o.set_field_type('angle')
    o.add_field(0.0)
    o.add_wavelength(WL, is_primary=True)
    return o


def media(o):
    return [(None if s.material_pre is None else float(s.material_pre.n(WL)),
             float(s.material_post.n(WL))) for s in o.surface_group.surfaces]


# independent paraxial trace of the PRESCRIPTION (R, t, n with mirror = same
# medium, sign of n flipped after reflection): back focal distance from S3
def bfd_from_prescription(n1):
    R = [80.0, -120.0, 80.0]
    t = [10.0, -10.0]
    n = [1.0, n1, -n1, -1.0]      # air | glass | glass (reflected) | air
    y, nu = 1.0, 0.0
    for k in range(3):
        nu = nu - y * (n[k + 1] - n[k]) / R[k]
        if k < 2:
            y = y + (nu / n[k + 1]) * t[k]
    return -y / (nu / n[3])      # signed distance S3 -> focus


direct = build(1.7)                 # prescription entered with n = 1.7
edited = build(1.5)                 # entered with 1.5, then edited to 1.7
edited.set_index(1.7, 1)

print('media (pre, post) per surface')
print('  entered directly :', media(direct))
print('  built then edited:', media(edited))

res = {}
for name, o in (('direct', direct), ('edited', edited)):
    ya, ua = o.paraxial.marginal_ray()
    y3, u3 = float(ya[3][0]), float(ua[3][0])
    res[name] = -y3 / u3
exp = bfd_from_prescription(1.7)
print(f'paraxial focus distance behind surface 3: independent {exp:.6f}, '
      f'library direct {res["direct"]:.6f}, library edited {res["edited"]:.6f}')

m = media(edited)
bad = False
# mirror: medium behind must be the medium in front (that is what 'mirror' means)
if abs(m[2][0] - m[2][1]) > 1e-12:
    print(f'VIOLATED: mirror surface 2 has n_pre={m[2][0]} but n_post={m[2][1]}'
          f'; surface 3 refracts from n={m[3][0]} (expected 1.7)')
    bad = True
if abs(res['edited'] - exp) > 1e-6 * abs(exp):
    print('VIOLATED: edited lens does not behave like its prescription')
    bad = True
if abs(res['direct'] - exp) > 1e-6 * abs(exp):
    print('note: directly entered lens also disagrees with independent trace')
sys.exit(1 if bad else 0)
