import sys, os; sys.path.insert(0, os.getcwd())
# C01: "Setting a radius, conic, ... afterwards, in any order and any number
# of times, changes exactly that quantity ... reads back the value set".
# On a surface whose radius is infinite (entered flat), set_conic followed by
# set_radius silently resets the conic to 0; the opposite order keeps it.
# The same happens to a conic given in add_surface together with radius=inf.
import numpy as np
from optiland.optic import Optic
from optiland.materials import IdealMaterial


def build(**kw1):
    o = Optic()
    o.add_surface(index=0, thickness=np.inf)
    o.add_surface(index=1, thickness=5.0, material=IdealMaterial(1.5),
                  is_stop=True, **kw1)
    o.add_surface(index=2, radius=-50.0, thickness=95.0)
    o.add_surface(index=3)
    o.set_aperture('EPD', 20.0)
    o.set_field_type('angle')
    o.add_field(0.0)
    o.add_wavelength(0.55, is_primary=True)
    return o


def sag_lib(o, y):
    return float(np.ravel(o.surface_group.surfaces[1].geometry.sag(0.0, y))[0])


def sag_conic(R, k, y):           # independent conic sag
    return y * y / (R * (1 + np.sqrt(1 - (1 + k) * y * y / R ** 2)))


K, R, Y = -2.5, 60.0, 9.0
bad = False

a = build()
a.set_conic(K, 1)
k_after_set = float(a.surface_group.conic[1])
a.set_radius(R, 1)
ka = float(a.surface_group.conic[1])

b = build()
b.set_radius(R, 1)
b.set_conic(K, 1)
kb = float(b.surface_group.conic[1])

c = build(radius=np.inf, conic=K)     # conic given at entry, flat surface
c.set_radius(R, 1)
kc = float(c.surface_group.conic[1])

print(f'set_conic({K}) on flat surface reads back {k_after_set}')
print(f'order conic->radius : conic = {ka}, radius = {a.surface_group.radii[1]},'
      f' sag({Y}) = {sag_lib(a, Y):.9f}')
print(f'order radius->conic : conic = {kb}, radius = {b.surface_group.radii[1]},'
      f' sag({Y}) = {sag_lib(b, Y):.9f}')
print(f'conic given in add_surface(radius=inf, conic={K}), then set_radius: '
      f'conic = {kc}, sag({Y}) = {sag_lib(c, Y):.9f}')
print(f'expected in all three: conic = {K}, sag({Y}) = {sag_conic(R, K, Y):.9f}'
      f'  (a sphere would give {sag_conic(R, 0.0, Y):.9f})')

for name, k, o in (('conic->radius', ka, a), ('radius->conic', kb, b),
                   ('entered with conic', kc, c)):
    if k != K or abs(sag_lib(o, Y) - sag_conic(R, K, Y)) > 1e-12:
        print('VIOLATED:', name, '- set_radius changed the conic to', k)
        bad = True
sys.exit(1 if bad else 0)
