import sys, os; sys.path.insert(0, os.getcwd())
# C08 finding 3: when the image space is not air (last lens surface followed by water / glass,
# image surface added the usual way `add_surface(index=last)` as in the bundled Microscope20x),
# the longitudinal terms SC, AC, PC, LchC are divided by the marginal slope *after* the image
# surface (refracted into the default 'air' behind it) instead of the slope with which the ray
# reaches the image.  They are too small by the factor n_image (1.33 here, 1.52 for Microscope20x).
import numpy as np, warnings
warnings.filterwarnings('ignore')
from optiland import optic
from optiland.materials import IdealMaterial
from optiland.samples.microscopes import Microscope20x

R1, R2, T1, NG, NW, EPD = 50.0, -80.0, 5.0, 1.5, 1.33, 10.0
c = [1/R1, 1/R2]; n = [1.0, NG, NW]
y, u = EPD/2, 0.0; ys, us = [], [u]
for k in range(2):                                # independent y-nu trace of the marginal ray
    if k: y = y + T1*u
    u = (n[k]*u - y*c[k]*(n[k+1]-n[k]))/n[k+1]
    ys.append(y); us.append(u)
BFD = -ys[-1]/us[-1]                              # paraxial focus inside the water
S1 = [-(n[k]*(us[k]+ys[k]*c[k]))**2*ys[k]*(us[k+1]/n[k+1]-us[k]/n[k]) for k in range(2)]
TSC_classic = np.array(S1)/(2*n[-1]*us[-1])
SC_classic = -TSC_classic/us[-1]                  # final marginal slope = slope in the image space

op = optic.Optic()
op.add_surface(index=0, radius=np.inf, thickness=np.inf)
op.add_surface(index=1, radius=R1, thickness=T1, material=IdealMaterial(NG), is_stop=True)
op.add_surface(index=2, radius=R2, thickness=BFD, material=IdealMaterial(NW))
op.add_surface(index=3)
op.set_aperture(aperture_type='EPD', value=EPD)
op.set_field_type(field_type='angle'); op.add_field(y=0.0); op.add_field(y=5.0)
op.add_wavelength(value=0.5876, is_primary=True)
ab = op.aberrations
TSC, SC = ab.TSC(), ab.SC()
print('marginal slope reaching the image (independent):', us[-1],
      '; library ua[-2], ua[-1] =', float(op.paraxial.marginal_ray()[1][-2][0]), float(op.paraxial.marginal_ray()[1][-1][0]))
print('TSC  library', TSC, ' classical', TSC_classic)
print('SC   library', SC, ' classical', SC_classic, ' ratio', SC_classic/SC)

# real marginal ray of the library: axial crossing point inside the water, small aperture
rho = 0.05
op.trace_generic(0.0, 0.0, 0.0, rho, 0.5876)
sg = op.surface_group
y2, z2, y3, z3 = float(sg.y[2][0]), float(sg.z[2][0]), float(sg.y[3][0]), float(sg.z[3][0])
z_cross = z3 - y3*(z3 - z2)/(y3 - y2)             # straight line in the water
LA = (z_cross - z3)/rho**2
print('real ray: (axial crossing - paraxial focus)/rho^2 =', LA, ' sum SC library', SC.sum(), ' sum SC classical', SC_classic.sum())

bad = False
if not np.allclose(TSC, TSC_classic, rtol=1e-9): print('transverse check failed'); bad = True
if not np.allclose(SC, SC_classic, rtol=1e-9):
    print('VIOLATION: SC != -TSC / (marginal slope in the image space)'); bad = True
if abs(LA - SC.sum()) > 0.05*abs(LA):
    print('VIOLATION: sum SC does not predict the real longitudinal error in the small-aperture limit'); bad = True

# bundled sample: image plane sits at the back of a cover glass, image surface left as default
m = Microscope20x(); r = m.aberrations.third_order()
ua = np.ravel(m.paraxial.marginal_ray()[1]); nn = np.ravel(m.n())
print('Microscope20x: n before/after image surface', nn[-2], nn[-1], '; slope in glass', ua[-2], 'slope used', ua[-1])
for nm, T, L in (('SC', r[0], r[1]), ('AC', r[4], r[5]), ('PC', r[6], r[7]), ('LchC', r[9], r[10])):
    lib, exp = np.ravel(L).sum(), (-np.ravel(T)/ua[-2]).sum()
    print('   sum', nm, 'library', lib, ' with the slope in the glass', exp)
    if not np.isclose(lib, exp, rtol=1e-9): bad = True
sys.exit(1 if bad else 0)
