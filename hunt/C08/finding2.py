import sys, os; sys.path.insert(0, os.getcwd())
# C08 finding 2: the chief ray used for the Seidel terms is scaled with max(y_fields), not with the
# largest field.  For field sets whose largest field is not the largest *positive y* value
# (negative fields, fields along x, skew fields) the astigmatism / Petzval / coma / distortion
# terms are those of a smaller field (0 deg in the first two cases), and because the Lagrange
# invariant then vanishes even the spherical terms become 0.
import numpy as np
from optiland import optic
from optiland.materials import IdealMaterial

R1, R2, T1, NG, EPD, FLD = 50.0, -80.0, 5.0, 1.5, 10.0, 10.0
c = [1/R1, 1/R2]; n = [1.0, NG, 1.0]
def ynu(y, u):
    ys, us = [], [u]
    for k in range(2):
        if k: y = y + T1*u
        u = (n[k]*u - y*c[k]*(n[k+1]-n[k]))/n[k+1]
        ys.append(y); us.append(u)
    return np.array(ys), np.array(us)
ya, ua = ynu(EPD/2, 0.0)                       # marginal ray
yb, ub = ynu(0.0, np.tan(np.radians(FLD)))     # chief ray of the 10 deg field, stop = surface 1
H = n[0]*(ub[0]*ya[0] - ua[0]*yb[0])
S = np.zeros((4, 2))
for k in range(2):
    A = n[k]*(ua[k] + ya[k]*c[k]); Ab = n[k]*(ub[k] + yb[k]*c[k]); d = ua[k+1]/n[k+1] - ua[k]/n[k]
    S[:, k] = [-A*A*ya[k]*d, -A*Ab*ya[k]*d, -Ab*Ab*ya[k]*d, -H*H*c[k]*(1/n[k+1] - 1/n[k])]
S_classic = -S.sum(1)                           # library sign convention: S(lib) = -S(Welford)
BFD = -ya[-1]/ua[-1]

def build(fields):
    op = optic.Optic()
    op.add_surface(index=0, radius=np.inf, thickness=np.inf)
    op.add_surface(index=1, radius=R1, thickness=T1, material=IdealMaterial(NG), is_stop=True)
    op.add_surface(index=2, radius=R2, thickness=BFD)
    op.add_surface(index=3)
    op.set_aperture(aperture_type='EPD', value=EPD)
    op.set_field_type(field_type='angle')
    for x, y in fields: op.add_field(x=x, y=y)
    op.add_wavelength(value=0.5876, is_primary=True)
    return op

cases = {'{(0,0),(0,+10)} reference': [(0, 0), (0, FLD)],
         '{(0,0),(0,-10)} negative ': [(0, 0), (0, -FLD)],
         '{(0,0),(10,0)}  along x  ': [(0, 0), (FLD, 0)],
         '{(0,0),(6,8)}   skew     ': [(0, 0), (6, 8)],
         '{(0,-10),(0,5)} mixed    ': [(0, -FLD), (0, 5)]}
print('classical |S_I..S_IV| for the 10 deg field :', np.abs(S_classic))
bad = False
for tag, f in cases.items():
    op = build(f)
    Sl = op.aberrations.seidels()
    print('library', tag, ': S_I..S_IV =', Sl[:4], ' max_field =', op.fields.max_field)
    # S_I, S_III, S_IV are even in the field, |S_II| is sign independent: all rotationally invariant
    ok = np.allclose(np.abs(Sl[:4]), np.abs(S_classic), rtol=1e-8)
    if tag.endswith('reference') and not ok:
        print('convention check failed'); bad = True
    elif not ok:
        print('   VIOLATION: differs from the classical sums of the largest (10 deg) field'); bad = True

# the library's real rays do use the radial maximum: normalised field Hy=1 is a 10 deg field
op = build(cases['{(0,0),(0,-10)} negative '])
yb_lib, ub_lib = op.paraxial.chief_ray()
op.trace_generic(0.0, 1.0, 0.0, 0.0, 0.5876)
print('negative-field lens: paraxial chief ray slope in object space', float(ub_lib[0][0]),
      '; real chief ray (Hy=1) image height', float(op.surface_group.y[-1][0]),
      '; paraxial chief image height', float(yb_lib[-1][0]))
sys.exit(1 if bad else 0)
