import sys, os; sys.path.insert(0, os.getcwd())
# C08 finding 1: with a zero Lagrange invariant (lens that defines only the on-axis field,
# a perfectly valid configuration) every spherical term TSC/SC and the Seidel sum S_I are
# returned as 0, although spherical aberration does not depend on the field at all.
import numpy as np
from optiland import optic
from optiland.materials import IdealMaterial

R1, R2, T1, NG, EPD = 50.0, -80.0, 5.0, 1.5, 10.0

# ---- independent paraxial trace (y-nu) to find paraxial focus and the classical terms
def ynu(y, u):
    c = [1/R1, 1/R2]; n = [1.0, NG, 1.0]; t = [T1]
    ys, us = [], [u]
    for k in range(2):
        if k: y = y + t[k-1]*u
        u = (n[k]*u - y*c[k]*(n[k+1]-n[k]))/n[k+1]
        ys.append(y); us.append(u)
    return np.array(ys), np.array(us), c, n
ys, us, c, n = ynu(EPD/2, 0.0)
BFD = -ys[-1]/us[-1]
S1 = []
for k in range(2):
    A = n[k]*(us[k] + ys[k]*c[k])
    S1.append(-A*A*ys[k]*(us[k+1]/n[k+1] - us[k]/n[k]))       # Welford S_I per surface
S1 = np.array(S1)
TSC_classic = S1/(2*n[-1]*us[-1])      # library convention: TSC = S_I/(2 n'u'), S(lib) = -S_I
                                        # (convention verified with an off-axis field below)
def build(fields):
    op = optic.Optic()
    op.add_surface(index=0, radius=np.inf, thickness=np.inf)
    op.add_surface(index=1, radius=R1, thickness=T1, material=IdealMaterial(NG), is_stop=True)
    op.add_surface(index=2, radius=R2, thickness=BFD)
    op.add_surface(index=3)
    op.set_aperture(aperture_type='EPD', value=EPD)
    op.set_field_type(field_type='angle')
    for f in fields: op.add_field(y=f)
    op.add_wavelength(value=0.5876, is_primary=True)
    return op

ref = build([0.0, 10.0])      # same lens, an extra off-axis field: library agrees with classical
on = build([0.0])             # only the on-axis field
TSC_ref = ref.aberrations.TSC(); TSC_on = on.aberrations.TSC()
r = on.aberrations.third_order()
print('classical TSC per surface      :', TSC_classic, ' sum', TSC_classic.sum())
print('library, fields {0, 10 deg}    :', TSC_ref, ' S_I', ref.aberrations.seidels()[0])
print('library, field {0} only        :', TSC_on, ' S_I', on.aberrations.seidels()[0])
print('library SC, field {0} only     :', np.ravel(r[1]), ' classical', -TSC_classic/us[-1])

# ---- small-aperture limit with the library's own real rays: y_img / rho^3 -> sum TSC
rho = 0.05
on.trace_generic(0.0, 0.0, 0.0, rho, 0.5876)
y_img = float(on.surface_group.y[-1][0])
print('real marginal ray y_img/rho^3  :', y_img/rho**3, '(rho = %.2f)' % rho)

bad = False
if not np.allclose(TSC_ref, TSC_classic, rtol=1e-9):
    print('convention check failed'); bad = True
if not np.allclose(TSC_on, TSC_classic, rtol=1e-9):
    print('VIOLATION: TSC with only the on-axis field differs from the classical surface formula'); bad = True
if not np.isclose(on.aberrations.seidels()[0], -S1.sum(), rtol=1e-9):
    print('VIOLATION: Seidel sum S_I =', on.aberrations.seidels()[0], 'expected', -S1.sum()); bad = True
if abs(y_img/rho**3 - TSC_on.sum()) > 0.05*abs(TSC_classic.sum()):
    print('VIOLATION: sum TSC does not predict the real marginal-ray error in the small-aperture limit'); bad = True
sys.exit(1 if bad else 0)
