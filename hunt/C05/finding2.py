import sys, os; sys.path.insert(0, os.getcwd())
# C05 finding 2: "real image height per unit field tends to the paraxial image
# height" fails when the largest field is negative.  RayGenerator (and
# Paraxial.trace) scale Hy by fields.max_field = max sqrt(x^2+y^2) = 5, but
# Paraxial.chief_ray scales by fields.max_y_field = np.max(signed y) which is 0
# for fields y = {0, -5} (and -2 for y = {-5, -2}): the paraxial chief ray is
# identically zero / wrongly scaled, while real chief-type rays are not.
import warnings; warnings.filterwarnings('ignore')
import numpy as np
from optiland.optic import Optic
from optiland.materials import IdealMaterial

ND, R1, R2, T1, T2, T3, EPD = 1.5, 60.0, -300.0, 5.0, 8.0, 95.0, 10.0
Z = np.array([0.0, T1, T1 + T2, T1 + T2 + T3]); C = np.array([1 / R1, 1 / R2, 0, 0])
NN = [1.0, ND, 1.0, 1.0, 1.0]

def build(fields):
    l = Optic()
    l.add_surface(index=0, thickness=np.inf)
    l.add_surface(index=1, radius=R1, thickness=T1, material=IdealMaterial(n=ND))
    l.add_surface(index=2, radius=R2, thickness=T2, is_stop=True)
    l.add_surface(index=3, radius=np.inf, thickness=T3)
    l.add_surface(index=4)
    l.set_aperture('EPD', EPD); l.set_field_type('angle')
    for fy in fields: l.add_field(y=fy)
    l.add_wavelength(0.55, is_primary=True)
    return l

def ynu(y, u, z):                       # own paraxial trace, start (y,u) at z
    ys, us = [], []
    for k in range(4):
        y = y + u * (Z[k] - z); z = Z[k]
        u = (NN[k] * u - y * C[k] * (NN[k + 1] - NN[k])) / NN[k + 1]
        ys.append(y); us.append(u)
    return np.array(ys), np.array(us)

# own paraxial chief ray for a field of F degrees: through the stop centre (surface 2)
A = ynu(1.0, 0.0, 0.0)[0][1]; B = ynu(0.0, 1.0, 0.0)[0][1]
def own_chief(F):
    u0 = np.tan(np.radians(F)); return ynu(-B / A * u0, u0, 0.0)

np.set_printoptions(precision=6, suppress=True)
bad = False
for fields in ((0.0, -5.0), (-5.0, -2.0), (0.0, 5.0)):
    lens = build(fields)
    Fmax = max(abs(f) for f in fields)          # what Hy = 1 means for real rays
    yb, ub = lens.paraxial.chief_ray(); yb = yb.ravel()[1:]; ub = ub.ravel()[1:]
    yo, uo = own_chief(Fmax)
    print(f'== fields y = {fields}: max_field = {lens.fields.max_field}, '
          f'max_y_field = {lens.fields.max_y_field}')
    print('   library Paraxial.chief_ray y', yb, ' u', ub)
    print('   own paraxial chief (Hy=1)  y', yo, ' u', uo)
    for eps in (1e-1, 1e-2, 1e-3, 1e-4):
        lens.trace_generic(0.0, eps, 0.0, 0.0, 0.55)
        sg = lens.surface_group
        sc = np.tan(np.radians(Fmax * eps)) / np.tan(np.radians(Fmax))   # field scale
        yr = sg.y.ravel()[1:] / sc; tr = (sg.M / sg.N).ravel()[1:] / sc
        d_lib = max(np.max(np.abs(yr - yb)), np.max(np.abs(tr - ub)))
        d_own = max(np.max(np.abs(yr - yo)), np.max(np.abs(tr - uo)))
        print(f'   eps={eps:g} real/eps y {yr}  | max dev vs library chief_ray {d_lib:.3e}'
              f'  vs own paraxial {d_own:.3e}')
    if d_lib > 1e-5:          # eps = 1e-4: quadratic convergence would give ~1e-7
        bad = True
print('PROPERTY VIOLATED' if bad else 'property holds')
sys.exit(1 if bad else 0)
