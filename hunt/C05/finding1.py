import sys, os; sys.path.insert(0, os.getcwd())
# C05 finding 1: lens whose entrance pupil is a REAL image of the stop lying in
# front of the ray start plane (stop behind the rear focus of the front group).
# RayGenerator aims rays from the start point to the pupil point and gets
# direction cosines with N < 0: rays fly away from the lens, trace gives nan/inf
# at every surface for every eps, so nothing converges to the paraxial rays.
import warnings; warnings.filterwarnings('ignore')
import numpy as np
from optiland.optic import Optic
from optiland.materials import IdealMaterial

ND, R1, T1, T2, T3, EPD, FLD = 1.5, 50.0, 4.0, 130.0, 30.0, 10.0, 5.0

def build(obj_t, ftype, fld):
    l = Optic()
    l.add_surface(index=0, thickness=obj_t)
    l.add_surface(index=1, radius=R1, thickness=T1, material=IdealMaterial(n=ND))
    l.add_surface(index=2, radius=np.inf, thickness=T2)
    l.add_surface(index=3, radius=np.inf, thickness=T3, is_stop=True)
    l.add_surface(index=4)
    l.set_aperture('EPD', EPD); l.set_field_type(ftype)
    l.add_field(y=0); l.add_field(y=fld)
    l.add_wavelength(0.55, is_primary=True)
    return l

# ---------- independent oracle (no optiland code) ----------
Z = np.array([0.0, T1, T1 + T2, T1 + T2 + T3])          # vertex positions 1..4
C = np.array([1 / R1, 0.0, 0.0, 0.0]); NN = [1.0, ND, 1.0, 1.0, 1.0]

def ynu(y, u, z):                                   # paraxial, start (y,u) at z
    ys, us = [], []
    for k in range(4):
        y = y + u * (Z[k] - z); z = Z[k]
        u = (NN[k] * u - y * C[k] * (NN[k + 1] - NN[k])) / NN[k + 1]
        ys.append(y); us.append(u)
    return np.array(ys), np.array(us)

def exact(y, t, z):                                 # meridional real ray, slope t
    d = np.array([t, 1.0]) / np.hypot(t, 1.0); p = np.array([y, z]); ys, ts = [], []
    for k in range(4):
        o = p - np.array([0.0, Z[k]])
        if C[k] == 0:
            s = -o[1] / d[1]; nrm = np.array([0.0, -1.0])
        else:
            c = C[k]; A = c; B = 2 * (c * o @ d - d[1]); Cc = c * o @ o - 2 * o[1]
            s = 2 * Cc / (-B + np.sqrt(B * B - 4 * A * Cc)); q = o + s * d
            nrm = np.array([c * q[0], c * q[1] - 1.0])
        p = p + s * d; mu = NN[k] / NN[k + 1]; ci = -(nrm @ d)
        d = mu * d + (mu * ci - np.sqrt(1 - mu * mu * (1 - ci * ci))) * nrm
        ys.append(p[0]); ts.append(d[0] / d[1])
    return np.array(ys), np.array(ts)

# entrance pupil = where the object-space line of the ray through the stop centre
# meets the axis: y_stop = A*y1 + B*u1 (two forward ynu traces from vertex 1)
A = ynu(1.0, 0.0, 0.0)[0][2]; B = ynu(0.0, 1.0, 0.0)[0][2]
EPL = B / A
bad = False
for name, obj_t, ftype, fld in (('infinite object, angle field', np.inf, 'angle', FLD),
                                ('finite object (EP behind object), object_height', 60.0, 'object_height', 10.0)):
    lens = build(obj_t, ftype, fld)
    P = lens.paraxial
    print('==', name, '| library EPL =', P.EPL(), ' own EPL =', EPL)
    for kind in ('marginal (Hy=0, Py=eps)', 'chief (Hy=eps, Py=0)'):
        for eps in (1e-1, 1e-2, 1e-3, 1e-4):
            Hy, Py = (0.0, eps) if kind[0] == 'm' else (eps, 0.0)
            lens.trace_generic(0.0, Hy, 0.0, Py, 0.55)
            sg = lens.surface_group
            yl = sg.y.ravel()[1:] / eps; tl = (sg.M / sg.N).ravel()[1:] / eps
            if np.isinf(obj_t):
                t0 = np.tan(np.radians(fld * Hy)); y0 = Py * EPD / 2 - t0 * (EPL + 20); z0 = -20.0
            else:
                y0 = fld * Hy; z0 = -obj_t; t0 = (Py * EPD / 2 - y0) / (EPL - z0)
            ye, te = exact(y0, t0, z0); yp, up = ynu(y0, t0, z0)
            err = np.max(np.abs(yl - yp / eps)) if np.all(np.isfinite(yl)) else np.inf
            np.set_printoptions(precision=6, suppress=True)
            print(f' {kind} eps={eps:g}\n   library y/eps {yl}  t/eps {tl}\n   own real y/eps {ye/eps}  t/eps {te/eps}'
                  f'\n   own parax y/eps {yp/eps}  u/eps {up/eps}')
            if not err < 10 * eps ** 2 * max(1.0, np.max(np.abs(yp / eps))) + 1e-9:
                bad = True
print('PROPERTY VIOLATED' if bad else 'property holds')
sys.exit(1 if bad else 0)
