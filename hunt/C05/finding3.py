import sys, os; sys.path.insert(0, os.getcwd())
# C05 finding 3 ("at every surface" includes the object surface of a finite
# object).  Paraxial.chief_ray starts its forward trace at the first surface
# and the object surface only records the launch state, so entry 0 of the
# returned heights is the chief-ray height at surface 1, not at the object.
# Real chief-type rays (and Paraxial.trace, and marginal_ray) do record the
# object plane: real y[0]/eps -> object height 10, chief_ray()[0][0] = 0.1666.
import warnings; warnings.filterwarnings('ignore')
import numpy as np
from optiland.optic import Optic
from optiland.materials import IdealMaterial

ND, R1, R2, T0, T1, T2, T3, EPD, H = 1.5, 60.0, -300.0, 200.0, 5.0, 8.0, 95.0, 10.0, 10.0
lens = Optic()
lens.add_surface(index=0, thickness=T0)
lens.add_surface(index=1, radius=R1, thickness=T1, material=IdealMaterial(n=ND))
lens.add_surface(index=2, radius=R2, thickness=T2, is_stop=True)
lens.add_surface(index=3, radius=np.inf, thickness=T3)
lens.add_surface(index=4)
lens.set_aperture('EPD', EPD); lens.set_field_type('object_height')
lens.add_field(y=0); lens.add_field(y=H)
lens.add_wavelength(0.55, is_primary=True)

# own paraxial chief ray from the object point (H, -T0) through the stop centre
Z = np.array([-T0, 0.0, T1, T1 + T2, T1 + T2 + T3]); C = [0, 1 / R1, 1 / R2, 0, 0]
NN = [1.0, 1.0, ND, 1.0, 1.0, 1.0]
def ynu(y, u):
    ys, us, z = [], [], Z[0]
    for k in range(5):
        y = y + u * (Z[k] - z); z = Z[k]
        u = (NN[k] * u - y * C[k] * (NN[k + 1] - NN[k])) / NN[k + 1]
        ys.append(y); us.append(u)
    return np.array(ys), np.array(us)
a = ynu(1.0, 0.0)[0][2]; b = ynu(0.0, 1.0)[0][2]      # y_stop = a*y_obj + b*u_obj
yo, uo = ynu(H, -a * H / b)

np.set_printoptions(precision=6, suppress=True)
yb, ub = lens.paraxial.chief_ray(); yb = yb.ravel(); ub = ub.ravel()
ym, um = lens.paraxial.marginal_ray()
print('library chief_ray    y', yb, '\n                     u', ub)
print('own paraxial chief   y', yo, '\n                     u', uo)
print('library marginal_ray y', ym.ravel(), '(entry 0 IS the object plane here)')
for eps in (1e-1, 1e-2, 1e-3, 1e-4):
    lens.trace_generic(0.0, eps, 0.0, 0.0, 0.55)
    sg = lens.surface_group
    yr = sg.y.ravel() / eps
    print(f'eps={eps:g} real y/eps {yr}  |dev| per surface vs library chief_ray {np.abs(yr - yb)}')
dev0 = abs(yr[0] - yb[0]); devrest = np.max(np.abs(yr[1:] - yb[1:]))
print(f'object-surface deviation at eps=1e-4: {dev0:.6f} (own oracle: {abs(yr[0]-yo[0]):.2e}); '
      f'other surfaces: {devrest:.2e}')
bad = dev0 > 1e-5
print('PROPERTY VIOLATED at the object surface' if bad else 'property holds')
sys.exit(1 if bad else 0)
