import sys, os; sys.path.insert(0, os.getcwd())
"""C16: a ray clipped by a RadialAperture (intensity 0) does not stay at zero:
when it afterwards fails to intersect a later surface its intensity becomes NaN
(0 * exp(-alpha * nan)), i.e. neither 0 nor inside [0, 1], and the NaN reaches
the analyses (SpotDiagram centroid / RMS radius become NaN)."""
import warnings
import numpy as np
from optiland.optic import Optic
from optiland.materials import IdealMaterial
from optiland.physical_apertures import RadialAperture
from optiland.analysis import SpotDiagram

warnings.simplefilter('ignore')

op = Optic()
op.add_surface(index=0, thickness=np.inf)
# plane front face carrying the physical aperture: r_max = 4 mm
op.add_surface(index=1, radius=np.inf, thickness=3.0, is_stop=True,
               material=IdealMaterial(1.5, 0.0), aperture=RadialAperture(4.0))
# strongly curved back face (sphere of radius 6 mm): rays higher than 6 mm,
# all of them already clipped on surface 1, never meet it
op.add_surface(index=2, radius=-6.0, thickness=10.0)
op.add_surface(index=3)
op.set_aperture('EPD', 14.0)
op.set_field_type('angle')
op.add_field(y=0)
op.add_wavelength(0.55, is_primary=True)

Py = np.array([0.0, 0.3, 0.7, 0.95])          # heights 0, 2.1, 4.9, 6.65 mm
rays = op.trace_generic(0.0, 0.0, 0.0, Py, 0.55)
lib = op.surface_group.intensity               # (surface, ray)

# independent expectation: no coating, k = 0 -> intensity is 1 until the ray
# lands outside an aperture and 0 from that surface onward
h = Py * 14.0 / 2                              # collimated on-axis beam
expected = np.ones((4, Py.size))
expected[1:, h > 4.0] = 0.0

print('ray heights on surface 1 :', h)
print('library per-surface intensity (rows = surfaces 0..3):')
print(lib)
print('expected:')
print(expected)
print('returned rays.i          :', rays.i)

bad = False
if not np.all(np.isfinite(lib)) or np.any(lib < 0) or np.any(lib > 1):
    print('VIOLATION: intensity outside [0, 1] (NaN) on the ray path')
    bad = True
if not np.array_equal(lib, expected):
    print('VIOLATION: a ray clipped on surface 1 is not 0 from there onward')
    bad = True

# the NaN is what the analyses report and work with
sd = SpotDiagram(op, num_rings=6, distribution='hexapolar')
inten = sd.data[0][0][2]
print('SpotDiagram intensities: #NaN =', int(np.isnan(inten).sum()),
      ' #zero =', int((inten == 0).sum()), ' #one =', int((inten == 1).sum()))
print('SpotDiagram centroid:', sd.centroid()[0],
      ' rms radius:', sd.rms_spot_radius()[0][0])
if np.isnan(inten).any():
    bad = True
sys.exit(1 if bad else 0)
