import sys, os; sys.path.insert(0, os.getcwd())
"""C16: after Optic.scale_system(s) a RadialAperture object that is shared by
two surfaces is scaled twice (r_max * s**2).  Rays that land outside the
physical aperture of the scaled lens (r_max * s) keep a non-zero intensity."""
import numpy as np
from optiland.optic import Optic
from optiland.materials import IdealMaterial
from optiland.physical_apertures import RadialAperture
from optiland.coatings import SimpleCoating


def build(scale, ap1, ap2):
    """Biconvex singlet, every length multiplied by `scale`."""
    op = Optic()
    op.add_surface(index=0, thickness=np.inf)
    op.add_surface(index=1, radius=60.0 * scale, thickness=5.0 * scale,
                   material=IdealMaterial(1.5, 1e-6), is_stop=True,
                   aperture=ap1, coating=SimpleCoating(0.9, 0.1))
    op.add_surface(index=2, radius=-60.0 * scale, thickness=55.0 * scale,
                   aperture=ap2)
    op.add_surface(index=3)
    op.set_aperture('EPD', 12.0 * scale)
    op.set_field_type('angle')
    op.add_field(y=0)
    op.add_wavelength(0.55, is_primary=True)
    return op


s = 2.0
shared = RadialAperture(r_max=4.0, r_min=1.0)      # same clear aperture on
lens = build(1.0, shared, shared)                  # both faces of the singlet
lens.scale_system(s)
print('aperture radii after scale_system(2): r_max = %g, r_min = %g'
      % (shared.r_max, shared.r_min), '(expected 8 and 2)')

Py = np.linspace(-1, 1, 13)
rays = lens.trace_generic(0.0, 0.0, 0.0, Py, 0.55)
lib = lens.surface_group.intensity[-1]
y1 = lens.surface_group.y[1]                       # landing height, surface 1
y2 = lens.surface_group.y[2]

# independent expectation from first principles, using the traced geometry:
# zero outside 2 <= r <= 8 on either face, otherwise T * exp(-4 pi k d / lam)
X, Y, Z = (lens.surface_group.x, lens.surface_group.y, lens.surface_group.z)
d = np.sqrt((X[2]-X[1])**2 + (Y[2]-Y[1])**2 + (Z[2]-Z[1])**2)
expected = 0.9 * np.exp(-4 * np.pi * 1e-6 * d * 1e3 / 0.55)
for y in (y1, y2):
    expected[(np.abs(y) > 4.0 * s) | (np.abs(y) < 1.0 * s)] = 0.0

# cross-check: the same lens built directly at twice the size
ref = build(s, RadialAperture(8.0, 2.0), RadialAperture(8.0, 2.0))
ref.trace_generic(0.0, 0.0, 0.0, Py, 0.55)
ref_i = ref.surface_group.intensity[-1]

np.set_printoptions(precision=4, suppress=True, linewidth=140)
print('height on surface 1 :', y1)
print('library intensity   :', lib)
print('expected intensity  :', expected)
print('lens built at 2x    :', ref_i)
viol = ~np.isclose(lib, expected, rtol=1e-12, atol=0)
print('rays with wrong intensity:', int(viol.sum()), 'at heights', y1[viol])
sys.exit(1 if viol.any() else 0)
