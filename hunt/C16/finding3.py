import sys, os; sys.path.insert(0, os.getcwd())
"""C16: a ray that suffers total internal reflection at a refracting surface
(inside every aperture, never clipped) keeps its full (coating-scaled) intensity on that
surface although no transmitted ray exists (direction cosines NaN), and with
NaN on every later surface; with an absorbing medium behind the surface the
same happens.  Nothing in a passive lens may leave the intensity outside
[0, 1]; the transmitted intensity of such a ray is 0."""
import warnings
import numpy as np
from optiland.optic import Optic
from optiland.materials import IdealMaterial
from optiland.physical_apertures import RadialAperture
from optiland.coatings import SimpleCoating

warnings.simplefilter('ignore')

op = Optic()
op.add_surface(index=0, thickness=np.inf)
op.add_surface(index=1, radius=np.inf, thickness=5.0, is_stop=True,
               material=IdealMaterial(1.5, 0.0), aperture=RadialAperture(7.9))
op.add_surface(index=2, radius=-8.0, thickness=20.0,
               aperture=RadialAperture(7.9), coating=SimpleCoating(0.9, 0.1))
op.add_surface(index=3, aperture=RadialAperture(50.0))
op.set_aperture('EPD', 14.0)
op.set_field_type('angle')
op.add_field(y=0)
op.add_wavelength(0.55, is_primary=True)

Py = np.array([0.1, 0.5, 0.95])                # heights 0.7, 3.5, 6.65 mm
rays = op.trace_generic(0.0, 0.0, 0.0, Py, 0.55)
lib = op.surface_group.intensity

# independent check of the refraction at the back face (sphere R = -8, glass
# n = 1.5 to air): collimated ray at height h meets the sphere with
# sin(aoi) = h / 8 ; transmitted ray exists iff 1.5 * h / 8 <= 1
h = Py * 7.0
tir = 1.5 * h / 8.0 > 1.0
expected = np.ones((4, Py.size))
expected[2:, :] = 0.9                          # coating on surface 2
expected[2:, tir] = 0.0                        # no transmitted ray

np.set_printoptions(linewidth=120)
print('heights', h, ' TIR at back face:', tir, ' all inside apertures (<7.9)')
print('library per-surface intensity:'); print(lib)
print('expected:'); print(expected)
print('direction cosine N after surface 2:', op.surface_group.N[2])
ok = np.array_equal(lib, expected)
inrange = np.all(np.isfinite(lib)) and np.all((lib >= 0) & (lib <= 1))
print('inside [0,1] everywhere:', bool(inrange), ' equals expectation:', ok)
sys.exit(0 if (ok and inrange) else 1)
