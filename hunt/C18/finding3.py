import sys, os; sys.path.insert(0, os.getcwd())
# C18 finding 3: scalar and array wavelength arguments do not agree for 'formula 6'
# (gases) entries: an integer-typed numpy wavelength (array or np.int64 scalar) raises
# ValueError while the Python int / float of the same value returns the index.
import csv
import numpy as np, yaml
import optiland
from optiland.materials import Material
from optiland.materials.material_file import MaterialFile
print('optiland from', optiland.__file__)
root = os.path.join(os.path.dirname(os.path.dirname(optiland.__file__)), 'database')
rows = list(csv.DictReader(open(os.path.join(root, 'catalog_nk.csv'), encoding='utf-8')))


def oracle_formula6(c, w):
    # n - 1 = C1 + sum C_i / (C_{i+1} - w^-2)
    s = 1.0 + c[0]
    for i in range(1, len(c), 2):
        s += c[i] / (c[i + 1] - 1.0 / (w * w))
    return s


bad = 0
m = Material('N2', reference='Peck-15C')
print('lookup ->', m.material_data['filename'])
for r in rows:
    fn = os.path.join(root, 'data-nk', r['filename'])
    data = yaml.safe_load(open(fn, encoding='utf-8'))
    if [b['type'] for b in data['DATA']] != ['formula 6']:
        continue
    lo, hi = float(r['min_wavelength']), float(r['max_wavelength'])
    ints = [i for i in range(1, 30) if lo <= i <= hi]
    if not ints:
        continue
    c = [float(x) for x in data['DATA'][0]['coefficients'].split()]
    mat = MaterialFile(fn)
    expected = [oracle_formula6(c, float(i)) for i in ints]
    scalar = [mat.n(i) for i in ints]          # Python int scalars: fine
    try:
        arr = mat.n(np.array(ints))
        ok = np.allclose(arr, expected, rtol=1e-12, atol=0)
    except Exception as e:
        arr, ok = repr(e), False
    try:
        np_scalar = mat.n(np.int64(ints[0]))
    except Exception as e:
        np_scalar, ok = repr(e), False
    if not ok:
        bad += 1
        print(f"{r['filename']} range [{lo}, {hi}], wavelengths {ints} um")
        print(f"    formula 6 from the file     : {expected}")
        print(f"    library, Python int scalars : {scalar}")
        print(f"    library, np.array({ints})  : {arr}")
        print(f"    library, np.int64({ints[0]})       : {np_scalar}")
print('formula-6 entries where scalar and array arguments disagree:', bad)
sys.exit(1 if bad else 0)
