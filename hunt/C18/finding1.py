import sys, os; sys.path.insert(0, os.getcwd())
# C18 finding 1: 'formula 4' entries whose second resonance term is zero-padded
# (C6=C7=C8=C9=0) cannot be evaluated at exactly 1.0 um, a wavelength inside their
# stated range: Python float -> ZeroDivisionError, numpy -> nan; scalar and array disagree.
import csv, math, warnings
import numpy as np, yaml
import optiland
from optiland.materials import Material
from optiland.materials.material_file import MaterialFile
print('optiland from', optiland.__file__)
root = os.path.join(os.path.dirname(os.path.dirname(optiland.__file__)), 'database')


def oracle_formula4(coeffs, w):
    """refractiveindex.info formula 4, written from the documentation:
    n^2 = C1 + C2 w^C3/(w^2-C4^C5) + C6 w^C7/(w^2-C8^C9) + C10 w^C11 + ...
    A term whose leading coefficient is 0 is absent (contributes exactly 0)."""
    c = list(coeffs) + [0.0] * 20
    s = c[0]
    if c[1] != 0.0:
        s += c[1] * w ** c[2] / (w * w - c[3] ** c[4])
    if c[5] != 0.0:
        s += c[5] * w ** c[6] / (w * w - c[7] ** c[8])
    for i in range(9, len(coeffs), 2):
        s += c[i] * w ** c[i + 1]
    return math.sqrt(s)


bad = 0
# headline case through the name lookup: YAG at 1.0 um
m = Material('Y3Al5O12', reference='Hrabovsky')
print('lookup ->', m.material_data['filename'], 'range',
      m.material_data['min_wavelength'], m.material_data['max_wavelength'])

rows = list(csv.DictReader(open(os.path.join(root, 'catalog_nk.csv'), encoding='utf-8')))
for r in rows:
    fn = os.path.join(root, 'data-nk', r['filename'])
    data = yaml.safe_load(open(fn, encoding='utf-8'))
    blocks = [b for b in data['DATA'] if b['type'] == 'formula 4']
    if len(blocks) != 1 or len(data['DATA']) != 1:
        continue
    lo, hi = float(r['min_wavelength']), float(r['max_wavelength'])
    if not (lo <= 1.0 <= hi):
        continue
    coeffs = [float(x) for x in blocks[0]['coefficients'].split()]
    expected = oracle_formula4(coeffs, 1.0)
    mat = MaterialFile(fn)
    try:
        lib_scalar = mat.n(1.0)
    except Exception as e:  # noqa
        lib_scalar = repr(e)
    with warnings.catch_warnings():
        warnings.simplefilter('ignore')
        lib_array = mat.n(np.array([0.999999, 1.0, 1.000001]))
    ok = (isinstance(lib_scalar, float) and abs(lib_scalar - expected) < 1e-9
          and abs(lib_array[1] - expected) < 1e-9)
    if not ok:
        bad += 1
        print(f"{r['filename']}: range [{lo}, {hi}]")
        print(f"    library n(1.0)            = {lib_scalar}")
        print(f"    library n([1-1e-6,1,1+1e-6]) = {lib_array}")
        print(f"    formula in the data file  = {expected:.12f}")
print('entries violating the property at 1.0 um:', bad)
sys.exit(1 if bad else 0)
