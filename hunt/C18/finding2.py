import sys, os; sys.path.insert(0, os.getcwd())
# C18 finding 2: exact-name lookup returns an entry with a different name.
# 'BAF2' is the exact name of a CDGM glass (glass/cdgm/BAF2.yml); Material('BAF2')
# returns the barium fluoride crystal 'BaF2' (far-infrared table) instead.
import csv, io, contextlib
import numpy as np, yaml
import optiland
from optiland.materials import Material
print('optiland from', optiland.__file__)
root = os.path.join(os.path.dirname(os.path.dirname(optiland.__file__)), 'database')
rows = list(csv.DictReader(open(os.path.join(root, 'catalog_nk.csv'), encoding='utf-8')))

bad = 0
for query in ('BAF2', 'Cellulose'):
    exact = [r for r in rows if r['name'] == query or r['category_name'] == query]
    print(f"query {query!r}: catalogue rows with exactly that name:",
          [(r['category_name'], r['name'], r['filename']) for r in exact])
    buf = io.StringIO()
    with contextlib.redirect_stdout(buf):
        m = Material(query)
    d = m.material_data
    print(f"    library returned category_name={d['category_name']!r} name={d['name']!r} "
          f"file={d['filename']}  (warning printed: {bool(buf.getvalue())})")
    if d['name'] != query and d['category_name'] != query:
        bad += 1
        print('    -> returned entry does not carry the queried name')
    # consequence for the index: compare with the file of the exact entry
    if exact and d['filename'] not in [r['filename'] for r in exact]:
        fn = os.path.join(root, 'data-nk', exact[0]['filename'])
        blk = yaml.safe_load(open(fn, encoding='utf-8'))['DATA'][0]
        c = [float(x) for x in blk['coefficients'].split()]
        w = 0.5875618
        assert blk['type'].strip() == 'formula 3'   # n^2 = C1 + sum C_i w^C_{i+1}
        s = c[0]
        for i in range(1, len(c), 2):
            s += c[i] * w ** c[i + 1]
        print(f"    n_d of the entry named {query!r} (own evaluation of its formula 3) = {np.sqrt(s):.6f}")
        print(f"    n_d of the material the library returned                 = {float(m.n(w)):.6f}")
        bad += 1
# the vendor reference resolves it, so the entry itself is reachable
m = Material('BAF2', reference='cdgm')
print("with reference='cdgm':", m.material_data['name'], m.material_data['filename'])
sys.exit(1 if bad else 0)
