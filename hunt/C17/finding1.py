import sys, os; sys.path.insert(0, os.getcwd())
# C17, trace clauses: with a TILTED surface in the lens the propagated field is
# no longer transverse to the ray, and with Fresnel coatings the intensity is
# wrong (the polarization matrix of a tilted surface is built in the surface's
# local frame but applied to the field kept in the global frame).
import numpy as np
from optiland.optic import Optic
from optiland.rays import create_polarization
from optiland.materials import IdealMaterial

NG = 1.5


def build(kind, rx, coat):
    o = Optic()
    o.add_surface(index=0, radius=np.inf, thickness=np.inf)
    o.add_surface(index=1, radius=50, thickness=5,
                  material=IdealMaterial(n=NG), is_stop=True)
    if kind == 'lens':      # second face of the singlet is tilted by rx
        o.add_surface(index=2, radius=-50, thickness=40, rx=rx)
    else:                   # plane fold mirror tilted by rx behind a plate
        o.add_surface(index=2, radius=np.inf, thickness=10)
        o.add_surface(index=3, radius=np.inf, thickness=-40, rx=rx,
                      material='mirror')
    o.add_surface(index=len(o.surface_group.surfaces))
    o.set_aperture(aperture_type='EPD', value=10)
    o.set_field_type(field_type='angle')
    o.add_field(y=0)
    o.add_field(y=5)
    o.add_wavelength(value=0.55, is_primary=True)
    if coat:
        o.surface_group.set_fresnel_coatings()
    return o


def unit(v):
    return v / np.linalg.norm(v, axis=1)[:, None]


def oracle(o, E0, coat):
    """Polarization ray trace done entirely in GLOBAL coordinates from the
    recorded global ray directions (Snell + Fresnel from first principles)."""
    sg = o.surface_group
    K = np.stack([sg.L, sg.M, sg.N], axis=2)        # (surface, ray, 3)
    E = E0.astype(complex)
    for j in range(1, K.shape[0]):
        k0, k1 = K[j - 1], K[j]
        surf = sg.surfaces[j]
        s = np.cross(k0, k1)
        bad = np.linalg.norm(s, axis=1) < 1e-14
        s[bad] = np.cross(k0[bad], [1.0, 0, 0])
        s = unit(s)
        p0, p1 = np.cross(k0, s), np.cross(k1, s)
        ts = tp = 1.0
        if coat and not surf.is_reflective:
            n1 = surf.material_pre.n(0.55)
            n2 = surf.material_post.n(0.55)
            if n1 != n2:
                nrm = unit(n2 * k1 - n1 * k0)       # Snell: normal direction
                ci = np.abs(np.sum(k0 * nrm, axis=1))
                ct = np.abs(np.sum(k1 * nrm, axis=1))
                ts = 2 * n1 * ci / (n1 * ci + n2 * ct)
                tp = 2 * n1 * ci / (n2 * ci + n1 * ct)
        Es = np.sum(E * s, axis=1) * ts
        Ep = np.sum(E * p0, axis=1) * tp
        E = Es[:, None] * s + Ep[:, None] * p1
    return E


fail = False
cases = [('lens', 0.0, False), ('lens', 0.0, True), ('lens', 0.2, False),
         ('mirror', 0.3, False), ('lens', 0.2, True)]
for kind, rx, coat in cases:
    o = build(kind, rx, coat)
    for name in ['H', 'L+45', 'RCP']:
        st = create_polarization(name)
        o.set_polarization(st)
        r = o.trace(0.0, 1.0, 0.55, num_rays=4, distribution='hexapolar')
        E0 = r._get_3d_electric_field(st)
        E1 = r.get_output_field(E0)                 # library's output field
        k = np.stack([r.L, r.M, r.N], axis=1)
        edotk = np.max(np.abs(np.sum(E1 * k, axis=1)))
        Eo = oracle(o, E0, coat)
        Io = np.sum(np.abs(Eo) ** 2, axis=1)
        dI = np.max(np.abs(r.i - Io))
        ok = edotk < 1e-9 and dI < 1e-9
        fail |= not ok
        print(f'{kind:6s} rx={rx:.1f} fresnel={coat!s:5s} {name:5s} '
              f'library max|E.k|={edotk:.3e} (expected 0)  '
              f'library I in [{r.i.min():.6f},{r.i.max():.6f}] '
              f'oracle I in [{Io.min():.6f},{Io.max():.6f}]  '
              f'{"ok" if ok else "VIOLATION"}')
print('PROPERTY VIOLATED' if fail else 'property holds')
sys.exit(1 if fail else 0)
