import sys, os; sys.path.insert(0, os.getcwd())
# C17, "polarizers are projectors onto their stated state": when a Jones
# polarizer acts on a ray that is not deviated by the surface (k_out || k_in,
# e.g. any ray at a plane air/air surface, or the axial ray of any lens), the
# trace uses s = k x X (about +Y) as first transverse axis, whereas the input
# states 'H', 'V', 'L+45', 'L-45' are defined with Ex along (k x X) x k (about
# +X).  The H polarizer therefore blocks 'H' light and passes 'V' light; the
# +45 polarizer blocks 'L+45' and passes 'L-45'.
import numpy as np
from optiland.optic import Optic
from optiland.rays import create_polarization
from optiland.coatings import BaseCoatingPolarized
from optiland import jones as J


def plate(jones):
    o = Optic()
    o.add_surface(index=0, radius=np.inf, thickness=np.inf)
    o.add_surface(index=1, radius=np.inf, thickness=10, is_stop=True)
    o.add_surface(index=2)
    o.set_aperture(aperture_type='EPD', value=10)
    o.set_field_type(field_type='angle')
    o.add_field(y=0)
    o.add_wavelength(value=0.55, is_primary=True)
    coating = BaseCoatingPolarized()      # public hook: .jones gives the matrix
    coating.jones = jones
    o.surface_group.surfaces[1].coating = coating
    return o


# independent description of the states in the global (x, y) plane for a ray
# along +z: Ex is the x amplitude, Ey the y amplitude
vec = {'H': (1, 0), 'V': (0, 1), 'L+45': (1, 1), 'L-45': (1, -1),
       'RCP': (1, -1j), 'LCP': (1, 1j)}
stated = {'H': J.JonesPolarizerH, 'V': J.JonesPolarizerV,
          'L+45': J.JonesPolarizerL45, 'L-45': J.JonesPolarizerL135,
          'RCP': J.JonesPolarizerRCP, 'LCP': J.JonesPolarizerLCP}

fail = False
for pname, cls in stated.items():
    a = np.array(vec[pname], dtype=complex)
    a /= np.linalg.norm(a)
    for sname in vec:
        b = np.array(vec[sname], dtype=complex)
        b /= np.linalg.norm(b)
        expected = abs(np.vdot(a, b)) ** 2     # Malus: |<stated|input>|^2
        o = plate(cls())
        o.set_polarization(create_polarization(sname))
        r = o.trace(0.0, 0.0, 0.55, num_rays=3, distribution='hexapolar')
        got = float(r.i[0])
        ok = abs(got - expected) < 1e-9
        fail |= not ok
        print(f'polarizer {pname:5s} input {sname:5s}: library I={got:.6f} '
              f'expected |<p|s>|^2={expected:.6f} {"ok" if ok else "VIOLATION"}')
print('PROPERTY VIOLATED' if fail else 'property holds')
sys.exit(1 if fail else 0)
