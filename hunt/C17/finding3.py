import sys, os; sys.path.insert(0, os.getcwd())
# C17, "the unpolarized intensity equals the mean of the intensities of any
# two orthogonal input states": PolarizedRays.update_intensity scales the
# unpolarized result by the initial ray intensity but not the polarized one,
# so for rays whose initial intensity is not 1 the two disagree.
import numpy as np
from optiland.rays import PolarizedRays, PolarizationState, create_polarization
from optiland.materials import IdealMaterial
from optiland.coatings import FresnelCoating

n = 3
z = np.zeros(n)
i0 = np.array([0.25, 1.0, 3.0])
L = np.array([0.0, 0.1, 0.0])
M = np.array([0.0, 0.2, 0.3])
N = np.sqrt(1 - L**2 - M**2)


def run(state):
    rays = PolarizedRays(z, z, z, L, M, N, i0, np.full(n, 0.55))
    # one uncoated-glass (Fresnel) plane surface, normal +z
    nx, ny, nz = z.copy(), z.copy(), np.ones(n)
    rays.refract(nx, ny, nz, 1.0, 1.5)
    FresnelCoating(IdealMaterial(1.0), IdealMaterial(1.5)).interact(
        rays, reflect=False, nx=nx, ny=ny, nz=nz)
    rays.update_intensity(state)
    return rays.i.copy()


unpol = run(PolarizationState(is_polarized=False))
fail = False
pairs = [('H', 'V'), ('L+45', 'L-45'), ('RCP', 'LCP')]
for a, b in pairs:
    mean = 0.5 * (run(create_polarization(a)) + run(create_polarization(b)))
    ok = np.allclose(unpol, mean, rtol=1e-12, atol=0)
    fail |= not ok
    print(f'initial intensities {i0}: unpolarized -> {unpol}; '
          f'mean({a},{b}) -> {mean}  {"ok" if ok else "VIOLATION"}')
# independent value: t_s, t_p from Snell/Fresnel, mean of |t|^2 times i0
ci = N
ct = np.sqrt(1 - (1 - ci**2) / 1.5**2)
ts = 2 * ci / (ci + 1.5 * ct)
tp = 2 * ci / (1.5 * ci + ct)
print('first principles  i0*(ts^2+tp^2)/2 =', i0 * (ts**2 + tp**2) / 2)
print('PROPERTY VIOLATED' if fail else 'property holds')
sys.exit(1 if fail else 0)
