import sys, os; sys.path.insert(0, os.getcwd())
# C03 finding 1: when the paraxial entrance pupil lies to the LEFT of the ray start
# point (stop behind the rear focal point of the front group), every generated ray
# is launched backwards (N < 0): it does not travel at +Hy*max_field to the axis,
# never reaches the lens, and trace()/trace_generic() return NaN.
import numpy as np
from optiland.optic import Optic
from optiland.materials import IdealMaterial

R1, R2, T, NG, STOP_T = 100.0, -100.0, 5.0, 1.5, 150.0
MAXF = 1.0

def build(obj_t, ftype):
    lens = Optic()
    lens.add_surface(index=0, thickness=obj_t)
    lens.add_surface(index=1, radius=R1, thickness=T, material=IdealMaterial(n=NG))
    lens.add_surface(index=2, radius=R2, thickness=STOP_T)
    lens.add_surface(index=3, thickness=20.0, is_stop=True)
    lens.add_surface(index=4)
    lens.set_aperture('EPD', 10.0)
    lens.set_field_type(ftype)
    lens.add_field(y=0.0); lens.add_field(y=MAXF)
    lens.add_wavelength(0.55, is_primary=True)
    return lens

# independent paraxial entrance pupil: matrix on (y, n*u) from vertex 1 to the stop;
# a ray through the axial point z=E in object space has y1 = -E*u, it hits the stop centre
# when A*y1 + B*u = 0  ->  E = B/A
refr = lambda n1, n2, R: np.array([[1.0, 0.0], [-(n2 - n1) / R, 1.0]])
tran = lambda t, n: np.array([[1.0, t / n], [0.0, 1.0]])
M = tran(STOP_T, 1.0) @ refr(NG, 1.0, R2) @ tran(T, NG) @ refr(1.0, NG, R1)
EPL = M[0, 1] / M[0, 0]
EPD = 10.0
print('independent entrance pupil position (rel. surface 1): %.4f  (library %.4f)'
      % (EPL, build(np.inf, 'angle').paraxial.EPL()))

bad = False
Hy = 1.0
P = np.array([[0.0, 0.0], [0.0, 1.0], [1.0, 0.0], [-0.5, -0.5]])
for obj_t, ftype in [(np.inf, 'angle'), (50.0, 'object_height'), (50.0, 'angle')]:
    lens = build(obj_t, ftype)
    g = lens.ray_generator.generate_rays(0.0, Hy, P[:, 0].copy(), P[:, 1].copy(), 0.55)
    start = np.stack([g.x, g.y, g.z], axis=1)
    pupil = np.stack([P[:, 0] * EPD / 2, P[:, 1] * EPD / 2, np.full(len(P), EPL)], axis=1)
    # expected: the ray lies on the line start -> pupil point and PROPAGATES FORWARD (+z),
    # i.e. towards the lens that sits at z >= 0 while the ray starts at z < 0
    d = pupil - start
    d /= np.linalg.norm(d, axis=1)[:, None]
    d *= np.sign(d[:, 2])[:, None]
    lib = np.stack([g.L, g.M, g.N], axis=1)
    print('\n%s object, %s field, Hy=%g: rays start at z=%.2f, lens at z=0, pupil at z=%.2f'
          % ('infinite' if np.isinf(obj_t) else 'finite', ftype, Hy, g.z[0], EPL))
    print('  library  (L,M,N) of chief ray :', lib[0])
    print('  expected (L,M,N) of chief ray :', d[0])
    if ftype == 'angle':
        print('  chief ray angle to +z axis: library %.3f deg, expected Hy*max_field = %.3f deg'
              % (np.degrees(np.arctan2(lib[0, 1], lib[0, 2])), Hy * MAXF))
    else:
        print('  start height: library %.3f, expected Hy*max_field = %.3f' % (g.y[0], Hy * MAXF))
    rays = lens.trace_generic(0.0, Hy, 0.0, 0.0, 0.55)
    print('  trace_generic chief ray at image: y=%s  intensity=%s' % (rays.y, rays.i))
    if np.any(lib[:, 2] <= 0) or not np.allclose(lib, d, atol=1e-9) or np.any(np.isnan(rays.y)):
        bad = True

print('\nPROPERTY VIOLATED' if bad else '\nproperty holds')
sys.exit(1 if bad else 0)
