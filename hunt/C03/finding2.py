import sys, os; sys.path.insert(0, os.getcwd())
# C03 finding 2: telecentric object space with an object medium that is not air.
# The stated object-space numerical aperture is NA = n*sin(theta); the telecentric
# branch of the ray generator uses sin(theta) = NA, so the launched cone has
# n*sin(theta) = n*NA instead of the stated NA.  (The non-telecentric branch of the
# same library divides by n, see Paraxial.EPD.)
import numpy as np
from optiland.optic import Optic
from optiland.materials import IdealMaterial

N_OBJ, NA, H = 1.33, 0.2, 5.0

def build(telecentric):
    lens = Optic()
    lens.add_surface(index=0, thickness=50.0, material=IdealMaterial(n=N_OBJ))
    lens.add_surface(index=1, radius=100.0, thickness=5.0, material=IdealMaterial(n=1.5), is_stop=True)
    lens.add_surface(index=2, radius=-100.0, thickness=95.0)
    lens.add_surface(index=3)
    lens.set_aperture('objectNA', NA)
    lens.set_field_type('object_height')
    lens.add_field(y=0.0); lens.add_field(y=H)
    lens.add_wavelength(0.55, is_primary=True)
    lens.obj_space_telecentric = telecentric
    return lens

bad = False
lens = build(True)
for Hy in (0.0, 1.0, -1.0):
    Px = np.array([0.0, 0.0, 1.0, 0.0, -1.0])
    Py = np.array([0.0, 1.0, 0.0, -1.0, 0.0])
    g = lens.ray_generator.generate_rays(0.0, Hy, Px, Py, 0.55)
    chief = np.array([g.L[0], g.M[0], g.N[0]])
    sin_marg = np.sqrt(g.L[1:]**2 + g.M[1:]**2)          # angle to the axis of the rim rays
    na_lib = N_OBJ * sin_marg
    print('Hy=%+.0f start y=%s (expected %.2f); chief direction %s (expected 0,0,1)'
          % (Hy, g.y[0], Hy * H, chief))
    print('   n*sin(theta) of the four rim rays: %s   stated NA: %.4f' % (na_lib, NA))
    print('   sin(theta): library %.6f, expected NA/n = %.6f' % (sin_marg[0], NA / N_OBJ))
    if not np.allclose(na_lib, NA, rtol=1e-9) or not np.allclose(chief, [0, 0, 1]) \
            or abs(g.y[0] - Hy * H) > 1e-12:
        bad = True

# cross-check: same lens, flag off -> library's own cone has n*sin(theta)=NA on axis
g = build(False).ray_generator.generate_rays(0.0, 0.0, np.array([0.0]), np.array([1.0]), 0.55)
print('non-telecentric, same lens, on-axis rim ray: n*sin(theta) = %.6f' % (N_OBJ * g.M[0]))

print('\nPROPERTY VIOLATED' if bad else '\nproperty holds')
sys.exit(1 if bad else 0)
