import sys, os; sys.path.insert(0, os.getcwd())
# C03 finding 3: with angular fields the x component of the field has the opposite
# sign convention to the y component.  A rotationally symmetric lens must give, for the
# field (Hx=h, Hy=0), the ray bundle of the field (Hx=0, Hy=h) rotated by -90 deg about z
# ((x,y)->(y,-x)).  The library instead sends the Hx=+h bundle at angle -h*max_field
# (infinite object) / starts it at the mirrored object point (finite object).
import numpy as np
from optiland.optic import Optic
from optiland.materials import IdealMaterial

MAXF = 5.0
def build(obj_t, ftype):
    lens = Optic()
    lens.add_surface(index=0, thickness=obj_t)
    lens.add_surface(index=1, radius=100.0, thickness=5.0, material=IdealMaterial(n=1.5), is_stop=True)
    lens.add_surface(index=2, radius=-100.0, thickness=95.0)
    lens.add_surface(index=3)
    lens.set_aperture('EPD', 10.0)
    lens.set_field_type(ftype)
    lens.add_field(y=0.0); lens.add_field(y=MAXF)
    lens.add_wavelength(0.55, is_primary=True)
    return lens

bad = False
h = 1.0
px = np.array([0.0, 0.3, -0.6, 0.0]); py = np.array([0.0, 0.5, 0.2, -1.0])
for obj_t, ftype in [(np.inf, 'angle'), (50.0, 'angle'), (50.0, 'object_height')]:
    lens = build(obj_t, ftype)
    gy = lens.ray_generator.generate_rays(0.0, h, px.copy(), py.copy(), 0.55)
    # rotate the Hy bundle by -90 deg: (x,y)->(y,-x); pupil point (px,py)->(py,-px)
    exp = dict(x=gy.y, y=-gy.x, z=gy.z, L=gy.M, M=-gy.L, N=gy.N)
    gx = lens.ray_generator.generate_rays(h, 0.0, py.copy(), -px.copy(), 0.55)
    err = max(np.abs(getattr(gx, k) - v).max() for k, v in exp.items())
    name = '%s object / %s' % ('infinite' if np.isinf(obj_t) else 'finite', ftype)
    print(name)
    print('   Hy=+1 chief: start (x,y)=(%.4f,%.4f)  M/N=%+.6f' % (gy.x[0], gy.y[0], gy.M[0] / gy.N[0]))
    print('   Hx=+1 chief: start (x,y)=(%.4f,%.4f)  L/N=%+.6f   expected start (%.4f,%.4f) L/N=%+.6f'
          % (gx.x[0], gx.y[0], gx.L[0] / gx.N[0], exp['x'][0], exp['y'][0], exp['L'][0] / exp['N'][0]))
    print('   max deviation from the rotated Hy bundle: %.3e' % err)
    if ftype == 'angle':
        ang = np.degrees(np.arctan2(gx.L[0], gx.N[0]))
        print('   angle of Hx=+1 chief ray to the axis in xz: %+.4f deg, expected Hx*max_field = %+.4f deg'
              % (ang, h * MAXF))
    if err > 1e-9:
        bad = True

print('\nPROPERTY VIOLATED' if bad else '\nproperty holds')
sys.exit(1 if bad else 0)
