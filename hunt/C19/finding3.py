import sys, os; sys.path.insert(0, os.getcwd())
# C19 finding 3: a lens for which no system aperture has been set yet (a lens
# under construction, or one that is only traced with user-made RealRays
# through surface_group.trace) is written by to_dict / save_optiland_file with
# 'aperture': null -- Optic.to_dict handles the case explicitly -- but
# Optic.from_dict passes that None to Aperture.from_dict and raises.
import json, tempfile
import numpy as np
from optiland.optic import Optic
from optiland.materials import IdealMaterial
from optiland.rays import RealRays
from optiland.fileio.optiland_handler import (save_optiland_file,
                                              load_optiland_file)

o = Optic()
o.add_surface(index=0, thickness=np.inf)
o.add_surface(index=1, thickness=5, radius=40, is_stop=True,
              material=IdealMaterial(1.5))
o.add_surface(index=2, thickness=60, radius=-50)
o.add_surface(index=3)
o.add_wavelength(0.55, is_primary=True)


def trace(lens):
    rays = RealRays([0.], [3.], [-10.], [0.], [0.], [1.], [1.], [0.55])
    lens.surface_group.trace(rays)
    sg = lens.surface_group
    return [float(v[-1, 0]) for v in (sg.x, sg.y, sg.z, sg.L, sg.M, sg.N,
                                      sg.opd, sg.intensity)]


t0 = trace(o)
# independent paraxial check that this is a working lens (y = 3 mm ray)
n, R1, R2, t, d = 1.5, 40.0, -50.0, 5.0, 60.0
u1 = -3.0 * (n - 1) / R1 / n
y2 = 3.0 + t * u1
u2 = n * u1 - y2 * (1 - n) / R2
print('ray height at image: library %.6f   paraxial estimate %.6f'
      % (t0[1], y2 + d * u2))

bad = False
path = os.path.join(tempfile.mkdtemp(), 'lens.json')
save_optiland_file(o, path)
print("saved; 'aperture' entry in file:", json.load(open(path))['aperture'])
for label, loader in (('Optic.from_dict(to_dict())',
                       lambda: Optic.from_dict(o.to_dict())),
                      ('load_optiland_file', lambda: load_optiland_file(path))):
    try:
        o2 = loader()
        same = trace(o2) == t0 and o2.to_dict() == json.load(open(path))
        print(label, '-> reloaded, same ray and dict:', same)
        bad = bad or not same
    except Exception as e:
        print(label, '-> expected a lens, library raises %s: %s'
              % (type(e).__name__, e))
        bad = True
print('VIOLATED' if bad else 'holds')
sys.exit(1 if bad else 0)
