import sys, os; sys.path.insert(0, os.getcwd())
# C19 finding 2: a lens whose last surface is the public
# optiland.surfaces.ImageSurface converts to a dictionary / JSON file, but
# cannot be loaded again: Surface._from_dict calls the registered subclass
# with the 8 positional arguments of Surface.__init__, which
# ImageSurface.__init__(geometry, material_pre, aperture) does not accept.
import json, tempfile
import numpy as np
from optiland.optic import Optic
from optiland.materials import IdealMaterial
from optiland.surfaces import ImageSurface
from optiland.geometries import Plane
from optiland.coordinate_system import CoordinateSystem
from optiland.fileio.optiland_handler import (save_optiland_file,
                                              load_optiland_file)

o = Optic()
o.add_surface(index=0, thickness=np.inf)
o.add_surface(index=1, thickness=5, radius=40, is_stop=True,
              material=IdealMaterial(1.5))
o.add_surface(index=2, thickness=60, radius=-50)
o.add_surface(new_surface=ImageSurface(Plane(CoordinateSystem(z=65.0)),
                                       IdealMaterial(1.0)), index=3)
o.set_aperture('EPD', 10)
o.set_field_type('angle')
o.add_field(y=0)
o.add_wavelength(0.55, is_primary=True)

# the lens is a working lens: compare with an independent thick-lens formula
n, R1, R2, t = 1.5, 40.0, -50.0, 5.0
f_expected = 1 / ((n - 1) * (1 / R1 - 1 / R2 + (n - 1) * t / (n * R1 * R2)))
print('f2 library %.9f   thick-lens formula %.9f'
      % (float(np.ravel(o.paraxial.f2())[0]), f_expected))
o.trace_generic(0., 0., 0., 0.5, 0.55)
y_img = float(o.surface_group.y[-1, 0])
print('real ray height on ImageSurface:', y_img)

bad = False
path = os.path.join(tempfile.mkdtemp(), 'lens.json')
save_optiland_file(o, path)
print('saved to JSON, surface types:',
      [s['type'] for s in json.load(open(path))['surface_group']['surfaces']])
for label, loader in (('Optic.from_dict(to_dict())',
                       lambda: Optic.from_dict(o.to_dict())),
                      ('load_optiland_file', lambda: load_optiland_file(path))):
    try:
        o2 = loader()
        o2.trace_generic(0., 0., 0., 0.5, 0.55)
        y2 = float(o2.surface_group.y[-1, 0])
        same = (y2 == y_img and o2.to_dict() == json.load(open(path)))
        print(label, '-> reloaded, same ray and dict:', same)
        bad = bad or not same
    except Exception as e:
        print(label, '-> expected a lens, library raises %s: %s'
              % (type(e).__name__, e))
        bad = True
print('VIOLATED' if bad else 'holds')
sys.exit(1 if bad else 0)
