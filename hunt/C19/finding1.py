import sys, os; sys.path.insert(0, os.getcwd())
# C19 finding 1: the dictionary form of a lens with an even-asphere surface is
# not a snapshot -- it shares the live coefficient list with the lens (to_dict)
# and a lens built from a dictionary keeps using the dictionary's own list
# (from_dict).  Consequences:
#  (a) d = lens.to_dict(); edit lens; Optic.from_dict(d) returns the EDITED
#      prescription, not the one that was converted;
#  (b) two lenses loaded from one dictionary are coupled: editing one changes
#      the other and the dictionary, so 'the dictionary form of a reloaded lens
#      equals the one it was loaded from' cannot be relied upon.
import json
import numpy as np
from optiland.optic import Optic
from optiland.materials import IdealMaterial


def build():
    o = Optic()
    o.add_surface(index=0, thickness=np.inf)
    o.add_surface(index=1, thickness=5, radius=40, is_stop=True,
                  material=IdealMaterial(1.5), surface_type='even_asphere',
                  conic=-0.5, coefficients=[1e-5, -1e-8])
    o.add_surface(index=2, thickness=60, radius=-50)
    o.add_surface(index=3)
    o.set_aperture('EPD', 10)
    o.set_field_type('angle')
    o.add_field(y=0)
    o.add_wavelength(0.55, is_primary=True)
    return o


def image_height(o):
    o.trace_generic(0., 0., 0., 0.9, 0.55)
    return float(o.surface_group.y[-1, 0])


def sag(c, r):          # independent even-asphere sag, R=40, k=-0.5
    R, k = 40.0, -0.5
    z = r**2 / (R * (1 + np.sqrt(1 - (1 + k) * r**2 / R**2)))
    return z + sum(ci * r**(2 * (i + 1)) for i, ci in enumerate(c))


bad = False
lens = build()
y_before = image_height(lens)
d = lens.to_dict()                 # 'snapshot' of the lens as built
text_at_snapshot = json.dumps(d)
lens.set_asphere_coeff(7e-5, 1, 0)  # later edit of the live lens
restored = Optic.from_dict(d)      # should be the lens as built
c_rest = list(restored.surface_group.surfaces[1].geometry.c)
y_rest = image_height(restored)
print('(a) coefficients expected in restored lens : [1e-05, -1e-08]')
print('    coefficients library gives             :', c_rest)
print('    sag at r=4.5 expected %.9f, restored lens %.9f'
      % (sag([1e-5, -1e-8], 4.5),
         float(restored.surface_group.surfaces[1].geometry.sag(0, 4.5))))
print('    image height of marginal ray: as built %.9f, restored %.9f'
      % (y_before, y_rest))
print('    dictionary unchanged by the later edit :',
      json.dumps(d) == text_at_snapshot)
if c_rest != [1e-5, -1e-8] or y_rest != y_before \
        or json.dumps(d) != text_at_snapshot:
    bad = True

src = json.loads(text_at_snapshot)
a = Optic.from_dict(src)
b = Optic.from_dict(src)
a.set_asphere_coeff(9e-5, 1, 0)    # edit only lens a
c_b = list(b.surface_group.surfaces[1].geometry.c)
print('(b) lens b after editing lens a, expected  : [1e-05, -1e-08]')
print('    lens b coefficients library gives      :', c_b)
print('    b.to_dict() == json form it was loaded from:',
      b.to_dict() == json.loads(text_at_snapshot))
if c_b != [1e-5, -1e-8] or b.to_dict() != json.loads(text_at_snapshot):
    bad = True

print('VIOLATED' if bad else 'holds')
sys.exit(1 if bad else 0)
