import sys, os; sys.path.insert(0, os.getcwd())
# C14 clause: "each optimisation variable is a faithful handle: setting then
# reading returns the value set" (and hence "variable values equal the returned
# vector").  When the freeform / asphere coefficients of a surface were entered
# as integers (e.g. coefficients=[[0, 0], [0, 0]]), the coefficient variables
# write into an int64 array: every value is truncated towards zero, the merit
# function never sees the optimiser's x, and the run returns the start lens.
import warnings
import numpy as np
from optiland import optic, optimization
from optiland.materials import IdealMaterial


def build(surface_type, coefficients):
    l = optic.Optic()
    l.add_surface(index=0, radius=np.inf, thickness=np.inf)
    l.add_surface(index=1, radius=50.0, thickness=5.0, conic=0.0,
                  material=IdealMaterial(1.5), is_stop=True,
                  surface_type=surface_type, coefficients=coefficients)
    l.add_surface(index=2, radius=-50.0, thickness=45.0)
    l.add_surface(index=3)
    l.set_aperture(aperture_type='EPD', value=10)
    l.set_field_type(field_type='angle')
    l.add_field(y=0)
    l.add_wavelength(value=0.5876, is_primary=True)
    return l


bad = []
cases = [
    ('polynomial_coeff', 'polynomial', [[0, 0, 0], [0, 0, 0], [0, 0, 0]],
     dict(coeff_index=(0, 2))),
    ('polynomial_coeff (padded)', 'polynomial', [[0, 0], [0, 0]],
     dict(coeff_index=(0, 2))),
    ('chebyshev_coeff', 'chebyshev', [[0, 0, 0], [0, 0, 0], [0, 0, 0]],
     dict(coeff_index=(0, 2))),
    ('asphere_coeff', 'even_asphere', np.array([0, 0, 0]),
     dict(coeff_number=0)),
]
for label, stype, coeffs, kw in cases:
    l = build(stype, coeffs)
    vtype = label.split(' ')[0]
    v = optimization.Variable(l, vtype, surface_number=1,
                              apply_scaling=False, **kw)
    v.update(0.37)
    got = float(v.value)
    print('%-26s set 0.37 -> read %r   (expected 0.37)' % (label, got))
    if abs(got - 0.37) > 1e-12:
        bad.append(label + ': set/read round trip returns %r' % got)

# consequence for an optimiser run: identical lenses, integer vs float zeros
out = {}
for tag, coeffs in (('int', [[0, 0, 0], [0, 0, 0], [0, 0, 0]]),
                    ('float', [[0., 0., 0.], [0., 0., 0.], [0., 0., 0.]])):
    l = build('polynomial', coeffs)
    p = optimization.OptimizationProblem()
    p.add_operand('real_y_intercept', 0.3, 1,
                  {'optic': l, 'surface_number': -1, 'Hx': 0, 'Hy': 0,
                   'Px': 0, 'Py': 1, 'wavelength': 0.5876})
    p.add_variable(l, 'polynomial_coeff', surface_number=1,
                   coeff_index=(0, 2), min_val=-0.01, max_val=0.01)
    m0 = p.sum_squared()
    opt = optimization.OptimizerGeneric(p)
    with warnings.catch_warnings():
        warnings.simplefilter('ignore')
        res = opt.optimize(method='Nelder-Mead', disp=False, tol=1e-10)
    out[tag] = (m0, float(res.fun), float(res.x[0]),
                float(p.variables[0].value))
    print('%-5s coefficients: merit start %.6f -> returned %.3e, '
          'result.x = %.6g, variable reads %.6g'
          % ((tag,) + out[tag]))
if abs(out['int'][2] - out['int'][3]) > 1e-12:
    bad.append('variable value differs from returned vector')
if out['float'][1] < 1e-6 * out['float'][0] and \
        out['int'][1] > 0.5 * out['int'][0]:
    bad.append('same lens with integer-typed zeros cannot be optimised '
               '(merit %.4f stays at start, float lens reaches %.1e)'
               % (out['int'][1], out['float'][1]))
for b in bad:
    print('VIOLATION:', b)
sys.exit(1 if bad else 0)
