import sys, os; sys.path.insert(0, os.getcwd())
# C14 clause: "undo() restores the lens to its state before the run".
# An 'index' variable is written with Optic.set_index, which replaces the glass
# behind the surface by a dispersion-free IdealMaterial.  undo() writes the old
# number back through the same route, so the glass (and with it the index at
# every wavelength other than the variable's) is never restored.
import warnings
import numpy as np
from optiland import optic, optimization

WLS = (0.4861, 0.5876, 0.6563)


def sellmeier_nbk7(w):
    """independent oracle: Schott catalogue Sellmeier formula of N-BK7"""
    B = (1.03961212, 0.231792344, 1.01046945)
    C = (0.00600069867, 0.0200179144, 103.560653)
    w2 = w * w
    return np.sqrt(1 + sum(b * w2 / (w2 - c) for b, c in zip(B, C)))


l = optic.Optic()
l.add_surface(index=0, radius=np.inf, thickness=np.inf)
l.add_surface(index=1, radius=50.0, thickness=5.0, material='N-BK7',
              is_stop=True)
l.add_surface(index=2, radius=-50.0, thickness=45.0)
l.add_surface(index=3)
l.set_aperture(aperture_type='EPD', value=10)
l.set_field_type(field_type='angle')
l.add_field(y=0)
for w in WLS:
    l.add_wavelength(value=w, is_primary=(w == 0.5876))

p = optimization.OptimizationProblem()
p.add_operand('f2', 45.0, 1, {'optic': l})
# axial colour: F and C marginal rays should land at the same image height
for w, tgt in ((0.4861, -0.30), (0.6563, -0.25)):
    p.add_operand('real_y_intercept', tgt, 10,
                  {'optic': l, 'surface_number': -1, 'Hx': 0, 'Hy': 0,
                   'Px': 0, 'Py': 1, 'wavelength': w})
p.add_variable(l, 'index', surface_number=1, wavelength=0.5876,
               min_val=1.45, max_val=1.9)

n_before = np.array([float(l.n(w)[1]) for w in WLS])
mat_before = type(l.surface_group.surfaces[1].material_post).__name__
m_before = float(p.sum_squared())
print('oracle N-BK7 (Sellmeier)  n(F,d,C) =',
      np.round([sellmeier_nbk7(w) for w in WLS], 6))
print('before run : %-14s n(F,d,C) =' % mat_before, np.round(n_before, 6),
      ' merit = %.6f' % m_before)

opt = optimization.OptimizerGeneric(p)
with warnings.catch_warnings():
    warnings.simplefilter('ignore')
    res = opt.optimize(disp=False)
print('after run  : merit = %.6f (returned %.6f)'
      % (float(p.sum_squared()), float(res.fun)))

opt.undo()
n_after = np.array([float(l.n(w)[1]) for w in WLS])
mat_after = type(l.surface_group.surfaces[1].material_post).__name__
m_after = float(p.sum_squared())
print('after undo : %-14s n(F,d,C) =' % mat_after, np.round(n_after, 6),
      ' merit = %.6f' % m_after)
print('expected   : %-14s n(F,d,C) =' % mat_before, np.round(n_before, 6),
      ' merit = %.6f' % m_before)

bad = []
oracle = np.array([sellmeier_nbk7(w) for w in WLS])
if np.max(np.abs(n_before - oracle)) > 1e-5:
    print('note: catalogue index differs from the Sellmeier oracle')
if np.max(np.abs(n_after - oracle)) > 1e-5:
    bad.append('index of the glass after undo differs from N-BK7 by %.2e '
               '(dispersion lost: V-number is now infinite)'
               % np.max(np.abs(n_after - oracle)))
if abs(m_after - m_before) > 1e-9 * max(1.0, m_before):
    bad.append('merit after undo %.6f != merit before run %.6f'
               % (m_after, m_before))
for b in bad:
    print('VIOLATION:', b)
sys.exit(1 if bad else 0)
