import sys, os; sys.path.insert(0, os.getcwd())
# C14 clause: "pickups and solves are satisfied, and undo() restores the lens
# to its state before the run".  undo() writes the old variable values back but
# never re-applies pickups / solves, so the dependent parameters keep the values
# of the optimised solution: the lens is a hybrid that never existed.
import warnings
import numpy as np
from optiland import optic, optimization
from optiland.materials import IdealMaterial

N = 1.5
EPD = 10.0


def build():
    l = optic.Optic()
    l.add_surface(index=0, radius=np.inf, thickness=np.inf)
    l.add_surface(index=1, radius=50.0, thickness=5.0,
                  material=IdealMaterial(N), is_stop=True)
    l.add_surface(index=2, radius=-50.0, thickness=45.0)
    l.add_surface(index=3)
    l.set_aperture(aperture_type='EPD', value=EPD)
    l.set_field_type(field_type='angle')
    l.add_field(y=0)
    l.add_wavelength(value=0.5876, is_primary=True)
    l.pickups.add(1, 'radius', 2, scale=-1, offset=0)   # R2 = -R1
    l.solves.add('marginal_ray_height', 3, height=0.0)  # paraxial focus
    l.update()
    return l


def state(l):
    sg = l.surface_group
    return (np.array(sg.radii, dtype=float).ravel(),
            np.array(sg.positions, dtype=float).ravel())


def image_height_first_principles(l):
    """independent y-nu trace of the marginal ray (object at infinity)"""
    R, z = state(l)
    n = [1.0, N, 1.0]
    y, u = EPD / 2, 0.0
    for k in (1, 2):
        u = (n[k - 1] * u - y * (n[k] - n[k - 1]) / R[k]) / n[k]
        y = y + (z[k + 1] - z[k]) * u
    return y


l = build()
p = optimization.OptimizationProblem()
p.add_operand('f2', 80.0, 1, {'optic': l})
p.add_variable(l, 'radius', surface_number=1)
R0, z0 = state(l)
m0 = p.sum_squared()
print('before run : R =', R0[1:3], ' z_img = %.6f' % z0[3],
      ' merit = %.6f' % m0,
      ' y_img(own trace) = %.2e' % image_height_first_principles(l))

opt = optimization.OptimizerGeneric(p)
with warnings.catch_warnings():
    warnings.simplefilter('ignore')
    res = opt.optimize(disp=False)
R1, z1 = state(l)
print('after run  : R =', R1[1:3], ' z_img = %.6f' % z1[3],
      ' merit = %.3e' % p.sum_squared(),
      ' y_img(own trace) = %.2e' % image_height_first_principles(l))

opt.undo()
R2, z2 = state(l)
m2 = p.sum_squared()
y2 = image_height_first_principles(l)
print('after undo : R =', R2[1:3], ' z_img = %.6f' % z2[3],
      ' merit = %.6f' % m2, ' y_img(own trace) = %.2e' % y2)
print('expected   : R =', R0[1:3], ' z_img = %.6f' % z0[3],
      ' merit = %.6f' % m0, ' y_img = 0')

bad = []
if not np.allclose(R2[1:3], R0[1:3], rtol=1e-9):
    bad.append('radii not restored (pickup target keeps optimised value)')
if abs(R2[2] + R2[1]) > 1e-9:
    bad.append('pickup R2 = -R1 violated after undo')
if abs(z2[3] - z0[3]) > 1e-9:
    bad.append('image distance not restored (solve not re-applied)')
if abs(y2) > 1e-9:
    bad.append('marginal ray height solve violated after undo')
if abs(m2 - m0) > 1e-9 * max(1, abs(m0)):
    bad.append('merit after undo differs from merit before run')
for b in bad:
    print('VIOLATION:', b)
sys.exit(1 if bad else 0)
