import sys, os; sys.path.insert(0, os.getcwd())
# C06 / finding 2: paraboloid mirror, object at infinity, aperture stop in the front
# focal plane (image-space telecentric).  Rays are perfect; Wavefront/FFTPSF give NaN.
import warnings; warnings.filterwarnings('ignore')
import numpy as np
from optiland import optic, wavefront, psf

def build(f, epd, d):
    l = optic.Optic()
    l.add_surface(index=0, radius=np.inf, thickness=np.inf)
    l.add_surface(index=1, radius=np.inf, thickness=d, is_stop=True)      # stop, d in front of mirror
    l.add_surface(index=2, radius=-2*f, conic=-1, thickness=-f, material='mirror')
    l.add_surface(index=3)
    l.set_aperture('EPD', epd); l.set_field_type('angle'); l.add_field(y=0)
    l.add_wavelength(0.55, is_primary=True); l.update_paraxial()
    return l

f, epd, wl = 100.0, 50.0, 0.55
# oracle: plane wave at z0 -> mirror z=-h^2/(4f) -> focus (0,-f): OPL = f - z0 for every h
h = np.linspace(0, epd/2, 11); zm = -h*h/(4*f); z0 = -300.0
opl = (zm - z0) + np.hypot(h, zm + f)
print('oracle : OPL spread over pupil = %.2e mm -> W = 0, Strehl = 1 wherever the stop is' % np.ptp(opl))
bad = False
for d in (50.0, 99.9, 100.0):
    l = build(f, epd, d)
    l.trace(0, 0, wl, 8, 'hexapolar'); sg = l.surface_group
    spot = np.max(np.hypot(sg.x[-1], sg.y[-1])); pv = np.ptp(sg.opd[-1])
    W = wavefront.Wavefront(l, fields=[(0, 0)], wavelengths=[wl], num_rays=8).data[0][0][0]
    S = psf.FFTPSF(l, (0, 0), wl, num_rays=64, grid_size=256).strehl_ratio()
    print('library: stop %6.1f mm in front: XPL=%s spot=%.1e OPLspread=%.1e | W NaN %d/%d, max|W|=%s, Strehl=%r'
          % (d, l.paraxial.XPL(), spot, pv, np.isnan(W).sum(), W.size,
             np.nanmax(np.abs(W)) if not np.isnan(W).all() else 'nan', S))
    bad |= bool(np.isnan(W).any() or np.nanmax(np.abs(W)) > 1e-6 or not abs(S - 1) < 1e-6)
sys.exit(1 if bad else 0)
