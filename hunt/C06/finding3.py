import sys, os; sys.path.insert(0, os.getcwd())
# C06 / finding 3: hyperbolic (k=-n^2) refracting faces, point object at the focus of the
# first face, collimated inside the glass, second identical face refocuses (two
# plano-hyperbolic singlets back to back, 1:1).  n=1.3, object NA 0.5 (well inside the
# asymptote cone, acos(1/n)=39.7 deg): the outer rays are intersected with the OTHER sheet
# of the hyperboloid (z<0, not part of the surface z=sag(r)>=0) and miss the image by ~200 mm.
import warnings; warnings.filterwarnings('ignore')
import numpy as np
from optiland import optic
from optiland.materials import IdealMaterial

n, R, NA, t = 1.3, 50.0, 0.5, 400.0
k = -n*n; f = R/(n-1)
sag = lambda r: r*r/(R*(1+np.sqrt(1-(1+k)*r*r/R/R)))
l = optic.Optic()
l.add_surface(index=0, radius=np.inf, thickness=f)
l.add_surface(index=1, radius=R, conic=k, thickness=t, material=IdealMaterial(n=n), is_stop=True)
l.add_surface(index=2, radius=-R, conic=k, thickness=f)
l.add_surface(index=3)
l.set_aperture('objectNA', NA); l.set_field_type('object_height'); l.add_field(y=0)
l.add_wavelength(0.55, is_primary=True); l.update_paraxial()

Py = np.array([0.0, 0.5, 0.9, 0.95, 1.0])
l.trace_generic(0., 0., np.zeros_like(Py), Py, 0.55)
sg = l.surface_group
M0, N0 = sg.M[0], sg.N[0]                      # launch directions chosen by the library
bad = False
print('other sheet of face 1 starts at z = 2R/(1+k) = %.2f mm' % (2*R/(1+k)))
for i, p in enumerate(Py):
    # oracle: intersect the launched ray with z = sag(y) by bisection on the height
    tan = M0[i]/N0[i]; lo, hi = 0.0, 1e5
    for _ in range(200):
        mid = 0.5*(lo+hi)
        if mid - (f + sag(mid))*tan < 0: lo = mid
        else: hi = mid
    y1, z1 = sg.y[1][i], sg.z[1][i]
    print('Py=%.2f face1: library (y,z)=(%9.4f,%10.4f) sag(y)=%8.4f | oracle (y,z)=(%9.4f,%9.4f) | image y: library %.3e, expected 0'
          % (p, y1, z1, sag(y1), lo, sag(lo), sg.y[-1][i]))
    bad |= abs(z1 - sag(lo)) > 1e-6 or not abs(sg.y[-1][i]) < 1e-6
print('OPL at image (library):', sg.opd[-1], ' expected: all equal to 2f + n t =', 2*f + n*t)
bad |= not np.ptp(sg.opd[-1]) < 1e-6
sys.exit(1 if bad else 0)
