import sys, os; sys.path.insert(0, os.getcwd())
# C06 / finding 1: stigmatic system whose image lies inside glass (plano-hyperbolic
# singlet feeding an aplanatic spherical surface = aplanatic solid immersion lens).
# All rays reach the image point with equal OPL, yet Wavefront / FFTPSF return NaN.
import warnings; warnings.filterwarnings('ignore')
import numpy as np
from optiland import optic, wavefront, psf
from optiland.materials import IdealMaterial

n1, R1, n2, R3, EPD, wl = 1.5, 50.0, 2.0, 10.0, 80.0, 0.55
k1 = -n1**2
sag = lambda r, R, k: r*r/(R*(1+np.sqrt(1-(1+k)*r*r/R/R)))
dsag = lambda r, R, k: r/(R*np.sqrt(1-(1+k)*r*r/R/R))
t1 = abs(sag(EPD/2, R1, k1)) + 2.0          # positive edge thickness
f = R1/(n1-1)                               # focus of the hyperbolic face, in air
s, sp = R3*(1+n2), R3*(1+1/n2)              # aplanatic conjugates of sphere R3 (air -> n2)
gap = f - s

lens = optic.Optic()
lens.add_surface(index=0, radius=np.inf, thickness=np.inf)
lens.add_surface(index=1, radius=np.inf, thickness=t1, material=IdealMaterial(n=n1), is_stop=True)
lens.add_surface(index=2, radius=-R1, conic=k1, thickness=gap)
lens.add_surface(index=3, radius=R3, thickness=sp, material=IdealMaterial(n=n2))
lens.add_surface(index=4)                   # image surface, inside the n2 glass
lens.set_aperture('EPD', EPD); lens.set_field_type('angle'); lens.add_field(y=0)
lens.add_wavelength(wl, is_primary=True); lens.update_paraxial()

# ---- independent meridional trace (own Snell + Newton intersection) ----
def hit(y, z, M, N, zv, R, k, z0):
    t = (zv + z0 - z)/N           # Newton start: plane z = zv + z0
    for _ in range(100):
        yy = y + t*M
        s_, d_ = (0.0, 0.0) if np.isinf(R) else (sag(yy, R, k), dsag(yy, R, k))
        t -= (z + t*N - zv - s_)/(N - d_*M)
    return t
def refr(y, M, N, R, k, na, nb):
    d_ = 0.0 if np.isinf(R) else dsag(y, R, k)
    ny, nz = -d_/np.hypot(d_, 1), 1/np.hypot(d_, 1)
    mu = na/nb; c = M*ny + N*nz
    root = np.sqrt(1 - mu*mu*(1-c*c))      # real -> the ray exists
    return mu*M + (root - mu*c)*ny, mu*N + (root - mu*c)*nz
surfs = [(0.0, np.inf, 0, 1.0, n1, 0.0), (t1, -R1, k1, n1, 1.0, 0.0), (t1+gap, R3, 0, 1.0, n2, R3)]
zimg = t1 + gap + sp
h = np.linspace(0, EPD/2, 9); oy = []; opl = []
for y0 in h:
    y, z, M, N, L = y0, -50.0, 0.0, 1.0, 0.0
    for zv, R, k, na, nb, z0 in surfs:
        t = hit(y, z, M, N, zv, R, k, z0); y, z, L = y + t*M, z + t*N, L + na*t
        M, N = refr(y, M, N, R, k, na, nb)
    t = (zimg - z)/N; oy.append(y + t*M); opl.append(L + n2*t)
print('oracle : |y| at image max = %.2e mm, OPL spread = %.2e mm, sin(U\') marginal = %.3f'
      % (np.max(np.abs(oy)), np.ptp(opl), abs(M)))

# ---- library ----
lens.trace(0, 0, wl, 8, 'hexapolar'); sg = lens.surface_group
print('library: rays at image: NaN=%d, spot max=%.2e mm, OPL spread=%.2e mm'
      % (np.isnan(sg.x[-1]).sum(), np.nanmax(np.hypot(sg.x[-1], sg.y[-1])), np.ptp(sg.opd[-1])))
W = wavefront.Wavefront(lens, fields=[(0, 0)], wavelengths=[wl], num_rays=8).data[0][0][0]
S = psf.FFTPSF(lens, (0, 0), wl, num_rays=64, grid_size=256).strehl_ratio()
print('library: wavefront error: %d of %d samples NaN, max|W| of the rest = %.2e waves; Strehl = %r'
      % (np.isnan(W).sum(), W.size, np.nanmax(np.abs(W)), S))
print('expected: wavefront error 0 at every pupil point, Strehl 1')
bad = np.isnan(W).any() or np.nanmax(np.abs(W)) > 1e-6 or not abs(S - 1) < 1e-6
sys.exit(1 if bad else 0)
