import sys, os; sys.path.insert(0, os.getcwd())
# C04 finding 1: the paraxial trace ignores the r^2 term of an even asphere.
# optiland's EvenAsphere sag is  z = c r^2/(1+sqrt(1-(1+k)c^2 r^2)) + C0 r^2 + C1 r^4 + ...
# so the vertex curvature is c + 2*C0, but Surface._trace_paraxial uses 1/radius only.
# The bundled sample AsphericSinglet has C0 = -2.248851e-4.
import numpy as np
from optiland.samples.simple import AsphericSinglet

o = AsphericSinglet()
p = o.paraxial
sg = o.surface_group
wl = o.primary_wavelength
n = float(np.real(o.n()[1]))
pos = sg.positions.ravel()
t = pos[2] - pos[1]


def vertex_curv(geom, h=1e-3):
    # second derivative of the public sag function at the vertex
    return 2 * (float(geom.sag(0.0, h)) - float(geom.sag(0.0, 0.0))) / h**2


c1 = vertex_curv(sg.surfaces[1].geometry)
c2 = 0.0 if np.isinf(sg.radii[2]) else 1 / sg.radii[2]
print('surface 1: 1/R = %.8f, vertex curvature from sag = %.8f, 1/R+2*C0 = %.8f'
      % (1 / sg.radii[1], c1, 1 / sg.radii[1] + 2 * sg.surfaces[1].geometry.c[0]))

# ABCD on (y, n u): R2 T1 R1
R1 = np.array([[1, 0], [-(n - 1) * c1, 1]])
T1 = np.array([[1, t / n], [0, 1]])
R2 = np.array([[1, 0], [-(1 - n) * c2, 1]])
M = R2 @ T1 @ R1
f2_abcd = -1 / M[1, 0]
bfd_abcd = -M[0, 0] / M[1, 0]          # from surface 2
F2_abcd = bfd_abcd - (pos[3] - pos[2])  # relative to the image surface

# cross-check with the library's own real rays very close to the axis
h = 1e-4
o.trace_generic(0., 0., 0., h / (p.EPD() / 2), wl)
y, Mdir, Ndir = sg.y, sg.M, sg.N
slope = Mdir[2, 0] / Ndir[2, 0]
f2_real = -y[1, 0] / slope
bfd_real = -y[2, 0] / slope

f2_lib, F2_lib, fno_lib = p.f2(), p.F2(), p.FNO()
print('f2   library %.9f   ABCD %.9f   near-axis real ray %.9f' % (f2_lib, f2_abcd, f2_real))
print('F2   library %.9f   ABCD %.9f   near-axis real ray %.9f'
      % (F2_lib, F2_abcd, bfd_real - (pos[3] - pos[2])))
print('FNO  library %.9f   ABCD %.9f' % (fno_lib, f2_abcd / p.EPD()))
ya, ua = p.marginal_ray()
ua_abcd = M[1, 0] * (p.EPD() / 2)
print('marginal ray image-space slope  library %.9f   ABCD %.9f' % (ua[-1, 0], ua_abcd))

ok = (abs(f2_lib - f2_abcd) < 1e-6 * abs(f2_abcd)
      and abs(F2_lib - F2_abcd) < 1e-6 * abs(f2_abcd)
      and abs(ua[-1, 0] - ua_abcd) < 1e-8)
print('PROPERTY HOLDS' if ok else 'PROPERTY VIOLATED')
sys.exit(0 if ok else 1)
