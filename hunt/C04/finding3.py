import sys, os; sys.path.insert(0, os.getcwd())
# C04 finding 3 (edit-then-ask): after inserting a surface in front of an existing one with
# Optic.add_surface(index=k), the following surface keeps its old material_pre, so the
# paraxial (and real) trace refracts it from the wrong medium. The paraxial data then differ
# from the ABCD matrices built from the lens's own curvatures, vertex positions and indices
# (optic.surface_group.radii / positions, optic.n()).
import numpy as np
from optiland.optic import Optic
from optiland.materials import IdealMaterial

o = Optic()
o.add_surface(index=0, radius=np.inf, thickness=np.inf)
o.add_surface(index=1, radius=30., thickness=5., material=IdealMaterial(n=1.5), is_stop=True)
o.add_surface(index=2, radius=-40., thickness=27.5)
o.add_surface(index=3)
o.set_aperture(aperture_type='EPD', value=10.0)
o.set_field_type(field_type='angle')
o.add_field(y=0); o.add_field(y=5)
o.add_wavelength(value=0.55, is_primary=True)
print('before insertion: f2 = %.6f' % o.paraxial.f2())

# cement a second element behind the singlet: new surface 3, glass n=1.8 up to the image
o.add_surface(index=3, radius=-90., thickness=3.0, material=IdealMaterial(n=1.8))

sg = o.surface_group
pos = sg.positions.ravel(); rad = sg.radii; n = np.real(o.n())
print('positions', pos, ' radii', rad, ' index after each surface', n)
s4 = sg.surfaces[4]
print('medium behind surface 3: %.3f ; medium surface 4 believes it is in: %.3f'
      % (n[3], np.real(s4.material_pre.n(0.55))))

# ABCD from the stored prescription
M = np.eye(2)
K = len(pos) - 1
for k in range(1, K + 1):
    if k > 1:
        M = np.array([[1, (pos[k] - pos[k-1]) / n[k-1]], [0, 1]]) @ M
    c = 0.0 if np.isinf(rad[k]) else 1 / rad[k]
    M = np.array([[1, 0], [-c * (n[k] - n[k-1]), 1]]) @ M
f2_abcd = -n[K] / M[1, 0]
F2_abcd = -M[0, 0] * n[K] / M[1, 0]
ua_abcd = M[1, 0] * 5.0 / n[K]
p = o.paraxial
ya, ua = p.marginal_ray()
print('f2  library %.6f   ABCD %.6f' % (p.f2(), f2_abcd))
print('F2  library %.6f   ABCD %.6f' % (p.F2(), F2_abcd))
print('marginal slope at image  library %.6f   ABCD %.6f' % (ua[-1, 0], ua_abcd))
ok = abs(p.f2() - f2_abcd) < 1e-8 and abs(p.F2() - F2_abcd) < 1e-8 and abs(ua[-1, 0] - ua_abcd) < 1e-10
print('PROPERTY HOLDS' if ok else 'PROPERTY VIOLATED')
sys.exit(0 if ok else 1)
