import sys, os; sys.path.insert(0, os.getcwd())
# C04 finding 2: Paraxial.chief_ray() (and hence invariant()) takes the field from
# fields.max_y_field = max(y_fields) (signed maximum of the y components only), while the
# full field everywhere else in the library (Hy = 1 in Paraxial.trace, real-ray generator,
# Fields.get_field_coords) is fields.max_field = max sqrt(x^2 + y^2).
# For field sets with negative y only, x components, or a skew largest field, the returned
# chief ray is not the chief ray of the largest field (it can even be identically zero).
import numpy as np
from optiland.optic import Optic
from optiland.materials import IdealMaterial

PRESC = [(22., 3.2, 1.62), (-435., 6., 1.0), (-22., 1., 1.6),
         (20., 4.7, 1.0), (79., 3., 1.62), (-18., 41., 1.0)]
STOP = 3
EPD = 10.0


def build(fields):
    o = Optic()
    o.add_surface(index=0, radius=np.inf, thickness=np.inf)
    for i, (R, t, n) in enumerate(PRESC, start=1):
        o.add_surface(index=i, radius=R, thickness=t, material=IdealMaterial(n=n),
                      is_stop=(i == STOP))
    o.add_surface(index=len(PRESC) + 1)
    o.set_aperture(aperture_type='EPD', value=EPD)
    o.set_field_type(field_type='angle')
    for x, y in fields:
        o.add_field(y=y, x=x)
    o.add_wavelength(value=0.55, is_primary=True)
    return o


def abcd_chief(field_deg):
    """chief ray heights at every surface for object-space slope tan(field)"""
    n = [1.0] + [s[2] for s in PRESC] + [1.0]
    c = [1 / s[0] for s in PRESC] + [0.0]
    t = [s[1] for s in PRESC]
    # entrance pupil: image of the stop centre through surfaces 1..STOP-1
    M = np.eye(2)
    for k in range(1, STOP):
        M = np.array([[1, 0], [-c[k-1] * (n[k] - n[k-1]), 1]]) @ M
        M = np.array([[1, t[k-1] / n[k]], [0, 1]]) @ M
    epl = M[0, 1] / M[0, 0]
    u = np.tan(np.deg2rad(field_deg))
    v = np.array([-u * epl, u])
    ys = []
    for k in range(1, len(c) + 1):
        if k > 1:
            v = np.array([[1, t[k-2] / n[k-1]], [0, 1]]) @ v
        v = np.array([[1, 0], [-c[k-1] * (n[k] - n[k-1]), 1]]) @ v
        ys.append(v[0])
    return np.array(ys), EPD / 2 * u      # heights, |Lagrange invariant|


bad = False
for fields in [((0, -5.), (0, -2.)), ((0, 0.), (5., 0.)), ((3., 4.), (0, 2.))]:
    o = build(fields)
    p = o.paraxial
    largest = max(np.hypot(x, y) for x, y in fields)
    yb, ub = p.chief_ray()
    y_or, H_or = abcd_chief(largest)
    # the library's own paraxial trace of the full field Hy=1, pupil centre Py=0
    p.trace(1.0, 0.0, 0.55)
    y_tr = o.surface_group.y[1:, 0].copy()
    print('fields', fields, ' largest field %.1f deg, max_y_field %.1f' % (largest, o.fields.max_y_field))
    print('   |chief ray height at image|: chief_ray() %.6f   ABCD %.6f   Paraxial.trace(Hy=1,Py=0) %.6f'
          % (abs(yb[-1, 0]), abs(y_or[-1]), abs(y_tr[-1])))
    print('   |Lagrange invariant|       : invariant() %.6f   ABCD %.6f' % (abs(p.invariant()), H_or))
    if not (np.allclose(np.abs(yb[1:, 0]), np.abs(y_or), rtol=1e-8, atol=1e-10)
            and abs(abs(p.invariant()) - H_or) < 1e-9):
        bad = True
print('PROPERTY VIOLATED' if bad else 'PROPERTY HOLDS')
sys.exit(1 if bad else 0)
