import sys, os; sys.path.insert(0, os.getcwd())
# C13: "apart from the operations whose purpose is to edit the lens, no call changes the
# lens prescription".  A tolerance *analysis* (SensitivityAnalysis.run, same for MonteCarlo.run)
# with an 'index' perturbation leaves the lens permanently modified: the dispersive catalogue
# glass of the perturbed element is replaced by a constant-index IdealMaterial, because the
# "reset to nominal" step is Variable.reset() -> Optic.set_index(n at ONE wavelength).
import warnings; warnings.filterwarnings('ignore')
import json
import numpy as np
from optiland.samples.objectives import CookeTriplet
from optiland.tolerancing.core import Tolerancing
from optiland.tolerancing.sensitivity_analysis import SensitivityAnalysis
from optiland.tolerancing.perturbation import RangeSampler


def sellmeier_F2(w):
    # Schott F2 catalogue Sellmeier coefficients (independent of the library)
    B = (1.34533359, 0.209073176, 0.937357162)
    C = (0.00997743871, 0.0470450767, 111.886764)
    return np.sqrt(1 + sum(b * w**2 / (w**2 - c) for b, c in zip(B, C)))


def probe(lens):
    """n of the flint element (surface 3) at F and C lines, image height of the
    full-field upper marginal ray at the F line, axial colour coefficient."""
    nF = float(np.ravel(lens.surface_group.surfaces[3].material_post.n(0.4861))[0])
    nC = float(np.ravel(lens.surface_group.surfaces[3].material_post.n(0.6563))[0])
    lens.trace_generic(0.0, 1.0, 0.0, 1.0, 0.4861)
    yF = float(lens.surface_group.y[-1, 0])
    lchc = float(np.sum(lens.aberrations.LchC()))
    return nF, nC, yF, lchc


lens = CookeTriplet()
reference = CookeTriplet()           # never touched: what an unchanged lens must give
dict_before = json.dumps(lens.to_dict(), sort_keys=True, default=repr)
before = probe(lens)

tol = Tolerancing(lens)
tol.add_operand('f2', {'optic': lens})
tol.add_perturbation('index', RangeSampler(1.61, 1.63, 3),
                     surface_number=3, wavelength=0.55)
sa = SensitivityAnalysis(tol)
sa.run()                              # an analysis; ends with tolerancing.reset()

dict_after = json.dumps(lens.to_dict(), sort_keys=True, default=repr)
after = probe(lens)
ref = probe(reference)

print('material of surface 3 after run :',
      type(lens.surface_group.surfaces[3].material_post).__name__,
      '(reference lens:', type(reference.surface_group.surfaces[3].material_post).__name__ + ')')
print('catalogue Sellmeier F2           : nF = %.6f  nC = %.6f' % (sellmeier_F2(0.4861), sellmeier_F2(0.6563)))
print('library before analysis          : nF = %.6f  nC = %.6f' % before[:2])
print('library after  analysis          : nF = %.6f  nC = %.6f' % after[:2])
print('image y of ray (Hy=1,Py=1) at F  : before %.9f  after %.9f  untouched lens %.9f' % (before[2], after[2], ref[2]))
print('sum of LchC (axial colour)       : before %.6f  after %.6f  untouched lens %.6f' % (before[3], after[3], ref[3]))
print('to_dict identical before/after   :', dict_before == dict_after)

violated = (dict_before != dict_after) or abs(after[2] - before[2]) > 1e-9 \
    or abs(after[0] - sellmeier_F2(0.4861)) > 1e-5
print('PROPERTY VIOLATED' if violated else 'property holds')
sys.exit(1 if violated else 0)
