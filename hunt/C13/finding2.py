import sys, os; sys.path.insert(0, os.getcwd())
# C13: analyses are repeatable and free of side effects.  RayFan.view() and OPDFan.view()
# (display calls) overwrite the stored analysis result in place: every sample whose ray was
# clipped (intensity 0) is replaced by NaN inside fan.data.  Reading the same result before
# and after the display call therefore gives different numbers, and the analysis object no
# longer agrees with an identical analysis made on the same, unchanged lens.
import warnings; warnings.filterwarnings('ignore')
import copy
import numpy as np
import matplotlib; matplotlib.use('Agg')
import matplotlib.pyplot as plt
from optiland.samples.telescopes import HubbleTelescope
from optiland.analysis import RayFan
from optiland.wavefront import OPDFan

lens = HubbleTelescope()      # has a central obscuration -> some fan rays are clipped
bad = False

# ---- RayFan -----------------------------------------------------------------
fan = RayFan(lens, num_points=15)
field, wl = fan.fields[0], fan.wavelengths[0]
ey_before = fan.data[f'{field}'][f'{wl}']['y'].copy()
snapshot = copy.deepcopy(fan.data)          # independent record of the result
fan.view(); plt.close('all')
ey_after = fan.data[f'{field}'][f'{wl}']['y']
fresh = RayFan(lens, num_points=15)          # same call on the unchanged lens
ey_fresh = fresh.data[f'{field}'][f'{wl}']['y']
print('RayFan  ey before view():', np.array2string(ey_before, precision=3, max_line_width=200))
print('RayFan  ey after  view():', np.array2string(ey_after, precision=3, max_line_width=200))
print('RayFan  NaN count before/after/fresh analysis: %d / %d / %d'
      % (np.isnan(ey_before).sum(), np.isnan(ey_after).sum(), np.isnan(ey_fresh).sum()))
print('RayFan  rms of ey from stored data, before %.6e  after %s'
      % (np.sqrt(np.mean(ey_before**2)), np.sqrt(np.mean(ey_after**2))))
if not np.array_equal(ey_before, ey_after, equal_nan=True):
    bad = True
if not np.array_equal(ey_before, ey_fresh, equal_nan=True):
    print('(fresh analysis differs from first one: repeatability broken)'); bad = True

# ---- OPDFan -----------------------------------------------------------------
ofan = OPDFan(lens, num_rays=15)
w_before = ofan.data[0][0][0].copy()
ofan.view(); plt.close('all')
w_after = ofan.data[0][0][0]
print('OPDFan  NaN count before/after view(): %d / %d'
      % (np.isnan(w_before).sum(), np.isnan(w_after).sum()))
print('OPDFan  rms wavefront from stored data, before %.6e  after %s'
      % (np.sqrt(np.mean(w_before**2)), np.sqrt(np.mean(w_after**2))))
if not np.array_equal(w_before, w_after, equal_nan=True):
    bad = True

print('expected: stored results identical before and after a display call')
print('PROPERTY VIOLATED' if bad else 'property holds')
sys.exit(1 if bad else 0)
