import sys, os; sys.path.insert(0, os.getcwd())
import numpy as np
from optiland.optic import Optic
from optiland.materials import IdealMaterial
from optiland.wavefront import Wavefront, OPDFan

# ---------- independent oracle: spherical refracting surfaces, object at infinity
def pupils(surfs, n0, stop):
    """own paraxial trace from the stop centre: z of entrance / exit pupil"""
    nb = [n0] + [s['n'] for s in surfs[:-1]]
    y, u, z = 0.0, 0.1, surfs[stop]['z']
    for i in range(stop, len(surfs)):
        s = surfs[i]; y += u * (s['z'] - z); z = s['z']
        u = (nb[i] * u - y * (s['n'] - nb[i]) / s['R']) / s['n']
    z_xp = z - y / u
    y, u, z = 0.0, 0.1, surfs[stop]['z']
    for i in range(stop - 1, -1, -1):
        s = surfs[i]; y += u * (s['z'] - z); z = s['z']
        u = (s['n'] * u - y * (nb[i] - s['n']) / s['R']) / nb[i]
    return (z - y / u if stop > 0 else z), z_xp

def oracle(surfs, n0, stop, z_img, EPD, field_deg, px, py, wl_um, n_img=None):
    """OPD (waves) of pupil samples (px,py) vs the chief ray, from one plane
    wavefront in object space to the sphere centred on the chief-ray image point
    with radius reaching the axial point of the paraxial exit pupil."""
    z_ep, z_xp = pupils(surfs, n0, stop)
    px = np.r_[0.0, px]; py = np.r_[0.0, py]            # ray 0 = chief ray
    T = np.c_[px * EPD / 2, py * EPD / 2, np.full_like(px, z_ep)]
    th = np.radians(field_deg); dv = np.array([0, np.sin(th), np.cos(th)])
    d = np.tile(dv, (len(px), 1))
    P = T - ((T - [0, 0, z_ep]) @ dv + 500.0)[:, None] * d  # points ON a wavefront
    opl = np.zeros(len(px)); n1 = n0
    for s in surfs:
        if np.isinf(s['R']):
            t = (s['z'] - P[:, 2]) / d[:, 2]; P = P + t[:, None] * d
            nrm = np.tile([0, 0, 1.0], (len(P), 1))
        else:
            C = np.array([0, 0, s['z'] + s['R']]); oc = P - C
            b = np.sum(oc * d, 1); disc = np.sqrt(b * b - np.sum(oc * oc, 1) + s['R']**2)
            t = -b - disc if s['R'] > 0 else -b + disc
            P = P + t[:, None] * d; nrm = (P - C) / s['R']
        opl += n1 * t
        ci = np.sum(nrm * d, 1); mu = n1 / s['n']
        d = mu * d + (np.sign(ci) * np.sqrt(1 - mu**2 * (1 - ci**2)) - mu * ci)[:, None] * nrm
        n1 = s['n']
    t = (z_img - P[:, 2]) / d[:, 2]; Q = P + t[:, None] * d; opl += n1 * t
    C = Q[0]; X = np.array([0, 0, z_xp]); R = np.linalg.norm(C - X)
    oc = Q - C; b = np.sum(oc * d, 1); disc = np.sqrt(b * b - np.sum(oc * oc, 1) + R**2)
    s1, s2 = -b - disc, -b + disc
    near_pupil = ((Q + s1[:, None] * d - C) @ (X - C)) > 0   # sphere cap at the pupil
    path = opl + n1 * np.where(near_pupil, s1, s2)
    return (path[0] - path[1:]) / (wl_um * 1e-3), z_xp - z_img

def build(n0, surfs, EPD, fields, wl=0.55):
    """surfs: [(R, thickness, n_after, is_stop)]; fields: [(y_deg, vy)]"""
    L = Optic()
    L.add_surface(index=0, radius=np.inf, thickness=np.inf, material=IdealMaterial(n=n0))
    z = 0.0; osurfs = []; stop = 0
    for i, (R, t, n, st) in enumerate(surfs):
        L.add_surface(index=i + 1, radius=R, thickness=t, material=IdealMaterial(n=n), is_stop=st)
        osurfs.append(dict(z=z, R=R, n=n)); z += t; stop = i if st else stop
    L.add_surface(index=len(surfs) + 1)
    L.set_aperture('EPD', EPD); L.set_field_type('angle')
    for y, vy in fields:
        L.add_field(y=y, vy=vy)
    L.add_wavelength(value=wl, is_primary=True)
    return L, osurfs, stop, z

# ---------- finding 3: object at infinity, object space not air (n0 = 1.33)
SURFS = [(60.0, 6.0, 1.6, True), (-200.0, 85.0, 1.0, False)]
FIELDS = [(0.0, 0.0), (5.0, 0.0), (-8.0, 0.0)]
N = 9
bad = False
for n0 in (1.0, 1.33):
    L, osurfs, stop, z_img = build(n0, SURFS, 20.0, FIELDS)
    fan = OPDFan(L, num_rays=N)
    pc = fan.pupil_coord
    for i, (fdeg, _) in enumerate(FIELDS):
        lib = fan.data[i][0][0][:N]
        ora, _x = oracle(osurfs, n0, stop, z_img, 20.0, fdeg, 0 * pc, pc, 0.55)
        err = np.max(np.abs(lib - ora))
        print(f'n0={n0} field {fdeg:5.1f} deg  max|lib|={np.max(np.abs(lib)):9.3f} '
              f'max|oracle|={np.max(np.abs(ora)):9.3f}  max|lib-oracle|={err:.3e} waves')
        if n0 != 1.0 and fdeg == 5.0:
            print('    library:', np.round(lib, 2)); print('    oracle :', np.round(ora, 2))
            # the discrepancy is exactly the missing factor n0 in the tilt term
            pred = (n0 - 1) * np.sin(np.radians(fdeg)) * 10.0 * pc / 0.55e-3
            print('    lib-oracle vs (n0-1)*sin(theta)*Py*EPD/2/lambda:',
                  np.max(np.abs((lib - ora) - pred)))
        bad |= err > 1e-6
print('VIOLATED' if bad else 'holds')
sys.exit(1 if bad else 0)
