import sys, os; sys.path.insert(0, os.getcwd())
"""C10 finding 1: every sine (m < 0) Zernike polynomial of all three families has
the opposite sign of its published definition, so fitting data that are an exact
combination of the published polynomials returns the NEGATED coefficient on every
sine term (y-tilt, oblique astigmatism, y-coma, ...).

Published definitions (Thibos et al. 2002 / ANSI Z80.28 for OSA; Noll 1976 for Noll;
Univ. of Arizona / Wyant for Fringe):
   m >= 0 :  N * R_n^|m|(r) * cos(|m| phi)
   m <  0 :  N * R_n^|m|(r) * sin(|m| phi)          (positive sine)
   e.g. OSA Z_1^{-1} = 2 r sin(phi) = 2 y ; Noll Z3 = 2 r sin(phi) ; Fringe Z3 = r sin(phi) = y
"""
import numpy as np
from math import factorial as F
from optiland.zernike import (ZernikeStandard, ZernikeNoll, ZernikeFringe,
                              ZernikeFit)


def published(family, n, m, r, phi):
    """Independent, first-principles evaluation of the published polynomial."""
    am = abs(m)
    R = sum((-1) ** k * F(n - k) /
            (F(k) * F((n + am) // 2 - k) * F((n - am) // 2 - k)) * r ** (n - 2 * k)
            for k in range((n - am) // 2 + 1))
    if family == 'fringe':
        N = 1.0
    else:  # OSA and Noll are both orthonormal: pi^-1 * integral Z^2 = 1
        N = np.sqrt(n + 1) if m == 0 else np.sqrt(2 * (n + 1))
    return N * R * (np.cos(am * phi) if m >= 0 else np.sin(am * phi))


bad = False
fam = {'standard': ZernikeStandard, 'noll': ZernikeNoll, 'fringe': ZernikeFringe}

# (a) point evaluation of the y-tilt term at the top of the pupil (x=0, y=1)
print('(a) value of the (n=1, m=-1) polynomial at pupil point (x, y) = (0, 1)')
for name, cls in fam.items():
    z = cls()
    k = z.indices.index((1, -1))
    c = [0.0] * (k + 1)
    c[k] = 1.0
    lib = cls(c).poly(1.0, np.pi / 2)
    exp = published(name, 1, -1, 1.0, np.pi / 2)
    print(f'   {name:8s} term #{k} library = {lib:+.6f}   published = {exp:+.6f}')
    bad |= abs(lib - exp) > 1e-9

# (b) exhaustive: all 120 terms of each family at a generic pupil point
r0, p0 = 0.73, 0.4321
for name, cls in fam.items():
    z = cls()
    wrong = []
    for k, (n, m) in enumerate(z.indices):
        lib = z.get_term(1.0, n, m, r0, p0)
        exp = published(name, n, m, r0, p0)
        if abs(lib - exp) > 1e-9 * max(1, abs(exp)):
            wrong.append((k, n, m, lib / exp))
    print(f'(b) {name:8s}: {len(wrong)} of 120 terms differ from the published '
          f'polynomial; all with m<0: {all(w[2] < 0 for w in wrong)}; '
          f'ratio library/published in {sorted(set(round(float(w[3]), 9) for w in wrong))}')
    bad |= len(wrong) > 0

# (c) recovery: data = exact combination of the first N published polynomials
rng = np.random.default_rng(0)
M = 300
rr, pp = np.sqrt(rng.uniform(0, 1, M)), rng.uniform(0, 2 * np.pi, M)
x, y = rr * np.cos(pp), rr * np.sin(pp)
for name, cls in fam.items():
    N = 10
    idx = cls().indices[:N]
    c = np.arange(1, N + 1, dtype=float)          # 1, 2, ..., N
    data = sum(c[k] * published(name, *idx[k], rr, pp) for k in range(N))
    fit = np.array(ZernikeFit(x, y, data, name, N).coeffs)
    print(f'(c) {name:8s} true coeffs  {c}')
    print(f'    {"":8s} fitted coeffs {np.round(fit, 6)}')
    bad |= np.abs(fit - c).max() > 1e-6

# (d) smallest example: w(x, y) = y  sampled on 5 points; Fringe Z3 = r sin(phi) = y
xs = np.array([0., 1., 0., -1., 0.]); ys = np.array([0., 0., 1., 0., -1.])
f = ZernikeFit(xs, ys, ys.copy(), 'fringe', 3)
print('(d) fringe fit of w = y :', np.round(f.coeffs, 9), ' expected [0, 0, 1]')
bad |= abs(f.coeffs[2] - 1) > 1e-6

print('PROPERTY VIOLATED' if bad else 'property holds')
sys.exit(1 if bad else 0)
