import sys, os; sys.path.insert(0, os.getcwd())
"""C10 finding 2: ZernikeFit is not homogeneous/linear in the data and does not
recover exact coefficient vectors of small or large magnitude.

The fit is a LINEAR least-squares problem, but ZernikeFit._fit solves it with
scipy.optimize.least_squares (iterative, forward-difference Jacobian with step
~1.5e-8 taken at the start vector 0, absolute gradient tolerance gtol=1e-8).
 * data of small magnitude  (|z| <~ 1e-8/num_pts): ||J^T f||_inf < gtol at the start
   point -> the solver stops immediately and returns ALL-ZERO coefficients;
 * data of large magnitude  (|z| >~ 1e8): z + 1.5e-8*Z_k == z in floating point, so
   the finite-difference Jacobian is identically 0 -> again ALL-ZERO coefficients;
 * a large piston under unit aberrations (1e7 + w): coefficients off by ~1e-4..1e-3.
The exact answer (normal equations / numpy.linalg.lstsq on an independently built
design matrix) is scale-equivariant: fit(s*z) = s*fit(z).
"""
import numpy as np
from math import factorial as F
from optiland.zernike import ZernikeFit


def design(family, idx, x, y):
    """Independent design matrix (published convention, +sin(|m| phi) for m<0).
    Coefficients are compared by MAGNITUDE below (|c_k| >= 0.5), so this finding
    does not depend on the sine-sign defect reported separately as finding 1."""
    r, phi = np.hypot(x, y), np.arctan2(y, x)
    cols = []
    for n, m in idx:
        am = abs(m)
        R = sum((-1) ** k * F(n - k) / (F(k) * F((n + am) // 2 - k) *
                F((n - am) // 2 - k)) * r ** (n - 2 * k)
                for k in range((n - am) // 2 + 1))
        N = 1.0 if family == 'fringe' else (np.sqrt(n + 1) if m == 0
                                            else np.sqrt(2 * n + 2))
        cols.append(N * R * (np.cos(am * phi) if m >= 0 else np.sin(am * phi)))
    return np.array(cols).T


rng = np.random.default_rng(3)
M = 200
rr, pp = np.sqrt(rng.uniform(0, 1, M)), rng.uniform(0, 2 * np.pi, M)
x, y = rr * np.cos(pp), rr * np.sin(pp)
bad = False
for family, N in (('fringe', 37), ('standard', 15), ('noll', 6)):
    idx = ZernikeFit(x, y, np.zeros(M), family, N).zernike.indices[:N]
    A = design(family, idx, x, y)
    c = rng.uniform(0.5, 1.5, N) * rng.choice([-1, 1], N)   # |c_k| in [0.5, 1.5]
    z = A @ c                                                # exact combination
    print(f'{family}, N={N}, {M} points, cond(A)={np.linalg.cond(A):.1f}')
    for s in (1e-12, 1e-6, 1.0, 1e6, 1e9):
        lib = np.array(ZernikeFit(x, y, s * z, family, N).coeffs)
        ref = np.linalg.lstsq(A, s * z, rcond=None)[0]
        e_lib = np.abs(np.abs(lib) - s * np.abs(c)).max() / s
        e_ref = np.abs(ref - s * c).max() / s
        flag = '' if e_lib < 1e-6 else '   <-- VIOLATION'
        print(f'   data scale {s:7.0e}: max||fit|-s|c||/s  library {e_lib:9.2e} '
              f'(all zero: {bool(np.all(lib == 0))})   lstsq {e_ref:9.2e}{flag}')
        bad |= e_lib >= 1e-6
    # large piston below unit aberrations
    c2 = c.copy(); c2[0] = 1e7
    lib = np.array(ZernikeFit(x, y, A @ c2, family, N).coeffs)
    ref = np.linalg.lstsq(A, A @ c2, rcond=None)[0]
    e_lib = np.abs(np.abs(lib) - np.abs(c2))[1:].max()
    e_ref = np.abs(ref - c2)[1:].max()
    print(f'   piston coefficient 1e7, others O(1): abs error of the other '
          f'coefficients  library {e_lib:9.2e}   lstsq {e_ref:9.2e}'
          + ('   <-- VIOLATION' if e_lib > 1e-6 else ''))
    bad |= e_lib > 1e-6

print('PROPERTY VIOLATED' if bad else 'property holds')
sys.exit(1 if bad else 0)
