import sys, os; sys.path.insert(0, os.getcwd())
"""C10 finding 3: the default coefficient vector ("Defaults to all zeros (36
elements total)") is ONE mutable list shared by every default-constructed instance
of a family (mutable default argument `coeffs=[0 for _ in range(36)]`).
Editing one object's coefficients in place therefore changes the polynomial that
every other default-constructed object -- past and future -- evaluates:
evaluation of object B is no longer a function of the coefficients given to B, and a
freshly constructed "all zeros" object is not the zero polynomial.
"""
import numpy as np
from optiland.zernike import ZernikeStandard, ZernikeNoll, ZernikeFringe

bad = False
for cls in (ZernikeStandard, ZernikeNoll, ZernikeFringe):
    b_before = cls()                    # an untouched, all-zero object
    v0 = b_before.poly(0.8, 0.7)

    a = cls()                           # a second object ...
    a.coeffs[4] = 1.0                   # ... whose 5th coefficient the user sets

    v_old = b_before.poly(0.8, 0.7)     # untouched object created BEFORE the edit
    fresh = cls()                       # object created AFTER the edit
    v_new = fresh.poly(0.8, 0.7)
    n, m = fresh.indices[4]
    print(f'{cls.__name__:16s} untouched object before edit: {v0}; after editing '
          f'another object: {v_old:.6f}; brand-new default object: {v_new:.6f} '
          f'(expected 0 for an all-zero vector; got the (n={n}, m={m}) term); '
          f'same list: {fresh.coeffs is a.coeffs}')
    bad |= (v_old != 0) or (v_new != 0)
    a.coeffs[4] = 0                     # restore so the next loop starts clean

# independent expectation: sum_k 0 * Z_k(r, phi) = 0 for every (r, phi)
print('PROPERTY VIOLATED' if bad else 'property holds')
sys.exit(1 if bad else 0)
