import sys, os; sys.path.insert(0, os.getcwd())
# C02 finding 2: NewtonRaphsonGeometry.distance returns np.linalg.norm(intersection - start),
# i.e. |t|.  When the iteration ends on an intersection BEHIND the ray start (t < 0) the ray is
# propagated FORWARD by |t|: a finite point that is not on the surface is recorded (and refracted
# there).  A plane/standard surface in the same situation reports inf/NaN.
import warnings; warnings.simplefilter('ignore')
import numpy as np
from scipy.optimize import brentq
from optiland.optic import Optic
from optiland.materials import IdealMaterial

R, A4, GAP = 40.0, -2e-4, 0.2     # "gull-wing" asphere 0.2 mm behind a plane stop; its rim curls
                                  # back through the stop plane for r > ~8.4 mm


def sag(r2):
    return r2 / (R * (1 + np.sqrt(1 - r2 / R**2))) + A4 * r2**2


o = Optic()
o.add_surface(index=0, thickness=np.inf)
o.add_surface(index=1, thickness=GAP, is_stop=True)                      # plane stop at z = 0
o.add_surface(index=2, thickness=4, radius=R, surface_type='even_asphere',
              coefficients=[0.0, A4], material=IdealMaterial(1.5))
o.add_surface(index=3, thickness=40, radius=-60)
o.add_surface(index=4)
o.set_aperture('EPD', 18.0)
o.set_field_type('angle'); o.add_field(0); o.add_wavelength(0.55, is_primary=True)

Py = np.array([0.5, 0.9, 0.95, 1.0])
o.trace_generic(0., 0., np.zeros_like(Py), Py, 0.55)
s1, s2 = o.surface_group.surfaces[1], o.surface_group.surfaces[2]
zc = s2.geometry.cs.z
bad = False
for j in range(len(Py)):
    p0 = np.array([s1.x[j], s1.y[j], s1.z[j]]); d = np.array([s1.L[j], s1.M[j], s1.N[j]])
    F = lambda t: (p0[2] + t * d[2] - zc) - sag((p0[0] + t * d[0])**2 + (p0[1] + t * d[1])**2)
    ts = np.linspace(-2, 2, 4001); Fv = [F(t) for t in ts]
    roots = [brentq(F, ts[i], ts[i + 1], xtol=1e-14) for i in range(len(ts) - 1) if Fv[i] * Fv[i + 1] < 0]
    rec = np.array([s2.x[j], s2.y[j], s2.z[j]])
    t_lib = (rec - p0) @ d
    res = (rec[2] - zc) - sag(rec[0]**2 + rec[1]**2)
    print(f'Py={Py[j]:.2f} start on stop (y,z)=({p0[1]:.3f},{p0[2]:.3f}); signed distances to the surface '
          f'along the ray (independent): {[round(r, 6) for r in roots]}')
    print(f'        library: t={t_lib:+.6f}, recorded z={rec[2]:+.6f}, z_local - sag(x,y) = {res:+.3e}, opd step={s2.opd[j]-s1.opd[j]:.6f}')
    fwd = [r for r in roots if r >= 0]
    if np.all(np.isfinite(rec)):
        if abs(res) > 1e-8:
            bad = True; print('        -> finite recorded point is NOT on the prescribed surface')
    elif fwd:
        print('        (non-finite although a forward intersection exists)')
print('expected: the point at the (negative) signed distance, or a non-finite ray -- never a finite off-surface point')
print('PROPERTY VIOLATED' if bad else 'property holds')
sys.exit(1 if bad else 0)
