import sys, os; sys.path.insert(0, os.getcwd())
# C02 finding 1: the "Newton-Raphson" intersection of even-asphere / polynomial /
# Chebyshev surfaces is a fixed-point iteration with linear rate tan(theta)*dsag/dr.
# When that rate is near -1 (steep ray hitting a steep surface zone almost normally,
# e.g. a near-concentric dome) the 100 iterations do not converge and the unconverged
# FINITE point is recorded: off the prescribed surface, wrong normal, wrong OPD.
import warnings; warnings.simplefilter('ignore')
import numpy as np
from scipy.optimize import brentq
from optiland.optic import Optic
from optiland.materials import IdealMaterial

R, D, N2 = -10.0, 10.0, 1.5          # surface concentric with the axial object point


def sag(r2, c):                      # independent sag: sphere + c[0] r^2 + c[1] r^4
    z = r2 / (R * (1 + np.sqrt(1 - r2 / R**2)))
    return z + sum(ci * r2**(i + 1) for i, ci in enumerate(c))


def dsag_dy(y, c):
    return y / (R * np.sqrt(1 - y * y / R**2)) + sum(2 * (i + 1) * ci * y**(2 * i + 1) for i, ci in enumerate(c))


def run(c, Py):
    o = Optic()
    o.add_surface(index=0, thickness=D)
    o.add_surface(index=1, thickness=3, radius=R, surface_type='even_asphere', coefficients=list(c),
                  material=IdealMaterial(N2), is_stop=True)
    o.add_surface(index=2, thickness=30, radius=-14)
    o.add_surface(index=3)
    o.set_aperture('EPD', 20.0)
    o.set_field_type('object_height'); o.add_field(0); o.add_wavelength(0.55, is_primary=True)
    o.trace_generic(0., 0., np.zeros_like(Py), Py, 0.55)
    s0, s1 = o.surface_group.surfaces[0], o.surface_group.surfaces[1]
    worst = 0
    for j in range(len(Py)):
        p0 = np.array([s0.x[j], s0.y[j], s0.z[j]]); d = np.array([s0.L[j], s0.M[j], s0.N[j]])
        F = lambda t: (p0[2] + t * d[2]) - sag((p0[0] + t * d[0])**2 + (p0[1] + t * d[1])**2, c)
        ts = np.linspace(0, 14, 1401); Fv = [F(t) for t in ts]      # first forward root
        i = next(i for i in range(len(ts) - 1) if Fv[i] * Fv[i + 1] < 0)
        t = brentq(F, ts[i], ts[i + 1], xtol=1e-14); pt = p0 + t * d
        # independent refraction at the true point (meridional ray, x = 0)
        n = np.array([0, dsag_dy(pt[1], c), -1.0]); n /= np.linalg.norm(n)
        ci = d @ n; mu = 1 / N2
        out = mu * d + (np.sign(ci) * np.sqrt(1 - mu**2 * (1 - ci**2)) - mu * ci) * n
        rec = np.array([s1.x[j], s1.y[j], s1.z[j]]); rdir = np.array([s1.L[j], s1.M[j], s1.N[j]])
        res = rec[2] - sag(rec[0]**2 + rec[1]**2, c)
        print(f'  Py={Py[j]:.2f} library point (y,z)=({rec[1]:.6f},{rec[2]:.6f})  z-sag(x,y)={res:+.3e}   '
              f'independent (y,z)=({pt[1]:.6f},{pt[2]:.6f})')
        print(f'          library M,N=({rdir[1]:+.6f},{rdir[2]:+.6f}) independent M,N=({out[1]:+.6f},{out[2]:+.6f})'
              f'   OPD lib={s1.opd[j]:.6f} indep={t:.6f}')
        if np.all(np.isfinite(rec)):
            worst = max(worst, abs(res), np.linalg.norm(rec - pt))
    return worst


Py = np.array([0.5, 0.9, 1.0])
print('case A: R=-10, A4=+1e-5, object at centre of curvature, EPD 20 (marginal ray at 45 deg)')
wa = run([0.0, 1e-5], Py)
print('case B: same with A4=-5e-5')
wb = run([0.0, -5e-5], Py)
print(f'worst distance of a finite recorded point from the prescribed surface: A {wa:.3e} mm, B {wb:.3e} mm')
bad = max(wa, wb) > 1e-7
print('PROPERTY VIOLATED' if bad else 'property holds')
sys.exit(1 if bad else 0)
