import sys, os; sys.path.insert(0, os.getcwd())
# C02 finding 3: StandardGeometry.distance solves the full quadric and keeps whichever FORWARD root
# is closest to z = 0.  For a hyperboloid (k < -1) the quadric has a second sheet that is not part of
# the prescribed sag z = c r^2 / (1 + sqrt(1 - (1+k) c^2 r^2)).  When the prescribed sheet is behind
# the ray start (so there is no forward intersection) the ray is sent to the other sheet and a FINITE
# point far from the prescribed surface is recorded, instead of a non-finite ray.
import warnings; warnings.simplefilter('ignore')
import numpy as np
from optiland.optic import Optic
from optiland.materials import IdealMaterial

R, K, GAP = -50.0, -2.5, 0.5


def sag(r2):
    return r2 / (R * (1 + np.sqrt(1 - (1 + K) * r2 / R**2)))


o = Optic()
o.add_surface(index=0, thickness=np.inf)
o.add_surface(index=1, thickness=GAP, is_stop=True)                     # plane stop at z = 0
o.add_surface(index=2, thickness=3, radius=R, conic=K, material=IdealMaterial(1.5))
o.add_surface(index=3, thickness=50, radius=60)
o.add_surface(index=4)
o.set_aperture('EPD', 24.0)
o.set_field_type('angle'); o.add_field(0); o.add_wavelength(0.55, is_primary=True)

Py = np.array([0.3, 0.55, 0.65, 1.0])
o.trace_generic(0., 0., np.zeros_like(Py), Py, 0.55)
s1, s2 = o.surface_group.surfaces[1], o.surface_group.surfaces[2]
zc = s2.geometry.cs.z
bad = False
for j in range(len(Py)):
    y0 = s1.y[j]                                  # axis-parallel ray: x = 0, y = y0 all along
    z_true = zc + sag(y0**2)                      # the only point of the prescribed surface on this ray
    t_true = z_true - s1.z[j]
    rec = np.array([s2.x[j], s2.y[j], s2.z[j]])
    res = (rec[2] - zc) - sag(rec[0]**2 + rec[1]**2)
    print(f'Py={Py[j]:.2f} y={y0:.3f}: prescribed surface met at z={z_true:+.5f} (signed distance {t_true:+.5f}); '
          f'library records z={rec[2]:+.5f}, z_local-sag={res:+.3e}, dir=({s2.M[j]:+.4f},{s2.N[j]:+.4f})')
    if np.all(np.isfinite(rec)) and abs(res) > 1e-8:
        bad = True
        print(f'        -> finite point on the OTHER sheet of the hyperboloid (vertex at z_local = 2R/(1+k) = {2*R/(1+K):+.3f})')
print('expected for rays whose only intersection is behind them: non-finite (as for a sphere, k = 0), never finite')
print('PROPERTY VIOLATED' if bad else 'property holds')
sys.exit(1 if bad else 0)
