import sys, os; sys.path.insert(0, os.getcwd())
"""C12 / grid distortion: for field_type='object_height' the predicted grid
has the wrong sign in x. GridDistortion mirrors the predicted x grid
(np.flip) to undo the sign flip the ray generator applies to ANGLE fields in x
(x = +tan, y = -tan); object-height fields have no such flip, so every node
off the x = 0 column is compared with the mirror-image node and
max_distortion is ~190 % for a lens whose true distortion is < 0.1 %."""
import warnings; warnings.filterwarnings('ignore')
import numpy as np
from optiland import optic
from optiland.materials import IdealMaterial
from optiland.analysis import GridDistortion

L = optic.Optic()
L.add_surface(index=0, radius=np.inf, thickness=100)
L.add_surface(index=1, radius=50, thickness=5,
              material=IdealMaterial(n=1.5), is_stop=True)
L.add_surface(index=2, radius=-50, thickness=95)
L.add_surface(index=3)
L.set_aperture('EPD', 5)
L.set_field_type('object_height')
L.add_field(y=0); L.add_field(y=1.0)      # 1 mm object: tan(rad(h)) ~ linear
L.add_wavelength(0.55, is_primary=True)

n = 4
g = GridDistortion(L, wavelength=0.55, num_points=n)

# independent: chief rays of the grid of object points, ideal image = m*(x, y)
ymax = L.fields.max_field
ext = np.linspace(-np.sqrt(0.5), np.sqrt(0.5), n)
Hx, Hy = np.meshgrid(ext, ext)
L.trace_generic(0., 1e-4, 0., 0., 0.55)
m = L.surface_group.y[-1, 0] / (1e-4 * ymax)
L.trace_generic(Hx.ravel(), Hy.ravel(), 0., 0., 0.55)
xr = L.surface_group.x[-1].reshape(n, n).copy()
yr = L.surface_group.y[-1].reshape(n, n).copy()
xp, yp = m * Hx * ymax, m * Hy * ymax
expected = np.max(100 * np.hypot(xr - xp, yr - yp) / np.hypot(xp, yp))

print('magnification m =', m)
print('real chief-ray x, first grid row :', xr[0])
print('library predicted x, same row    :', g.data['xp'][0])
print('independent predicted x          :', xp[0])
print('library max_distortion %  :', g.data['max_distortion'])
print('expected max distortion % :', expected)
bad = not np.isclose(g.data['max_distortion'], expected, rtol=0.05, atol=1e-4)
print('VIOLATED' if bad else 'holds')
sys.exit(1 if bad else 0)
