import sys, os; sys.path.insert(0, os.getcwd())
"""C12 / distortion clause: Distortion (and the same formula in GridDistortion)
interprets an OBJECT-HEIGHT field value (mm) as an angle in degrees.
Finite object, field_type='object_height': the paraxial image height is
m * h (linear in the object height), but the library uses
const * tan(radians(h))."""
import warnings; warnings.filterwarnings('ignore')
import numpy as np
from optiland import optic
from optiland.materials import IdealMaterial
from optiland.analysis import Distortion


def lens(ymax):
    L = optic.Optic()
    L.add_surface(index=0, radius=np.inf, thickness=100)
    L.add_surface(index=1, radius=50, thickness=5,
                  material=IdealMaterial(n=1.5), is_stop=True)
    L.add_surface(index=2, radius=-50, thickness=95)
    L.add_surface(index=3)
    L.set_aperture('EPD', 5)
    L.set_field_type('object_height')
    L.add_field(y=0); L.add_field(y=0.7 * ymax); L.add_field(y=ymax)
    L.add_wavelength(0.55, is_primary=True)
    return L


def independent(L, n, wl):
    """chief-ray image height vs. paraxial image height m*h, h = H*ymax.
    m from two symmetric, very small object heights (real chief rays ->
    paraxial limit), Richardson-free because distortion is O(h^2)."""
    ymax = L.fields.max_field
    H = np.linspace(1e-10, 1, n)
    L.trace_generic(np.zeros(n), H, 0., 0., wl)
    yr = L.surface_group.y[-1, :].copy()
    h0 = 1e-4
    L.trace_generic(0., h0, 0., 0., wl)
    m = L.surface_group.y[-1, 0] / (h0 * ymax)
    # cross-check m with a thick-lens paraxial (y-nu) trace written here
    n_g, R1, R2, t, so, si = 1.5, 50., -50., 5., 100., 95.
    # chief-like ray from object height 1 aimed at the stop (surface 1 vertex)
    y, u = 1.0, -1.0 / so
    y = y + so * u                      # at surface 1 (y = 0)
    u = (u - y * (n_g - 1) / R1) / n_g  # refract
    y = y + t * u
    u = n_g * u - y * (1 - n_g) / R2    # refract into air
    y = y + si * u
    assert abs(y - m) < 1e-6 * abs(m), (y, m)
    yp = m * H * ymax
    return 100 * (yr - yp) / yp


bad = False
for ymax in (5.0, 20.0):
    L = lens(ymax)
    lib = Distortion(L, wavelengths=[0.55], num_points=5).data[0]
    ref = independent(L, 5, 0.55)
    print(f'object height up to {ymax} mm')
    print('  library  distortion % :', np.array2string(lib, precision=5))
    print('  expected distortion % :', np.array2string(ref, precision=5))
    if not np.allclose(lib[1:], ref[1:], rtol=1e-3, atol=1e-6):
        bad = True
print('VIOLATED' if bad else 'holds')
sys.exit(1 if bad else 0)
