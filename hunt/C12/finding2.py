import sys, os; sys.path.insert(0, os.getcwd())
"""C12 / spot centroid, RMS + geometric radius, spot-size operand, encircled
energy: rays that never reach the image are counted as if they did.
(a) rays clipped by a physical aperture keep travelling with intensity 0 and
    are included (unweighted) in centroid / RMS / geometric radius / operand.
(b) rays lost by total internal reflection come back as NaN; one such ray
    makes centroid, RMS, geometric radius and the operand NaN and the
    encircled-energy curve identically 0 (it never reaches the transmitted
    energy)."""
import warnings; warnings.filterwarnings('ignore')
import numpy as np
import matplotlib; matplotlib.use('Agg')
import matplotlib.pyplot as plt
from optiland import optic
from optiland.materials import IdealMaterial
from optiland.physical_apertures import RadialAperture
from optiland.samples.objectives import CookeTriplet
from optiland.analysis import SpotDiagram, EncircledEnergy
from optiland.optimization.operand.ray import RayOperand

bad = False


def stats(L, H, wl, rings):
    """independent: trace, keep rays that arrive with energy, then stats"""
    L.trace(*H, wl, rings, 'hexapolar')
    sg = L.surface_group
    x, y, i = sg.x[-1].copy(), sg.y[-1].copy(), sg.intensity[-1].copy()
    ok = np.isfinite(x) & np.isfinite(y) & np.isfinite(i) & (i > 0)
    cx, cy = x[ok].mean(), y[ok].mean()
    r = np.hypot(x[ok] - cx, y[ok] - cy)
    return ok.sum(), len(x), (cx, cy), np.sqrt(np.mean(r**2)), r.max(), \
        i[ok].sum()


# (a) Cooke triplet with the first lens stopped down by a physical aperture
L = CookeTriplet()
L.surface_group.surfaces[1].aperture = RadialAperture(r_max=4.5)
wl = L.primary_wavelength
sp = SpotDiagram(L, fields=[(0, 1)], wavelengths=[wl], num_rings=6)
n_ok, n, c, rms, geo, _ = stats(L, (0, 1), wl, 6)
print(f'(a) {n_ok} of {n} rays reach the image')
print('  library  centroid_y, rms, geo :', sp.centroid()[0][1],
      sp.rms_spot_radius()[0][0], sp.geometric_spot_radius()[0][0])
print('  arriving centroid_y, rms, geo :', c[1], rms, geo)
op = RayOperand.rms_spot_size(L, -1, 0, 1, 6, wl, 'hexapolar')
print('  operand rms_spot_size         :', op)
if not np.isclose(sp.rms_spot_radius()[0][0], rms, rtol=1e-6) or \
        not np.isclose(op, rms, rtol=1e-6):
    bad = True

# (b) plano-convex lens, outer rays suffer TIR at the curved back face
S = optic.Optic()
S.add_surface(index=0, radius=np.inf, thickness=np.inf)
S.add_surface(index=1, radius=np.inf, thickness=8,
              material=IdealMaterial(n=1.5), is_stop=True)
S.add_surface(index=2, radius=-10.5, thickness=18)
S.add_surface(index=3)
S.set_aperture('EPD', 14.5)
S.set_field_type('angle'); S.add_field(y=0)
S.add_wavelength(0.55, is_primary=True)
sp = SpotDiagram(S, num_rings=8)
n_ok, n, c, rms, geo, energy = stats(S, (0, 0), 0.55, 8)
print(f'(b) {n_ok} of {n} rays reach the image, transmitted energy {energy}')
print('  library  centroid, rms, geo :', sp.centroid()[0],
      sp.rms_spot_radius()[0][0], sp.geometric_spot_radius()[0][0])
print('  arriving centroid, rms, geo :', c, rms, geo)
ee = EncircledEnergy(S, num_rays=8, distribution='hexapolar')
ee.view()
curve = plt.gca().lines[0].get_ydata()
print('  library encircled energy at largest radius:', curve[-1],
      ' expected', energy)
if n_ok < n and (not np.isfinite(sp.rms_spot_radius()[0][0])
                 or not np.isclose(curve[-1], energy)):
    bad = True
print('VIOLATED' if bad else 'holds')
sys.exit(1 if bad else 0)
