import sys, os; sys.path.insert(0, os.getcwd())
# C20 clause: "surface count, radii, ..., conic constants ... are exactly those written in
# the file".  The last SURF block of the file (the image surface) is never stored by the
# reader; the converter appends a default flat surface instead, so a curved / conic image
# surface written in the file is silently replaced by a plane.
import tempfile
import numpy as np
from optiland.fileio import load_zemax_file

TEXT = """VERS 171115
MODE SEQ
NAME curved image
UNIT MM X W X CM MR CPMM
ENPD 10
GCAT SCHOTT
FTYP 0 0 2 1 0 0 0 0
XFLN 0 0
YFLN 0 10
WAVM 1 0.5875618 1
PWAV 1
SURF 0
  TYPE STANDARD
  CURV 0.0 0 0 0 0 ""
  DISZ INFINITY
SURF 1
  STOP
  TYPE STANDARD
  CURV 0.02 0 0 0 0 ""
  DISZ 5
  GLAS N-BK7 0 0 1.5168 64.17 0 0 0 0 0 0
SURF 2
  TYPE STANDARD
  CURV -0.02 0 0 0 0 ""
  DISZ 47
SURF 3
  TYPE STANDARD
  CURV -0.0125 0 0 0 0 ""
  DISZ 0
  CONI -0.75
"""
# independent mini-parser of the prescription (oracle)
surfs = []
for line in TEXT.splitlines():
    tok = line.split()
    if not tok: continue
    if tok[0] == 'SURF': surfs.append({'curv': 0.0, 'conic': 0.0})
    elif tok[0] == 'CURV': surfs[-1]['curv'] = float(tok[1])
    elif tok[0] == 'CONI': surfs[-1]['conic'] = float(tok[1])
exp_radii = [np.inf if s['curv'] == 0 else 1 / s['curv'] for s in surfs]
exp_conic = [s['conic'] for s in surfs]

bad = 0
for enc in ('utf-8', 'utf-16'):
    fd, fn = tempfile.mkstemp(suffix='.zmx'); os.close(fd)
    open(fn, 'w', encoding=enc).write(TEXT)
    lens = load_zemax_file(fn)
    os.remove(fn)
    sg = lens.surface_group
    radii = [float(r) for r in np.ravel(sg.radii)]
    conic = [float(k) for k in np.ravel(sg.conic)]
    print(f'[{enc}] surfaces: library {sg.num_surfaces}, file {len(surfs)}')
    print(f'[{enc}] radii  library {radii}\n         file    {exp_radii}')
    print(f'[{enc}] conics library {conic}\n         file    {exp_conic}')
    img = sg.surfaces[-1].geometry
    sag_lib = float(np.ravel(img.sag(np.array([0.0]), np.array([5.0])))[0])
    c, k, r = -0.0125, -0.75, 5.0
    sag_exp = c * r * r / (1 + np.sqrt(1 - (1 + k) * c * c * r * r))
    print(f'[{enc}] image-surface sag at r=5: library {sag_lib}, from file {sag_exp}')
    if not (np.allclose(radii, exp_radii) and np.allclose(conic, exp_conic)
            and abs(sag_lib - sag_exp) < 1e-12):
        bad += 1
print('VIOLATION: image surface radius/conic of the file are dropped' if bad else 'holds')
sys.exit(1 if bad else 0)
