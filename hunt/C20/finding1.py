import sys, os; sys.path.insert(0, os.getcwd())
# C20 clause: "media (catalogue glass when the name is known, otherwise the model
# glass with the file's index and Abbe number)".  The importer resolves glass names by
# robust substring search over the WHOLE refractive-index database (gases, metals,
# liquids, crystals), ignoring GCAT and the nd/Vd written on the GLAS line.
import tempfile, io, contextlib
import numpy as np
from optiland.fileio import load_zemax_file

D_LINE = 0.5875618
def zmx(glass, nd, vd, gcat):
    return f"""VERS 171115
MODE SEQ
NAME singlet
UNIT MM X W X CM MR CPMM
ENPD 10
GCAT {gcat}
FTYP 0 0 1 1 0 0 0 0
XFLN 0
YFLN 0
WAVM 1 {D_LINE} 1
PWAV 1
SURF 0
  TYPE STANDARD
  CURV 0.0 0 0 0 0 ""
  DISZ INFINITY
SURF 1
  STOP
  TYPE STANDARD
  CURV 0.02 0 0 0 0 ""
  DISZ 5
  GLAS {glass} 0 0 {nd} {vd} 0 0 0 0 0 0
SURF 2
  TYPE STANDARD
  CURV -0.02 0 0 0 0 ""
  DISZ 95
SURF 3
  TYPE STANDARD
  CURV 0.0 0 0 0 0 ""
  DISZ 0
"""
def thick_lens_f(n, c1=0.02, c2=-0.02, t=5.0):      # independent oracle
    phi = (n - 1) * (c1 - c2 + (n - 1) * t * c1 * c2 / n)
    return 1 / phi

cases = [  # name, nd, Vd as written in the file, catalogue line
    ('SF6', 1.80518, 25.43, 'SCHOTT'),   # Schott SF6 IS in the database (glass/schott/SF6.yml)
    ('K9', 1.5163, 64.06, 'CDGM'),       # not a database name -> must become model glass 1.5163/64.06
    ('PC', 1.5855, 29.9, 'MISC'),        # Zemax MISC polycarbonate, not a database name
    ('BAF2', 1.56965, 49.4, 'SCHOTT'),   # not in glass/schott -> model glass (or at least a BAF2 *glass*)
]
bad = 0
for name, nd, vd, gcat in cases:
    fd, fn = tempfile.mkstemp(suffix='.zmx'); os.close(fd)
    open(fn, 'w', encoding='utf-8').write(zmx(name, nd, vd, gcat))
    with contextlib.redirect_stdout(io.StringIO()):
        lens = load_zemax_file(fn)
    os.remove(fn)
    m = lens.surface_group.surfaces[1].material_post
    src = getattr(m, 'material_data', {}).get('filename', 'model glass')
    n_lib = float(np.real(np.ravel(m.n(D_LINE))[0]))
    f_lib = float(np.ravel(lens.paraxial.f2())[0])
    f_exp = thick_lens_f(nd)
    ok = abs(n_lib - nd) < 2e-3 and abs(f_lib / f_exp - 1) < 5e-3
    bad += not ok
    print(f'GLAS {name:5s} nd={nd} Vd={vd} GCAT {gcat:6s}: library medium = {type(m).__name__} '
          f'[{src}] n_d={n_lib:.5f}, f2={f_lib:.4g} | expected n_d={nd}, f2={f_exp:.4g}  '
          f'{"ok" if ok else "VIOLATION"}')
sys.exit(1 if bad else 0)
