import sys, os; sys.path.insert(0, os.getcwd())
# C20 clause: "aspheric coefficients ... are exactly those written in the file ... and whose
# paraxial properties therefore equal those computed from the written numbers".
# An EVENASPH surface with a non-zero PARM 1 (the r^2 coefficient) is imported correctly
# (sag matches), but the paraxial properties of the imported lens ignore that term:
# the vertex curvature of z = c r^2/(1+sqrt(..)) + a1 r^2 + a2 r^4 ... is c + 2*a1.
import tempfile, io, contextlib
import numpy as np
from optiland.fileio import load_zemax_file

C1, C2, T, ND, VD, A1, A2 = 0.02, -0.02, 5.0, 1.6, 50.0, 1e-3, 2e-5
TEXT = f"""VERS 171115
MODE SEQ
NAME asphere with r^2 term
UNIT MM X W X CM MR CPMM
ENPD 10
GCAT SCHOTT
FTYP 0 0 1 1 0 0 0 0
XFLN 0
YFLN 0
WAVM 1 0.5875618 1
PWAV 1
SURF 0
  TYPE STANDARD
  CURV 0.0 0 0 0 0 ""
  DISZ INFINITY
SURF 1
  STOP
  TYPE EVENASPH
  CURV {C1} 0 0 0 0 ""
  PARM 1 {A1}
  PARM 2 {A2}
  PARM 3 0
  PARM 4 0
  PARM 5 0
  PARM 6 0
  PARM 7 0
  PARM 8 0
  DISZ {T}
  GLAS ___BLANK 1 0 {ND} {VD} 0 0 0 0 0 0
SURF 2
  TYPE STANDARD
  CURV {C2} 0 0 0 0 ""
  DISZ 40
SURF 3
  TYPE STANDARD
  CURV 0.0 0 0 0 0 ""
  DISZ 0
"""
fd, fn = tempfile.mkstemp(suffix='.zmx'); os.close(fd)
open(fn, 'w', encoding='utf-8').write(TEXT)
with contextlib.redirect_stdout(io.StringIO()):
    lens = load_zemax_file(fn)
os.remove(fn)

g = lens.surface_group.surfaces[1].geometry
print('imported coefficients:', list(g.c)[:3], '(file: PARM1..3 =', [A1, A2, 0.0], ')')
# the imported surface shape does contain the r^2 term: numerical vertex curvature
h = 1e-3
sag = lambda r: float(np.ravel(g.sag(np.array([0.0]), np.array([r])))[0])
c_vertex = 2 * sag(h) / h**2
print(f'vertex curvature of imported surface 1: {c_vertex:.6f}  (c + 2*a1 = {C1 + 2*A1:.6f}, c = {C1})')

n = float(np.real(np.ravel(lens.surface_group.surfaces[1].material_post.n(0.5875618))[0]))
def efl(c1):                       # independent thick-lens computation with the library's own n
    M = np.eye(2)
    for c, t, na, nb in ((c1, T, 1.0, n), (C2, 0.0, n, 1.0)):
        R = np.array([[1, 0], [-(nb - na) * c / nb, na / nb]])
        M = np.array([[1, t], [0, 1]]) @ R @ M
    return -1 / M[1, 0]
f_lib = float(np.ravel(lens.paraxial.f2())[0])
f_exp = efl(C1 + 2 * A1)
print(f'library f2                       = {f_lib:.6f}')
print(f'f2 from the written numbers      = {f_exp:.6f}')
print(f'f2 if PARM 1 is ignored (c only) = {efl(C1):.6f}')
bad = abs(f_lib / f_exp - 1) > 1e-6
print('VIOLATION: paraxial properties ignore the r^2 aspheric coefficient' if bad else 'holds')
sys.exit(1 if bad else 0)
