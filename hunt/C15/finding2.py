import sys, os; sys.path.insert(0, os.getcwd())
# C15: lens with a pickup (or a solve) + a compensator.  The compensator
# optimiser calls optic.update() on every evaluation, so the pickup target /
# solved thickness follows the PERTURBED lens; Tolerancing.reset() restores only
# the perturbed and the compensator variables and never re-applies
# pickups/solves -> after run() and after reset() the lens is not nominal.
import warnings; warnings.simplefilter('ignore')
import io, contextlib
import numpy as np
from optiland.samples.objectives import CookeTriplet
from optiland.tolerancing.core import Tolerancing
from optiland.tolerancing.sensitivity_analysis import SensitivityAnalysis
from optiland.tolerancing.monte_carlo import MonteCarlo
from optiland.tolerancing.perturbation import RangeSampler, DistributionSampler


def quiet(f, *a):
    with contextlib.redirect_stdout(io.StringIO()):
        return f(*a)


def prescription(o):
    sg = o.surface_group
    return np.concatenate([sg.radii[1:-1], sg.positions.ravel()[1:]])


def make_pickup():
    o = CookeTriplet()
    o.pickups.add(1, 'radius', 6, scale=-1, offset=0)   # r6 = -r1
    o.update()
    return o


def make_solve():
    o = CookeTriplet()
    o.solves.add('marginal_ray_height', 7, 0.0)   # image at paraxial focus
    o.update()
    return o


bad = False
for name, make in [('pickup r6=-r1', make_pickup), ('marginal ray height solve', make_solve)]:
    for kind in ['sensitivity', 'monte carlo']:
        o = make()
        t = Tolerancing(o)
        t.add_operand('f2', {'optic': o})
        f2_nominal = t.evaluate()[0]
        t.add_compensator('thickness', surface_number=2)   # airspace as compensator
        if kind == 'sensitivity':
            t.add_perturbation('radius', RangeSampler(20, 24, 3), surface_number=1)
            run = SensitivityAnalysis(t)
            quiet(run.run)
        else:
            t.add_perturbation('radius', DistributionSampler('uniform', seed=1, low=20, high=24), surface_number=1)
            run = MonteCarlo(t)
            quiet(run.run, 3)
        after_run = prescription(o)
        t.reset()
        after_reset = prescription(o)
        expected = prescription(make())     # fresh nominal lens
        m = ~np.isclose(after_reset, expected, rtol=1e-9, atol=1e-9)
        print(f'[{name} / {kind}] f2 nominal {f2_nominal:.6f}, after run+reset {o.paraxial.f2():.6f}')
        if m.any() or not np.allclose(after_run, expected, rtol=1e-9, atol=1e-9):
            bad = True
            print('   library  (radii 1..6, z 1..7) differing entries:', after_reset[m])
            print('   expected (fresh nominal lens)                  :', expected[m])
        else:
            print('   lens restored')
print('VIOLATED' if bad else 'holds')
sys.exit(1 if bad else 0)
