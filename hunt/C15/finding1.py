import sys, os; sys.path.insert(0, os.getcwd())
# C15: radius perturbation on a FLAT surface. reset() (called before every trial
# and at the end of the run) writes radius=inf through Optic.set_radius, which has
# already turned the Plane into a StandardGeometry; StandardGeometry cannot trace
# radius=inf (inf*0 -> NaN).  So after run()/reset() the lens is not the nominal
# lens any more: every real-ray operand is NaN, and all trials of OTHER
# perturbations in the same sensitivity run are recorded as NaN.
import warnings; warnings.simplefilter('ignore')
import numpy as np
from optiland.samples.simple import AsphericSinglet
from optiland.tolerancing.core import Tolerancing
from optiland.tolerancing.sensitivity_analysis import SensitivityAnalysis
from optiland.tolerancing.perturbation import RangeSampler


def make():
    return AsphericSinglet()   # surface 2 (back of the singlet) is flat


def y_image(o):   # independent of the operand machinery: trace one ray
    o.trace_generic(0, 0.7, 0, 0.5, o.primary_wavelength)
    return float(o.surface_group.y[-1, 0])


o = make()
t = Tolerancing(o)
t.add_operand('real_y_intercept', {'optic': o, 'surface_number': -1, 'Hx': 0,
              'Hy': 0.7, 'Px': 0, 'Py': 0.5,
              'wavelength': o.primary_wavelength})
nominal = t.evaluate()[0]
geom0 = type(o.surface_group.surfaces[2].geometry).__name__
t.add_perturbation('thickness', RangeSampler(6.9, 7.1, 3), surface_number=1)
t.add_perturbation('radius', RangeSampler(-500, 500, 2), surface_number=2)
sa = SensitivityAnalysis(t)
sa.run()
df = sa.get_results()
print(df.to_string())

# oracle: fresh nominal lens + same recorded perturbation
bad = False
for _, row in df.iterrows():
    f = make()
    if row['perturbation_type'].startswith('Thickness'):
        for s in f.surface_group.surfaces[2:]:
            s.geometry.cs.z += row['perturbation_value'] - 7.0
    else:
        f.set_radius(row['perturbation_value'], 2)
    exp = y_image(f)
    got = row.iloc[2]
    ok = np.isclose(got, exp, rtol=1e-9, atol=1e-12)
    bad |= not ok
    print(f"{row['perturbation_type']:32s} value={row['perturbation_value']:8.2f}"
          f"  library={got!r:>24}  fresh-copy={exp!r}  {'ok' if ok else 'MISMATCH'}")

after = t.evaluate()[0]
geom1 = type(o.surface_group.surfaces[2].geometry).__name__
print('nominal operand             :', nominal, ' surface 2 geometry:', geom0)
print('operand after run()         :', after, ' surface 2 geometry:', geom1,
      ' radius:', o.surface_group.radii[2])
t.reset()
after2 = t.evaluate()[0]
print('operand after reset()       :', after2)
print('independent trace, used lens:', y_image(o), ' fresh lens:', y_image(make()))
if not (np.isclose(after, nominal) and np.isclose(after2, nominal)):
    bad = True
print('VIOLATED' if bad else 'holds')
sys.exit(1 if bad else 0)
