import sys, os; sys.path.insert(0, os.getcwd())
# C15: 'index' perturbation on a glass of a polychromatic lens.
# Optic.set_index replaces the glass by IdealMaterial(n=value) (no dispersion) and
# reset() only writes the initial primary-wavelength index back through the same
# call.  Hence (a) a perturbation EQUAL to the nominal index does not reproduce
# the nominal operand values and (b) after run()/reset() the lens is not the
# nominal prescription: the glass has lost its dispersion for good.
import warnings; warnings.simplefilter('ignore')
import numpy as np
from optiland.samples.objectives import CookeTriplet
from optiland.tolerancing.core import Tolerancing
from optiland.tolerancing.sensitivity_analysis import SensitivityAnalysis
from optiland.tolerancing.perturbation import RangeSampler

o = CookeTriplet()
wls = [w.value for w in o.wavelengths.wavelengths]      # 0.48, 0.55, 0.65
wp = o.primary_wavelength
n_nominal = np.array([o.n(w)[1] for w in wls])          # glass after surface 1
mat0 = type(o.surface_group.surfaces[1].material_post).__name__

t = Tolerancing(o)
t.add_operand('f2', {'optic': o})
t.add_operand('LchC_sum', {'optic': o})                 # longitudinal colour
t.add_operand('real_y_intercept', {'optic': o, 'surface_number': -1, 'Hx': 0,
              'Hy': 1, 'Px': 0, 'Py': 0, 'wavelength': wls[0]})
nominal = np.array(t.evaluate())

n_p = float(o.n(wp)[1])
t.add_perturbation('index', RangeSampler(n_p, n_p, 1), surface_number=1,
                   wavelength=wp)
sa = SensitivityAnalysis(t)
sa.run()
row = sa.get_results().iloc[0]
recorded = np.array(row.iloc[2:5].values, dtype=float)
print('perturbation value (== nominal index at primary):', row['perturbation_value'], ' nominal:', n_p)
print('operands  f2 / LchC_sum / y_image(0.48um)')
print('  nominal lens            :', nominal)
print('  recorded for this trial :', recorded)

n_after = np.array([o.n(w)[1] for w in wls])
mat1 = type(o.surface_group.surfaces[1].material_post).__name__
after = np.array(t.evaluate())
print('glass after surface 1, index at', wls)
print('  nominal  :', n_nominal, mat0)
print('  after run:', n_after, mat1)
t.reset()
n_after2 = np.array([o.n(w)[1] for w in wls])
print('  after reset():', n_after2)
print('operands after run/reset :', after, ' (fresh nominal lens:', nominal, ')')

bad = (not np.allclose(recorded, nominal, rtol=1e-9, atol=1e-12)
       or not np.allclose(n_after, n_nominal, rtol=0, atol=1e-12)
       or not np.allclose(n_after2, n_nominal, rtol=0, atol=1e-12)
       or not np.allclose(after, nominal, rtol=1e-9, atol=1e-12))
print('VIOLATED' if bad else 'holds')
sys.exit(1 if bad else 0)
