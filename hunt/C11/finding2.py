import sys, os; sys.path.insert(0, os.getcwd())
# C11, clause "[every MTF curve] is reported against spatial frequencies whose
# cut-off is 1 / (wavelength x working F-number)", finite conjugates.
# GeometricMTF takes the cut-off from paraxial.FNO() (= f / EPD, the infinite
# conjugate F-number) even when the object is at a finite distance. Its
# frequency axis and the diffraction-limited curve it multiplies the result
# with then end at the wrong frequency; FFTMTF of the same lens uses the
# working F-number.
import warnings
import numpy as np
warnings.filterwarnings('ignore')
from optiland.mtf import GeometricMTF, FFTMTF
from optiland.samples.lithography import UVProjectionLens

lens = UVProjectionLens()          # finite object, objectNA aperture, 4:1
wl = lens.primary_wavelength       # microns
print('object at infinity:', lens.object_surface.is_infinite)

# independent working F-number: image-space marginal ray
ya, ua = lens.paraxial.marginal_ray()
n_img = float(np.ravel(lens.n())[-1])
fno_parax = 1 / (2 * n_img * abs(float(np.ravel(ua[-1])[0])))
lens.trace_generic(0, 0, 0, 1, wl)                 # real marginal ray
sinU = abs(float(lens.surface_group.M[-1, 0]))
fno_real = 1 / (2 * n_img * sinU)
cut_parax = 1 / (wl * 1e-3 * fno_parax)
cut_real = 1 / (wl * 1e-3 * fno_real)
print('working F-number: paraxial marginal ray %.4f, real marginal ray %.4f'
      % (fno_parax, fno_real))
print('expected cut-off 1/(wl*F#w): %.1f c/mm (paraxial) / %.1f c/mm (real)'
      % (cut_parax, cut_real))

g = GeometricMTF(lens, fields=[(0, 0)], num_rays=32)
f = FFTMTF(lens, fields=[(0, 0)], num_rays=32, grid_size=64)
print('GeometricMTF: max_freq = %.1f c/mm, freq[-1] = %.1f, '
      'diffraction-limited curve reaches 0 at %.1f c/mm'
      % (g.max_freq, g.freq[-1],
         g.freq[int(np.argmax(g.diff_limited_mtf <= 1e-12))]))
print('   (1/(wl*paraxial.FNO()) = %.1f with paraxial.FNO() = %.4f)'
      % (1 / (wl * 1e-3 * lens.paraxial.FNO()), lens.paraxial.FNO()))
print('FFTMTF      : max_freq = %.1f c/mm' % f.max_freq)

# value-level consequence: the scaled geometric MTF is forced to 0 at a
# frequency where the diffraction limit is still high
true_dl = lambda v: (lambda p: 2 / np.pi * (p - np.cos(p) * np.sin(p)))(
    np.arccos(np.clip(v / cut_parax, 0, 1)))
print('at %.1f c/mm: library scaled geometric MTF = %.4f, diffraction limit '
      'there = %.4f' % (g.freq[-1], g.mtf[0][0][-1], true_dl(g.freq[-1])))

bad = abs(g.max_freq / cut_parax - 1) > 0.02
print('VIOLATED (ratio %.3f)' % (g.max_freq / cut_parax) if bad else 'holds')
sys.exit(1 if bad else 0)
