import sys, os; sys.path.insert(0, os.getcwd())
# C11, clauses "never exceeds the diffraction-limited curve" / "cut-off is
# 1/(wavelength x working F-number)", non-default argument max_freq=<float>
# (documented as "str or float" in both MTF classes).
# Both classes use the one attribute max_freq for "where the plot ends" and for
# "the diffraction cut-off":
#  (a) GeometricMTF(max_freq=100.) never sets self.max_freq -> AttributeError;
#  (b) FFTMTF(max_freq=100.).view(add_reference=True) draws the diffraction
#      limit with cut-off 100 c/mm, so the lens' own MTF lies ABOVE the
#      "Diffraction Limit" curve it is plotted with.
import warnings
import numpy as np
import matplotlib
matplotlib.use('Agg')
import matplotlib.pyplot as plt
warnings.filterwarnings('ignore')
from optiland.mtf import GeometricMTF, FFTMTF
from optiland.samples.objectives import CookeTriplet

lens = CookeTriplet()
wl = lens.primary_wavelength
cutoff = 1 / (wl * 1e-3 * lens.paraxial.FNO())   # infinite object: F#w = F#
print('true cut-off 1/(wl*F#) = %.1f c/mm' % cutoff)
bad = False

# (a)
try:
    g = GeometricMTF(lens, fields=[(0, 0)], num_rays=20, max_freq=100.0)
    print('(a) GeometricMTF(max_freq=100.) -> freq[-1] = %.1f' % g.freq[-1])
    phi = np.arccos(np.clip(g.freq / cutoff, 0, 1))
    dl = 2 / np.pi * (phi - np.cos(phi) * np.sin(phi))
    if np.max(np.abs(np.asarray(g.diff_limited_mtf) - dl)) > 1e-6:
        print('    but its diffraction-limited curve uses the wrong cut-off')
        bad = True
except AttributeError as e:
    print('(a) GeometricMTF(max_freq=100.) raised AttributeError:', e)
    bad = True

# (b)
n, grid = 32, 128
m = FFTMTF(lens, fields=[(0, 0)], num_rays=n, grid_size=grid, max_freq=100.0)
m.view(add_reference=True)
ax = plt.gcf().axes[0]
ref = [ln for ln in ax.lines if ln.get_label() == 'Diffraction Limit'][0]
fx, fy = ref.get_data()
tang = [ln for ln in ax.lines if 'Tangential' in ln.get_label()][0].get_ydata()
phi = np.arccos(np.clip(fx / cutoff, 0, 1))
dl = 2 / np.pi * (phi - np.cos(phi) * np.sin(phi))
k = int(np.argmax(tang - fy))
print('(b) plotted reference reaches 0 at %.1f c/mm (true cut-off %.1f)'
      % (fx[int(np.argmax(fy <= 1e-12))], cutoff))
print('    at %.1f c/mm: lens MTF = %.4f > plotted "Diffraction Limit" = %.4f'
      ' (correct limit %.4f)' % (fx[k], tang[k], fy[k], dl[k]))
if np.max(np.abs(fy - dl)) > 1e-3:
    bad = True

print('VIOLATED' if bad else 'holds')
sys.exit(1 if bad else 0)
