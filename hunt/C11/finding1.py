import sys, os; sys.path.insert(0, os.getcwd())
# C11, clause "the geometric MTF is the modulus of the Fourier transform of the
# spot's line spread" (aberration level: tens of waves, all default arguments).
# GeometricMTF bins the spot into num_points+1 bins and then treats the bins as
# point masses at the bin centres, so the curve is periodic in frequency with
# period (num_points+1)/spot_width: once spot_width * cutoff > num_points+1 the
# reported MTF climbs back to the diffraction limit (unscaled: back to 1) at
# frequencies where the transform of the very same ray set is ~0.
import warnings
import numpy as np
warnings.filterwarnings('ignore')
from optiland.mtf import GeometricMTF
from optiland.wavefront import Wavefront
from optiland.samples.microscopes import Objective60x


def direct_mtf(coord, freq):
    """|FT of the line spread| straight from the ray coordinates."""
    coord = coord[np.isfinite(coord)]
    return np.abs(np.exp(2j * np.pi * freq[:, None] * coord[None, :]).mean(1))


lens = Objective60x()
field = (0, 1)
wf = Wavefront(lens, fields=[field], wavelengths='primary', num_rays=64,
               distribution='uniform')
opd = wf.data[0][0][0]
print('lens Objective60x, field', field, ': OPD peak-to-valley = %.1f waves'
      % (np.nanmax(opd) - np.nanmin(opd)))

bad = False
for scale in (True, False):
    g = GeometricMTF(lens, fields=[field], scale=scale)   # defaults otherwise
    x, y, _ = g.data[0][0]
    lib_t = np.asarray(g.mtf[0][0])
    ref_t = direct_mtf(y, g.freq)
    if scale:
        ref_t = ref_t * g.diff_limited_mtf
    width = np.nanmax(y) - np.nanmin(y)
    k = int(np.argmax(np.abs(lib_t - ref_t)))
    print('scale=%s: spot width %.4f mm, cutoff %.1f c/mm, width*cutoff = %.0f'
          ' (bins: %d)' % (scale, width, g.max_freq, width * g.max_freq,
                           g.num_points + 1))
    print('   alias frequency expected at (bins)/width = %.1f c/mm'
          % ((g.num_points + 1) / width))
    print('   worst sample: freq %.1f c/mm  library MTF = %.4f   '
          'direct |FT of line spread| = %.4f' % (g.freq[k], lib_t[k], ref_t[k]))
    if abs(lib_t[k] - ref_t[k]) > 0.05:
        bad = True

print('VIOLATED' if bad else 'holds')
sys.exit(1 if bad else 0)
