#!/usr/bin/env python3
"""print repo modules without docstrings (reading aid)"""
import ast, sys
for path in sys.argv[1:]:
    src = open(path).read(); t = ast.parse(src)
    for n in ast.walk(t):
        if isinstance(n, (ast.FunctionDef, ast.ClassDef, ast.Module)):
            if n.body and isinstance(n.body[0], ast.Expr) and isinstance(n.body[0].value, ast.Constant) and isinstance(n.body[0].value.value, str):
                n.body = n.body[1:] or [ast.Pass()]
    print('#=====', path); print(ast.unparse(t))
