#!/usr/bin/env python3
"""regenerates section 0.6 of DESIGN.md from contracts/PROPS.json and contracts/LEDGER.json"""
import json, os
H = os.path.dirname(os.path.dirname(os.path.abspath(__file__)))
props = json.load(open(H + '/contracts/PROPS.json'))['claimed']
led = json.load(open(H + '/contracts/LEDGER.json'))
out = ["### 0.6 Per property: what is under contract now (generated from `contracts/PROPS.json` and `contracts/LEDGER.json`)\n",
       "The per-property designs in §6 describe the intended contracts; this list states what the committed",
       "contracts establish. *proved* = obligations discharged by a solver back end on all paths; *bounded* = clauses evaluated only",
       "on the real code (never counted as proved); *known-fail* = the unsplit clause of an open known finding.\n"]
for pid in sorted(props):
    e = led.get(pid, {})
    cnt = lambda k: sum(1 for v in e.values() if v.get('expect') == k)
    out.append("**%s** — %d proved, %d bounded, %d known-fail clauses.  %s" % (pid, cnt('proved'), cnt('bounded'), cnt('known-fail'), props[pid]['text']))
    if props[pid].get('note'):
        out.append("  *Limits:* %s" % props[pid]['note'])
    out.append("")
blk = '\n'.join(out) + '\n'
p = H + '/DESIGN.md'
s = open(p).read()
marker = "## 1. What the tests cannot reach, and why contracts can"
if '### 0.6 Per property' in s:
    a = s.index('### 0.6 Per property'); b = s.index(marker); s = s[:a] + blk + s[b:]
else:
    s = s.replace(marker, blk + marker, 1)
open(p, 'w').write(s)
print('section 0.6 regenerated')
