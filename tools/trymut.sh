#!/bin/bash
# usage: trymut.sh <patch.diff> <PROP...>   -- applies the patch to a scratch copy of /repo and runs the checks there
set -e
P=$1; shift
S=$(mktemp -d /tmp/mutscr.XXXX)
cp -r /repo/optiland $S/; cp -r /repo/database $S/ 2>/dev/null || true
(cd $S && git init -q . && git apply --unsafe-paths $P) || { echo "PATCH DOES NOT APPLY"; rm -rf $S; exit 9; }
for prop in "$@"; do
  (cd /verif && ./check.py $prop --repo $S 2>&1 | grep -E "VIOLATION|UNDECIDED|CRASH|ENCODER|done property|KNOWN" | head -12)
done
rm -rf $S
(cd /verif && git checkout -q evidence 2>/dev/null || true)
