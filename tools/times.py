#!/usr/bin/env python3
"""per-contract wall time of a property check (debug aid)"""
import sys, os, importlib
sys.path.insert(0, '/verif')
os.environ.setdefault('MPLBACKEND', 'Agg')
import check
from pyvc import twin, vc, probes
prop = sys.argv[1]
twin.install('/repo'); probes.apply()
for m_ in ('optiland.optic', 'optiland.optimization', 'optiland.tolerancing', 'optiland.analysis'):
    twin.real(m_); twin.sym(m_)
importlib.import_module('contracts.%s' % prop.lower())
names = [n for n, ct in vc.CONTRACTS.items() if prop in ct.props]
res = check.run_contracts('contracts.%s' % prop.lower(), names, 'quick', 0, 20, '/repo', 600)
for n, r in sorted(res.items(), key=lambda kv: -kv[1].get('wall_s', 0))[:12]:
    print('%-60s %6.1fs paths=%s solver=%.1f' % (n, r.get('wall_s', -1), (r.get('symbolic') or {}).get('paths'), (r.get('symbolic') or {}).get('solver_s', 0)))
