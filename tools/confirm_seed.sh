#!/bin/bash
# confirm_seed.sh <PROP> <mK> : independently confirm a seeded change in a scratch worktree of /repo HEAD
# (tests pass with it, demo fails with it, demo passes without it) and store it under /verif/seeded/<PROP>-<mK>/
P=$1; M=$2
SRC=/tmp/wt-out/$P/$M
WT=/tmp/cw/$P-$M
OUT=/verif/seeded/$P-$M
mkdir -p /tmp/cw
git -C /repo worktree remove --force $WT 2>/dev/null
git -C /repo worktree add -q --detach $WT HEAD || exit 2
cd $WT
res="{}"
MPLBACKEND=Agg /venv/bin/python $SRC/demo.py > /tmp/cw/$P-$M.demo_clean.log 2>&1; d_clean=$?
if ! git apply $SRC/patch.diff; then echo "$P $M: patch does not apply to HEAD"; git -C /repo worktree remove --force $WT; exit 3; fi
MPLBACKEND=Agg /venv/bin/python $SRC/demo.py > /tmp/cw/$P-$M.demo_mut.log 2>&1; d_mut=$?
MPLBACKEND=Agg timeout 1500 /venv/bin/python -m pytest -q -p no:cacheprovider -n 4 > /tmp/cw/$P-$M.tests.log 2>&1; t_rc=$?
tsum=$(grep -E "passed|failed" /tmp/cw/$P-$M.tests.log | tail -1)
cd /; git -C /repo worktree remove --force $WT
ok=no
if [ $d_clean -eq 0 ] && [ $d_mut -ne 0 ] && [ $t_rc -eq 0 ]; then ok=yes; fi
echo "$P $M: demo_clean=$d_clean demo_mut=$d_mut tests_rc=$t_rc [$tsum] confirmed=$ok"
if [ $ok = yes ]; then
  mkdir -p $OUT; cp $SRC/patch.diff $SRC/demo.py $OUT/
  /venv/bin/python - <<PY
import json
m=json.load(open('$SRC/meta.json'))
out={'property':'$P','breaks':m.get('summary'),'needs_to_manifest':m.get('needs_to_manifest'),'files':m.get('files'),
     'source':'independent sub-agent given only the property text and a scratch worktree',
     'confirmed_by_main':{'worktree':'scratch worktree of /repo HEAD (removed afterwards)','demo_on_clean_tree_exit':$d_clean,
                          'demo_with_change_exit':$d_mut,'test_suite_with_change':'$tsum',
                          'commands':['git apply patch.diff','MPLBACKEND=Agg /venv/bin/python demo.py','MPLBACKEND=Agg /venv/bin/python -m pytest -q -p no:cacheprovider -n 4']}}
json.dump(out,open('$OUT/meta.json','w'),indent=1)
PY
fi
