"""Static frame analysis over the real source (DESIGN C13): every heap-write site reachable from a
query entry point, for all inputs.

For each function of /repo/optiland (parsed with `ast` on every run) we collect
  * attribute stores      obj.attr = / op= ...            -> ('attr', base-kind, base-text, attr)
  * subscript stores      obj[...] = / op= ...  and  name op= ...  on arrays
                                                           -> ('inplace', base-kind, base-text)
  * calls                 (by method / function name)
where base-kind says what the written object is rooted in:
  'self'   the receiver                       'param:<p>'  a parameter of the function
  'local'  a name bound in the function to a fresh value (call result, literal, arithmetic)
  'alias:<root>' a local bound by plain assignment / attribute / subscript / iteration from <root>
The call graph is by name (a call x.f(...) may reach every method f of every class): an
over-approximation, so "no write outside the frame" proved here holds for every dynamic dispatch.
In-place mutation of parameters is propagated inter-procedurally (mutated_params).
"""
import ast
import os

SKIP_DIRS = {'visualization', 'samples'}
SKIP_METHODS = {'view', 'draw', 'draw3D', 'info', '_plot', 'plot'}
MUTATING_CONTAINER_METHODS = {'sort', 'append', 'extend', 'insert', 'pop', 'remove', 'reverse', 'clear', 'setdefault', 'popitem',
                              'fill', 'resize', 'itemset', 'put', 'partition', 'add', 'discard'}
EXTERNAL_RECEIVERS_EARLY = {'np', 'plt', 'pd', 'os', 'yaml', 'json', 'warnings', 'math', 'fig', 'ax', 'axs'}
FRESH_PROPERTIES = set()      # names of @property methods that build and return a new array/list (filled by load())
DICT_RECEIVERS = {'data', 'kwargs', 'config', 'filtered_params', 'filtered_kwargs', 'd', 'out', 'result', 'results', 'behavior_kwargs',
                  'surface_config', 'radius_dict', 'weights_dict', 'unit_conversion', 'distribution_classes', 'variable_types'}


class Func:
    def __init__(self, module, cls, name, node):
        self.module, self.cls, self.name, self.node = module, cls, name, node
        self.params = [a.arg for a in node.args.posonlyargs + node.args.args + node.args.kwonlyargs]
        if node.args.vararg:
            self.params.append(node.args.vararg.arg)
        if node.args.kwarg:
            self.params.append(node.args.kwarg.arg)
        self.writes = []      # (kind, basekind, text, attr, lineno)
        self.calls = []       # (callee name, receiver text or None, [arg root kinds], lineno)
        self.is_property = any(isinstance(d, ast.Name) and d.id == 'property' for d in node.decorator_list)
        self.is_static = any(isinstance(d, ast.Name) and d.id in ('staticmethod', 'classmethod') for d in node.decorator_list)

    @property
    def qual(self):
        return '%s:%s%s' % (self.module, (self.cls + '.') if self.cls else '', self.name)


def _root(node):
    """root Name of an attribute/subscript chain, or None"""
    while isinstance(node, (ast.Attribute, ast.Subscript)):
        node = node.value
    return node.id if isinstance(node, ast.Name) else None


class _Visitor(ast.NodeVisitor):
    def __init__(self, fn):
        self.fn = fn
        self.kinds = {}
        for p in fn.params:
            self.kinds[p] = 'self' if (p == 'self' and fn.cls) else 'param:' + p
        if fn.cls and fn.params and fn.params[0] == 'cls':
            self.kinds['cls'] = 'local'
        # parameters with a numeric / str / bool default are scalars
        self.scalar_params = set()
        a = fn.node.args
        pos = a.posonlyargs + a.args
        for arg, dflt in zip(pos[len(pos) - len(a.defaults):], a.defaults):
            if isinstance(dflt, ast.Constant) and isinstance(dflt.value, (int, float, str, bool)):
                self.scalar_params.add(arg.arg)
        for arg, dflt in zip(a.kwonlyargs, a.kw_defaults):
            if isinstance(dflt, ast.Constant) and isinstance(dflt.value, (int, float, str, bool)):
                self.scalar_params.add(arg.arg)

    def kind_of_value(self, v):
        """what a freshly bound local refers to"""
        if isinstance(v, ast.Name):
            return self.kinds.get(v.id, 'global')
        if isinstance(v, (ast.Attribute, ast.Subscript)):
            node = v
            while isinstance(node, (ast.Attribute, ast.Subscript)):
                if isinstance(node, ast.Attribute) and node.attr in FRESH_PROPERTIES:
                    return 'local'                    # a property that returns a freshly built array
                node = node.value
            r = _root(v)
            k = self.kinds.get(r, 'global') if r else 'local'
            if k == 'local':
                return 'local'
            return k if k.startswith('alias:') or k == 'global' else 'alias:' + k
        if isinstance(v, ast.IfExp):
            a, b = self.kind_of_value(v.body), self.kind_of_value(v.orelse)
            return a if a != 'local' else b
        if isinstance(v, ast.Call):
            # x.copy(), np.copy(x), deepcopy(x), np.array(...), constructors, arithmetic helpers: fresh
            f = v.func
            if isinstance(f, ast.Attribute) and f.attr in ('ravel', 'reshape', 'view', 'squeeze', 'flatten', 'T'):
                return self.kind_of_value(f.value)        # may alias
            if isinstance(f, ast.Attribute) and isinstance(f.value, ast.Name) and f.value.id == 'np' and f.attr in (
                    'ravel', 'reshape', 'squeeze', 'asarray', 'atleast_1d', 'atleast_2d'):
                return self.kind_of_value(v.args[0]) if v.args else 'local'
            return 'local'
        return 'local'

    def bind(self, target, value):
        if isinstance(target, ast.Name):
            self.kinds[target.id] = self.kind_of_value(value) if value is not None else 'local'
        elif isinstance(target, (ast.Tuple, ast.List)):
            for i, t in enumerate(target.elts):
                if isinstance(value, (ast.Tuple, ast.List)) and i < len(value.elts):
                    self.bind(t, value.elts[i])
                else:
                    # unpacking a call result: fresh unless the callee returns its argument (handled by callers)
                    self.bind(t, None if isinstance(value, ast.Call) or value is None else value)

    def record_store(self, target, aug, lineno):
        if isinstance(target, ast.Attribute):
            r = _root(target.value)
            k = self.kinds.get(r, 'global') if r else 'local'
            self.fn.writes.append(('attr', k, ast.unparse(target.value), target.attr, lineno))
        elif isinstance(target, ast.Subscript):
            k = self.kind_of_value(target.value)
            if k.startswith('alias:') and not isinstance(target.value, ast.Name):
                k = k[6:] if k[6:] == 'self' else k
            self.fn.writes.append(('inplace', k, ast.unparse(target.value), None, lineno))
        elif isinstance(target, ast.Name) and aug:
            k = self.kinds.get(target.id, 'global')
            if target.id in self.scalar_params:
                return                                # int/float parameter: `n += 1` rebinds, nothing is mutated
            # name op= value mutates the object only if it is an array; parameters / aliases are the risk
            self.fn.writes.append(('inplace', k, target.id, None, lineno))
        elif isinstance(target, (ast.Tuple, ast.List)):
            for t in target.elts:
                self.record_store(t, aug, lineno)

    def visit_Assign(self, node):
        self.generic_visit(node)
        for t in node.targets:
            self.record_store(t, False, node.lineno)
            self.bind(t, node.value)

    def visit_AugAssign(self, node):
        self.generic_visit(node)
        self.record_store(node.target, True, node.lineno)

    def visit_AnnAssign(self, node):
        self.generic_visit(node)
        if node.value is not None:
            self.record_store(node.target, False, node.lineno)
            self.bind(node.target, node.value)

    def visit_For(self, node):
        # iteration variable aliases the elements of the iterable
        it = node.iter
        if isinstance(it, ast.Call) and isinstance(it.func, ast.Name) and it.func.id in ('enumerate', 'zip', 'reversed'):
            srcs = it.args
        else:
            srcs = [it]
        kinds = []
        for s in srcs:
            k = self.kind_of_value(s)
            if isinstance(s, ast.Call):
                k = 'local'
            kinds.append(k)
        tgt = node.target
        names = [tgt] if isinstance(tgt, ast.Name) else list(getattr(tgt, 'elts', []))
        for i, nme in enumerate(names):
            if isinstance(nme, ast.Name):
                if isinstance(it, ast.Call) and isinstance(it.func, ast.Name) and it.func.id == 'enumerate':
                    self.kinds[nme.id] = 'local' if i == 0 else (kinds[0] if kinds else 'local')
                else:
                    self.kinds[nme.id] = kinds[min(i, len(kinds) - 1)] if kinds else 'local'
            elif isinstance(nme, (ast.Tuple, ast.List)):
                for x in nme.elts:
                    if isinstance(x, ast.Name):
                        self.kinds[x.id] = kinds[-1] if kinds else 'local'
        self.generic_visit(node)

    def visit_Call(self, node):
        f = node.func
        name, recv = None, None
        if isinstance(f, ast.Attribute):
            name, recv = f.attr, ast.unparse(f.value)
        elif isinstance(f, ast.Name):
            name = f.id
        if name is None and isinstance(f, (ast.Subscript, ast.Call)):
            # indirect call through a table / returned callable: self.table[key](...)
            self.fn.calls.append(('<indirect>', ast.unparse(f)[:40], None, [], {}, node.lineno))
        if name in MUTATING_CONTAINER_METHODS and isinstance(f, ast.Attribute):
            head = ast.unparse(f.value).split('.')[0].split('(')[0]
            if head not in EXTERNAL_RECEIVERS_EARLY:
                k = self.kind_of_value(f.value)
                if k.startswith('alias:') and not isinstance(f.value, ast.Name) and k[6:] == 'self':
                    k = 'self'
                self.fn.writes.append(('inplace', k, ast.unparse(f.value) + '.' + name + '()', None, node.lineno))
        if name:
            argk = []
            for a in node.args:
                argk.append(self.kind_of_value(a) if not isinstance(a, ast.Call) else 'local')
            kw = {k.arg: (self.kind_of_value(k.value) if not isinstance(k.value, ast.Call) else 'local')
                  for k in node.keywords if k.arg}
            rk = None
            if isinstance(f, ast.Attribute):
                rk = self.kind_of_value(f.value)
            self.fn.calls.append((name, recv, rk, argk, kw, node.lineno))
        self.generic_visit(node)

    def visit_FunctionDef(self, node):
        if node is self.fn.node:
            self.generic_visit(node)
        # nested functions: analysed as part of the parent (conservative)
        else:
            self.generic_visit(node)

    def visit_Delete(self, node):
        for t in node.targets:
            self.record_store(t, True, node.lineno)


def _collect_fresh_properties(root):
    """properties whose body returns a call / comprehension / arithmetic result (a new object)"""
    for dp, dn, fn in os.walk(root):
        dn[:] = [d for d in dn if d not in SKIP_DIRS and not d.startswith('__')]
        for f in fn:
            if not f.endswith('.py'):
                continue
            tree = ast.parse(open(os.path.join(dp, f), encoding='utf-8').read())
            for node in ast.walk(tree):
                if isinstance(node, ast.FunctionDef) and any(isinstance(d, ast.Name) and d.id == 'property' for d in node.decorator_list):
                    rets = [n.value for n in ast.walk(node) if isinstance(n, ast.Return) and n.value is not None]
                    if rets and all(isinstance(r, (ast.Call, ast.ListComp, ast.BinOp, ast.Tuple, ast.Constant, ast.Compare, ast.UnaryOp))
                                    for r in rets):
                        FRESH_PROPERTIES.add(node.name)
                    else:
                        FRESH_PROPERTIES.discard(node.name)


def load(repo):
    FRESH_PROPERTIES.clear()
    _collect_fresh_properties(os.path.join(repo, 'optiland'))
    funcs = {}
    by_name = {}
    classes = {}
    root = os.path.join(repo, 'optiland')
    for dp, dn, fn in os.walk(root):
        dn[:] = [d for d in dn if d not in SKIP_DIRS and not d.startswith('__')]
        for f in fn:
            if not f.endswith('.py'):
                continue
            path = os.path.join(dp, f)
            rel = os.path.relpath(path, repo)
            tree = ast.parse(open(path, encoding='utf-8').read())
            for node in tree.body:
                if isinstance(node, ast.FunctionDef):
                    fobj = Func(rel, None, node.name, node)
                    _Visitor(fobj).visit(node)
                    funcs[fobj.qual] = fobj
                    by_name.setdefault(node.name, []).append(fobj)
                elif isinstance(node, ast.ClassDef):
                    classes[node.name] = [ast.unparse(b) for b in node.bases]
                    for sub in node.body:
                        if isinstance(sub, ast.FunctionDef):
                            fobj = Func(rel, node.name, sub.name, sub)
                            _Visitor(fobj).visit(sub)
                            funcs[fobj.qual] = fobj
                            by_name.setdefault(sub.name, []).append(fobj)
                            if sub.name == '__init__':
                                by_name.setdefault(node.name, []).append(fobj)     # constructor call by class name
    # address-taken methods (stored in tables, passed as callbacks)
    taken = []
    for q, fobj in funcs.items():
        called = {id(n.func) for n in ast.walk(fobj.node) if isinstance(n, ast.Call)}
        for n in ast.walk(fobj.node):
            if isinstance(n, ast.Attribute) and isinstance(n.ctx, ast.Load) and id(n) not in called:
                for cand in by_name.get(n.attr, []):
                    if cand.cls is not None and not cand.is_property and cand.name != '__init__' and cand not in taken:
                        if isinstance(n.value, ast.Name) and n.value.id in ('self', 'cls'):
                            taken.append(cand)
    by_name['<address-taken>'] = taken
    return funcs, by_name, classes


# properties are reached by attribute *loads*; resolved like calls (receiver naming convention)
def property_reads(fn, by_name, classes=None):
    out = []
    called = {id(n.func) for n in ast.walk(fn.node) if isinstance(n, ast.Call)}
    for n in ast.walk(fn.node):
        if isinstance(n, ast.Attribute) and isinstance(n.ctx, ast.Load):
            props = [c for c in by_name.get(n.attr, []) if c.is_property]
            if not props and id(n) not in called:
                # address-taken method (stored in a table, passed as a callback): a potential call
                props = [c for c in by_name.get(n.attr, []) if c.cls is not None and c.name != '__init__']
            if not props:
                continue
            recv = ast.unparse(n.value)
            call = (n.attr, recv, None, [], {}, n.lineno)
            cands = resolve(fn, call, {n.attr: props}, classes or {})
            out.extend(cands)
    return out


# receiver naming convention of the code base -> class family (root class).  This table is an
# assumption of the static call graph; the bounded tier validates it by tracing real executions
# (every dynamic optiland->optiland call edge must be an edge of the static graph).
RECEIVER_FAMILY = {
    'rays': 'BaseRays', 'vector': 'BaseRays', 'surface': 'Surface', 'surf': 'Surface', 'new_surface': 'Surface',
    'surface_post': 'Surface', 'previous_surface': 'Surface', 'obj': 'Surface', 'object_surface': 'Surface',
    'image_surface': 'Surface', 'geometry': 'BaseGeometry', 'new_geometry': 'BaseGeometry', 'cs': 'CoordinateSystem',
    'reference_cs': 'CoordinateSystem', 'material_pre': 'BaseMaterial', 'material_post': 'BaseMaterial',
    'material': 'BaseMaterial', 'new_material': 'BaseMaterial', 'optic': 'Optic', 'lens': 'Optic',
    'surface_group': 'SurfaceGroup', 'surfaces': 'SurfaceGroup', '_surfaces': 'SurfaceGroup', '_surface_group': 'SurfaceGroup',
    'surface_factory': 'SurfaceFactory', 'paraxial': 'Paraxial', 'aberrations': 'Aberrations', 'coating': 'BaseCoating',
    'bsdf': 'BaseBSDF', 'aperture': ('BaseAperture', 'Aperture'), 'distribution': 'BaseDistribution',
    'fields': 'FieldGroup', 'wavelengths': 'WavelengthGroup', 'ray_generator': 'RayGenerator', 'pickups': 'PickupManager',
    'pickup': 'Pickup', 'solves': 'SolveManager', 'solve': 'BaseSolve', 'variable': ('VariableBehavior', 'Variable'),
    'jones': 'BaseJones', 'zernike': 'ZernikeStandard', 'state': 'PolarizationState', 'polarization_state': 'PolarizationState',
    'wavelength': 'Wavelength', 'primary_wavelength': 'Wavelength', 'wave': 'Wavelength', 'field': 'Field', 'new_field': 'Field', 'spot': 'SpotDiagram', 'psf': 'FFTPSF',
    'wavefront': 'Wavefront', 'problem': 'OptimizationProblem', 'operand': 'Operand', 'op': 'Operand',
    'perturbation': 'Perturbation', 'sampler': 'BaseSampler', 'compensator': 'CompensatorOptimizer',
    'optimizer': 'OptimizerGeneric', 'tolerancing': 'Tolerancing', 'reader': 'ZemaxFileReader', 'viewer': 'OpticViewer',
}
# library / builtin receivers whose methods never enter optiland
EXTERNAL_RECEIVERS = {'np', 'plt', 'pd', 'os', 'yaml', 'json', 'warnings', 'optimize', 'math', 'sns', 'vtk', 'requests',
                      'tempfile', 're', 'mticker', 'R'}


def _family(classes, root):
    """all classes whose ancestry (by base-class name) reaches root"""
    roots = root if isinstance(root, tuple) else (root,)
    fam = set(roots)
    changed = True
    while changed:
        changed = False
        for c, bases in classes.items():
            if c not in fam and any(b.split('.')[-1] in fam for b in bases):
                fam.add(c)
                changed = True
    return fam


def _ancestors(classes, cls):
    out, work = set(), [cls]
    while work:
        c = work.pop()
        if c in out:
            continue
        out.add(c)
        for b in classes.get(c, []):
            work.append(b.split('.')[-1])
    return out


def resolve(f, call, by_name, classes):
    name, recv, rk, argk, kw, ln = call
    if name == '<indirect>':
        # any address-taken method of the caller's class family (tables of bound methods)
        if not f.cls:
            return []
        fam = _ancestors(classes, f.cls) | _family(classes, f.cls)
        return [c for c in by_name.get('<address-taken>', []) if c.cls in fam]
    cands = by_name.get(name, [])
    if not cands and recv is None and f.cls and name not in ('print', 'len', 'range', 'enumerate', 'zip', 'isinstance', 'float',
                                                              'int', 'str', 'max', 'min', 'sum', 'abs', 'sorted', 'list', 'dict',
                                                              'tuple', 'set', 'any', 'all', 'getattr', 'setattr', 'hasattr', 'super',
                                                              'deepcopy', 'open', 'type', 'round', 'reversed', 'map', 'filter',
                                                              'ValueError', 'TypeError', 'IndexError', 'KeyError', 'NotImplementedError'):
        # a call through a local variable (func = self.table[k]; func(x)): indirect
        fam = _ancestors(classes, f.cls) | _family(classes, f.cls)
        return [c for c in by_name.get('<address-taken>', []) if c.cls in fam]
    if not cands:
        return []
    if recv is None:
        # plain function call or constructor by class name
        return [c for c in cands if c.cls is None or c.name == '__init__']
    head = recv.split('.')[0].split('(')[0]
    if head in EXTERNAL_RECEIVERS:
        return []
    last = recv.split('.')[-1].split('[')[0].split('(')[0]
    if last.endswith('_dict') or last.endswith('_data') or last in DICT_RECEIVERS:
        return []                           # dict / list methods (update, get, items, ...)
    if recv == 'self' and f.cls:
        fam = _ancestors(classes, f.cls) | _family(classes, f.cls)
        return [c for c in cands if c.cls in fam]
    if recv.startswith('super()') and f.cls:
        return [c for c in cands if c.cls in _ancestors(classes, f.cls) - {f.cls}]
    if last in classes:                     # ClassName.method(...)
        fam = _family(classes, last) | _ancestors(classes, last)
        return [c for c in cands if c.cls in fam]
    if last in RECEIVER_FAMILY:
        fam = _family(classes, RECEIVER_FAMILY[last])
        return [c for c in cands if c.cls in fam]
    if last == 'cls' and f.cls:
        return [c for c in cands if c.cls in _family(classes, f.cls) | _ancestors(classes, f.cls)]
    return [c for c in cands if c.cls is not None]      # unknown receiver: every class defining it


def reachable(entries, funcs, by_name, classes, stop=()):
    seen = {}
    edges = set()
    work = list(entries)
    while work:
        f = work.pop()
        if f.qual in seen:
            continue
        seen[f.qual] = f
        for call in f.calls:
            if call[0] in SKIP_METHODS or call[0] in stop:
                continue
            for cand in resolve(f, call, by_name, classes):
                edges.add((f.qual, cand.qual))
                if cand.qual not in seen:
                    work.append(cand)
        for cand in property_reads(f, by_name, classes):
            edges.add((f.qual, cand.qual))
            if cand.qual not in seen:
                work.append(cand)
    return seen, edges


def mutated_params(funcs, by_name, classes):
    """fixpoint: for each function the set of parameter names whose object may be mutated in place
    (directly, through an alias, or by passing it on to a callee that mutates that position)"""
    mut = {q: set() for q in funcs}
    for q, f in funcs.items():
        for (kind, bk, text, attr, ln) in f.writes:
            k = bk[6:] if bk.startswith('alias:') else bk
            if k.startswith('param:') and kind == 'inplace':
                mut[q].add(k[6:])
    changed = True
    while changed:
        changed = False
        for q, f in funcs.items():
            for call in f.calls:
                (name, recv, rk, argk, kw, ln) = call
                for cand in resolve(f, call, by_name, classes):
                    ps = [p for p in cand.params if p not in ('self', 'cls')] if cand.cls and not (
                        cand.is_static and cand.params and cand.params[0] != 'cls') else list(cand.params)
                    for i, k in enumerate(argk):
                        if i < len(ps) and ps[i] in mut[cand.qual]:
                            kk = k[6:] if k.startswith('alias:') else k
                            if kk.startswith('param:') and kk[6:] not in mut[q]:
                                mut[q].add(kk[6:])
                                changed = True
                    for pn, k in kw.items():
                        if pn in mut[cand.qual]:
                            kk = k[6:] if k.startswith('alias:') else k
                            if kk.startswith('param:') and kk[6:] not in mut[q]:
                                mut[q].add(kk[6:])
                                changed = True
    return mut
