"""Axiom probes: facts about the installed libraries that the symbolic model relies on are
tested against the installed libraries at the start of every run (DESIGN 3.3)."""
import math

import numpy as np

from . import symnp

RESULTS = {}


def apply():
    # P1: builtin float() on a size-1, ndim-1 ndarray
    try:
        float(np.zeros(1))
        raises = False
    except TypeError:
        raises = True
    symnp.FLOAT_OF_SIZE1_ARRAY_RAISES[0] = raises
    RESULTS['float(ndarray shape (1,)) raises TypeError'] = raises
    # P2: float() of a 0-d array works
    RESULTS['float(0-d ndarray) ok'] = (float(np.array(2.5)) == 2.5)
    # P3: IEEE kinds used by the model
    with np.errstate(all='ignore'):
        a = np.array([1.0, -1.0, 0.0])
        z = np.zeros(3)
        q = a / z
        RESULTS['x/0 -> +-inf, 0/0 -> nan'] = bool(q[0] == np.inf and q[1] == -np.inf and math.isnan(q[2]))
        RESULTS['sqrt(-1) -> nan'] = bool(math.isnan(np.sqrt(np.array([-1.0]))[0]))
        RESULTS['nan comparisons false'] = bool(not (np.nan < 0) and not (np.nan >= 0) and (np.nan != np.nan))
        RESULTS['inf*0 -> nan'] = bool(math.isnan(np.inf * 0.0))
        RESULTS['sign(0) = 0'] = bool(np.sign(0.0) == 0)
        RESULTS['abs(inf) <= abs(x) false for finite x'] = bool(not (np.abs(np.inf) <= np.abs(1.0)))
    # P4: np.interp is the piece-wise linear definition with clamping
    xp = np.array([0.0, 1.0, 3.0])
    fp = np.array([2.0, 4.0, 0.0])
    RESULTS['np.interp piecewise-linear + clamp'] = bool(
        np.interp(0.5, xp, fp) == 3.0 and np.interp(2.0, xp, fp) == 2.0 and np.interp(-1, xp, fp) == 2.0
        and np.interp(9, xp, fp) == 0.0)
    # P5: linspace end points
    ls = np.linspace(-1, 1, 5)
    RESULTS['linspace(a,b,n)[i] = a+i(b-a)/(n-1)'] = bool(ls[0] == -1 and ls[-1] == 1 and ls[1] == -0.5)
    bad = [k for k, v in RESULTS.items() if v is False and not k.startswith('float(ndarray shape')]
    if bad:
        raise RuntimeError('library probes failed: %s' % bad)
    return RESULTS
