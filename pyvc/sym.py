"""Symbolic value domain of pyvc.

Sym      -- a scalar value: sympy expression over Q(symbols, atoms) plus an extended-real *kind*
            (fin / +inf / -inf / nan) that is concrete on each path (DESIGN S1, S2).
SymBool  -- a condition; truth is asked of the path's decision oracle (DESIGN 2.4).
Path     -- what one execution path has decided / assumed, the atoms it introduced.

Radicals and trigonometric functions are *named atoms* with defining relations
(r**2 = radicand, r >= 0;  c**2 + s**2 = 1), so every value stays a rational function and every
verification condition is a polynomial (in)equality.
"""
import itertools
import math
import numbers

import numpy as _np
import sympy as sp

FIN, PINF, NINF, NAN = 'fin', '+inf', '-inf', 'nan'
PI = sp.Symbol('PI_const', positive=True)      # the real number pi (np.pi in the twin), a transcendental constant
NEG, ZERO, POS = 'neg', 'zero', 'pos'
ALL3 = frozenset((NEG, ZERO, POS))


class Unsupported(Exception):
    """the symbolic model cannot represent this operation (-> UNDECIDED, never green)"""


class PathLimit(Exception):
    pass


class Infeasible(Exception):
    """raised when a path contradicts what is already known (pruned, not an error)"""


# ------------------------------------------------------------------------------------------
# path state
# ------------------------------------------------------------------------------------------
class Path:
    def __init__(self, decisions=(), ieee=False):
        self.decisions = list(decisions)   # forced prefix of the decision vector
        self.pos = 0
        self.trace = []                    # (label, choice, arity)
        self.signs = {}                    # canonical poly key -> (poly, frozenset possible signs)
        self.order = []                    # keys in order of first narrowing (for reports)
        self.atom_eqs = []                 # defining equations of atoms (expr == 0)
        self.atom_nonneg = []              # atoms known >= 0 (sqrt atoms)
        self.sqrt_atoms = {}               # radicand key -> atom symbol
        self.trig_atoms = {}               # angle key -> (c, s)
        self.fun_atoms = {}                # (fname, arg keys) -> symbol
        self.hyps = []                     # SymBool hypotheses that are not simple sign facts
        self.wd = []                       # well-definedness side conditions assumed on this path
        self.ieee = ieee                   # fork on zero denominators / negative radicands
        self.fresh = itertools.count(1)
        self.notes = []
        self.symbols = {}                  # name -> sympy Symbol created through ctx

    # -- decision oracle -------------------------------------------------------------------
    def choose(self, label, arity=2):
        if self.pos < len(self.decisions):
            d = self.decisions[self.pos]
        else:
            d = 0
            self.decisions.append(0)
        self.pos += 1
        self.trace.append((label, d, arity))
        if len(self.trace) > 400:
            raise PathLimit('more than 400 decisions on one path')
        return d

    # -- sign knowledge --------------------------------------------------------------------
    def sign_set(self, key, poly):
        if key in self.signs:
            return self.signs[key][1]
        s = _sympy_sign_set(poly)
        return s

    def narrow(self, key, poly, new):
        old = self.sign_set(key, poly)
        new = frozenset(new) & old
        if not new:
            raise Infeasible(str(poly))
        if key not in self.signs:
            self.order.append(key)
        self.signs[key] = (poly, new)

    def equalities(self):
        return [p for (p, s) in self.signs.values() if s == frozenset((ZERO,))]


def _sympy_sign_set(poly):
    s = set(ALL3)
    try:
        if poly.is_positive:
            return frozenset((POS,))
        if poly.is_negative:
            return frozenset((NEG,))
        if poly.is_zero:
            return frozenset((ZERO,))
        if poly.is_nonnegative:
            s.discard(NEG)
        if poly.is_nonpositive:
            s.discard(POS)
        if poly.is_nonzero or poly.is_zero is False:
            s.discard(ZERO)
    except Exception:
        pass
    return frozenset(s)


_PATH = None


def current():
    if _PATH is None:
        raise RuntimeError('no active symbolic path')
    return _PATH


def set_path(p):
    global _PATH
    _PATH = p


def active():
    return _PATH is not None


# ------------------------------------------------------------------------------------------
# helpers on expressions
# ------------------------------------------------------------------------------------------
def to_expr(x):
    """python / numpy scalar -> exact sympy number (decimal repr is taken exactly)"""
    if isinstance(x, sp.Expr):
        return x
    if isinstance(x, bool) or isinstance(x, _np.bool_):
        return sp.Integer(int(x))
    if isinstance(x, (int, _np.integer)):
        return sp.Integer(int(x))
    if isinstance(x, (float, _np.floating)):
        x = float(x)
        if x == int(x) and abs(x) < 1e15:
            return sp.Integer(int(x))
        return sp.Rational(repr(x))
    if isinstance(x, (complex, _np.complexfloating)):
        x = complex(x)
        return to_expr(x.real) + sp.I * to_expr(x.imag)
    raise Unsupported('cannot lift %r' % type(x))


def numden(e):
    n, d = sp.fraction(sp.together(e))
    return sp.expand(n), sp.expand(d)


def canon(poly):
    """canonical key of a polynomial up to a non-zero rational factor; returns (key, poly', flip)
    where poly = c * poly' with sign(c) = -1 iff flip."""
    poly = sp.expand(poly)
    if poly.is_number:
        return None, poly, False
    try:
        c, pp = sp.Poly(poly, *sorted(poly.free_symbols, key=lambda s: s.name)).primitive()
        pp = pp.as_expr()
        flip = bool(c < 0)
        lead = sp.Poly(pp, *sorted(pp.free_symbols, key=lambda s: s.name)).LC()
        if lead < 0:
            pp = -pp
            flip = not flip
        pp = sp.expand(pp)
    except Exception:
        # non-polynomial leftovers (should not occur: atoms keep things polynomial)
        pp, flip = poly, False
    return sp.srepr(pp), pp, flip


_FLIP = {NEG: POS, POS: NEG, ZERO: ZERO}


def sign_query(e, truth_set):
    """Is sign(e) in truth_set?  e is a finite real rational function.  Forks when undetermined."""
    e = sp.sympify(e)
    if e.is_number:
        if e.is_zero:
            s = ZERO
        elif e.is_positive:
            s = POS
        elif e.is_negative:
            s = NEG
        else:
            # number sympy cannot sign (should be rare): evaluate numerically
            v = complex(e.evalf(30))
            s = ZERO if abs(v) < 1e-25 else (POS if v.real > 0 else NEG)
        return s in truth_set
    p = current()
    if getattr(p, 'concolic_sign', None) is not None:
        # concolic path: the condition is evaluated at the concrete point, no normalisation needed
        return p.concolic_sign(e) in truth_set
    n, d = numden(e)
    prod = n if d.is_number and d > 0 else (-n if d.is_number else sp.expand(n * d))
    key, poly, flip = canon(prod)
    if key is None:
        return sign_query(poly, truth_set)
    ts = frozenset(_FLIP[t] for t in truth_set) if flip else frozenset(truth_set)
    possible = p.sign_set(key, poly)
    if not (possible <= ts) and (possible & ts) and key not in p.signs:
        possible = possible & _sign_from_factors(p, poly)
    if possible <= ts:
        p.narrow(key, poly, possible)
        return True
    if not (possible & ts):
        p.narrow(key, poly, possible)
        return False
    red = _reduce_to_single_factor(p, poly)
    if red is not None:
        sigma, f, mult = red
        if mult % 2 == 1:
            fts = ts if sigma > 0 else frozenset(_FLIP[t] for t in ts)
            r = sign_query(f, fts)
        else:
            nz_in = (POS if sigma > 0 else NEG) in ts
            zero_in = ZERO in ts
            if nz_in == zero_in:
                r = nz_in
            else:
                r = sign_query(f, frozenset((NEG, POS))) == nz_in
        p.narrow(key, poly, (possible & ts) if r else (possible - ts))
        return r
    d_ = p.choose(('sign', str(poly)[:60], tuple(sorted(ts))))
    if d_ == 0:
        p.narrow(key, poly, possible & ts)
        return True
    p.narrow(key, poly, possible - ts)
    return False


def _reduce_to_single_factor(p, poly):
    """poly = sigma * (strictly signed factors) * f**mult with exactly one factor f of undetermined sign:
    returns (sigma, f, mult) so that the decision is taken (and remembered) on f itself; None otherwise"""
    if poly.count_ops() > 600:
        return None
    try:
        coeff, factors = sp.factor_list(poly)
    except Exception:
        return None
    if len(factors) <= 1 and (not factors or factors[0][1] == 1):
        return None
    sigma = 1 if coeff > 0 else -1
    rest = []
    for f, mult in factors:
        key, fp, flip = canon(f)
        if key is None:
            return None
        fs = set(p.sign_set(key, fp))
        if flip:
            fs = {_FLIP[x] for x in fs}
        if fs == {POS}:
            continue
        if fs == {NEG}:
            if mult % 2:
                sigma = -sigma
            continue
        rest.append((f, mult))
    if len(rest) != 1:
        return None
    return sigma, rest[0][0], rest[0][1]


_MUL = {(NEG, NEG): POS, (NEG, POS): NEG, (POS, NEG): NEG, (POS, POS): POS}


def _sign_from_factors(p, poly):
    """possible signs of a product from what the path knows about its factors (no fork)"""
    if not p.signs or poly.count_ops() > 600:
        return ALL3
    try:
        coeff, factors = sp.factor_list(poly)
    except Exception:
        return ALL3
    if len(factors) <= 1 and (not factors or factors[0][1] == 1):
        return ALL3
    cur = {POS} if coeff > 0 else {NEG}
    for f, mult in factors:
        key, fp, flip = canon(f)
        if key is None:
            continue
        fs = set(p.sign_set(key, fp))
        if flip:
            fs = {_FLIP[x] for x in fs}
        if mult % 2 == 0:
            fs = {POS if x != ZERO else ZERO for x in fs}
        new = set()
        for a in cur:
            for b in fs:
                if a == ZERO or b == ZERO:
                    new.add(ZERO)
                else:
                    new.add(_MUL[(a, b)])
        cur = new
        if len(cur) == 3:
            return ALL3
    return frozenset(cur)


def assume_sign(e, truth_set):
    """record sign(e) in truth_set as a hypothesis (no fork). Returns False if contradictory."""
    e = sp.sympify(e)
    if e.is_number:
        return sign_query(e, truth_set)
    p = current()
    if getattr(p, 'concolic_sign', None) is not None:
        return p.concolic_sign(e) in truth_set
    n, d = numden(e)
    prod = n if d.is_number and d > 0 else (-n if d.is_number else sp.expand(n * d))
    key, poly, flip = canon(prod)
    if key is None:
        return sign_query(poly, truth_set)
    ts = frozenset(_FLIP[t] for t in truth_set) if flip else frozenset(truth_set)
    p.narrow(key, poly, p.sign_set(key, poly) & ts)
    return True


# ------------------------------------------------------------------------------------------
# SymBool
# ------------------------------------------------------------------------------------------
_OPSETS = {'<': (NEG,), '<=': (NEG, ZERO), '>': (POS,), '>=': (POS, ZERO), '==': (ZERO,), '!=': (NEG, POS)}
_NEGOP = {'<': '>=', '<=': '>', '>': '<=', '>=': '<', '==': '!=', '!=': '=='}


class SymBool:
    """kind: 'rel' (e op 0) | 'and' | 'or' | 'not' | 'const'"""
    __slots__ = ('k', 'a', 'b')

    def __init__(self, k, a=None, b=None):
        self.k, self.a, self.b = k, a, b

    @staticmethod
    def rel(e, op):
        e = sp.sympify(e)
        if e.is_number and not e.has(sp.I):
            return bool(sign_query(e, _OPSETS[op])) if active() else bool(
                {'<': e < 0, '<=': e <= 0, '>': e > 0, '>=': e >= 0, '==': e == 0, '!=': e != 0}[op])
        return SymBool('rel', e, op)

    def __bool__(self):
        return self.decide()

    def decide(self):
        if self.k == 'const':
            return self.a
        if self.k == 'rel':
            if self.a.has(sp.I):
                ex_ = sp.expand(self.a)
                if not ex_.has(sp.I):
                    return sign_query(ex_, _OPSETS[self.b])
                re_, im_ = ex_.as_real_imag()
                if self.b in ('<', '<=', '>', '>='):
                    # NumPy orders complex numbers lexicographically (real part, then imaginary part)
                    if sign_query(re_, (ZERO,)):
                        return sign_query(im_, _OPSETS[self.b])
                    return sign_query(re_, _OPSETS['<' if self.b in ('<', '<=') else '>'])
                if self.b == '==':
                    return sign_query(re_, (ZERO,)) and sign_query(im_, (ZERO,))
                if self.b == '!=':
                    return not (sign_query(re_, (ZERO,)) and sign_query(im_, (ZERO,)))
                raise Unsupported('ordering of complex values')
            return sign_query(self.a, _OPSETS[self.b])
        if self.k == 'not':
            return not _truth(self.a)
        if self.k == 'and':
            return _truth(self.a) and _truth(self.b)
        if self.k == 'or':
            return _truth(self.a) or _truth(self.b)
        raise AssertionError(self.k)

    def __and__(self, o):
        if isinstance(o, _np.ndarray):
            return NotImplemented
        return SymBool('and', self, o)
    __rand__ = __and__

    def __or__(self, o):
        if isinstance(o, _np.ndarray):
            return NotImplemented
        return SymBool('or', self, o)
    __ror__ = __or__

    def __invert__(self):
        if self.k == 'rel':
            return SymBool('rel', self.a, _NEGOP[self.b])
        return SymBool('not', self)

    def __xor__(self, o):
        return (self & ~_asbool(o)) | (~self & _asbool(o))
    __rxor__ = __xor__

    def __eq__(self, o):
        return ~(self ^ o)

    def __ne__(self, o):
        return self ^ o

    __hash__ = None

    def __repr__(self):
        if self.k == 'rel':
            return '(%s %s 0)' % (self.a, self.b)
        if self.k == 'const':
            return str(self.a)
        if self.k == 'not':
            return '~%r' % (self.a,)
        return '(%r %s %r)' % (self.a, self.k, self.b)


def _asbool(x):
    if isinstance(x, SymBool):
        return x
    return SymBool('const', bool(x))


def _truth(x):
    if isinstance(x, SymBool):
        return x.decide()
    return bool(x)


def s_not(x):
    return ~x if isinstance(x, SymBool) else (not x)


def s_and(*xs):
    r = True
    for x in xs:
        if isinstance(x, SymBool):
            r = x if r is True else (SymBool('and', r, x) if r is not False else False)
        elif not x:
            return False
    return r


def s_or(*xs):
    r = False
    for x in xs:
        if isinstance(x, SymBool):
            r = x if r is False else (SymBool('or', r, x) if r is not True else True)
        elif x:
            return True
    return r


def implies(a, b):
    return s_or(s_not(a), b)


# ------------------------------------------------------------------------------------------
# Sym
# ------------------------------------------------------------------------------------------
def lift(x):
    if isinstance(x, Sym):
        return x
    if isinstance(x, (float, _np.floating)):
        x = float(x)
        if math.isnan(x):
            return Sym(sp.S.Zero, NAN)
        if math.isinf(x):
            return Sym(sp.S.Zero, PINF if x > 0 else NINF)
    if isinstance(x, sp.Expr):
        if x is sp.oo:
            return Sym(sp.S.Zero, PINF)
        if x is -sp.oo:
            return Sym(sp.S.Zero, NINF)
        if x is sp.nan:
            return Sym(sp.S.Zero, NAN)
        return Sym(x)
    if isinstance(x, SymBool):
        raise Unsupported('arithmetic on a symbolic condition')
    return Sym(to_expr(x))


def is_symbolic(x):
    return isinstance(x, (Sym, SymBool))


class Sym:
    __slots__ = ('e', 'kind')

    def __init__(self, e, kind=FIN):
        self.e = e if isinstance(e, sp.Expr) else sp.sympify(e)
        self.kind = kind

    # -- introspection ---------------------------------------------------------------------
    def __repr__(self):
        return 'Sym(%s)' % (self.e if self.kind == FIN else self.kind)

    @property
    def is_number(self):
        return self.kind != FIN or self.e.is_number

    def __float__(self):
        if self.kind == NAN:
            return float('nan')
        if self.kind == PINF:
            return float('inf')
        if self.kind == NINF:
            return float('-inf')
        if self.e.is_number:
            return float(self.e)
        if self.e.free_symbols <= {PI}:
            return float(self.e.subs(PI, sp.pi))
        raise Unsupported('float() of a symbolic value escapes the model')

    def __int__(self):
        if self.kind == FIN and self.e.is_Integer:
            return int(self.e)
        raise Unsupported('int() of a symbolic value')

    __index__ = __int__

    def __complex__(self):
        if self.kind == FIN and self.e.is_number:
            return complex(self.e)
        raise Unsupported('complex() of a symbolic value')

    def __hash__(self):
        return hash((self.e, self.kind))

    @property
    def real(self):
        if self.kind != FIN:
            return self
        return Sym(sp.re(sp.expand(self.e, complex=True)) if self.e.has(sp.I) else self.e)

    @property
    def imag(self):
        if self.kind != FIN:
            return Sym(0)
        return Sym(sp.im(sp.expand(self.e, complex=True)) if self.e.has(sp.I) else sp.S.Zero)

    def conjugate(self):
        if self.kind != FIN or not self.e.has(sp.I):
            return self
        return Sym(self.e.subs(sp.I, -sp.I))
    conj = conjugate

    # numpy attribute look-alikes for 0-d values
    ndim = 0
    shape = ()
    size = 1

    def copy(self):
        return self

    def astype(self, *_a, **_k):
        return self

    def item(self):
        return self

    # -- arithmetic ------------------------------------------------------------------------
    def _bin(self, o, f):
        if isinstance(o, _np.ndarray):
            return NotImplemented
        try:
            o = lift(o)
        except Unsupported:
            return NotImplemented
        return f(self, o)

    def __add__(self, o):
        return self._bin(o, _add)

    def __radd__(self, o):
        return self._bin(o, lambda a, b: _add(b, a))

    def __sub__(self, o):
        return self._bin(o, lambda a, b: _add(a, _neg(b)))

    def __rsub__(self, o):
        return self._bin(o, lambda a, b: _add(b, _neg(a)))

    def __mul__(self, o):
        return self._bin(o, _mul)

    def __rmul__(self, o):
        return self._bin(o, lambda a, b: _mul(b, a))

    def __truediv__(self, o):
        return self._bin(o, _div)

    def __rtruediv__(self, o):
        return self._bin(o, lambda a, b: _div(b, a))

    def __neg__(self):
        return _neg(self)

    def __pos__(self):
        return self

    def __abs__(self):
        return s_abs(self)

    def __pow__(self, o):
        return self._bin(o, _pow)

    def __rpow__(self, o):
        return self._bin(o, lambda a, b: _pow(b, a))

    def __floordiv__(self, o):
        a, b = self, lift(o)
        if a.kind == FIN and b.kind == FIN and a.e.is_Integer and b.e.is_Integer:
            return Sym(sp.Integer(int(a.e) // int(b.e)))
        raise Unsupported('floor division of symbolic values')

    def __mod__(self, o):
        a, b = self, lift(o)
        if a.kind == FIN and b.kind == FIN and a.e.is_number and b.e.is_number:
            return Sym(sp.Mod(a.e, b.e))
        raise Unsupported('modulo of symbolic values')

    # -- comparisons -----------------------------------------------------------------------
    def _cmp(self, o, op):
        if isinstance(o, _np.ndarray):
            return NotImplemented
        if o is None:
            return op == '!='
        try:
            o = lift(o)
        except Unsupported:
            return NotImplemented
        return s_cmp(self, o, op)

    def __lt__(self, o):
        return self._cmp(o, '<')

    def __le__(self, o):
        return self._cmp(o, '<=')

    def __gt__(self, o):
        return self._cmp(o, '>')

    def __ge__(self, o):
        return self._cmp(o, '>=')

    def __eq__(self, o):
        return self._cmp(o, '==')

    def __ne__(self, o):
        return self._cmp(o, '!=')

    def __bool__(self):
        # truthiness of a number: x != 0   (``if self.rx:``)
        if self.kind != FIN:
            return True
        return _truth(SymBool.rel(self.e, '!='))

    # -- ufunc-by-name hooks used by numpy on object arrays ---------------------------------
    def sqrt(self):
        return s_sqrt(self)

    def sin(self):
        return s_sin(self)

    def cos(self):
        return s_cos(self)

    def tan(self):
        return s_tan(self)

    def exp(self):
        return s_exp(self)

    def log(self):
        return s_fun('log', self)

    def arccos(self):
        return s_fun('arccos', self)

    def arcsin(self):
        return s_fun('arcsin', self)

    def arctan(self):
        return s_fun('arctan', self)

    def radians(self):
        return self * PI / 180
    deg2rad = radians

    def degrees(self):
        return self * 180 / PI
    rad2deg = degrees

    def isnan(self):
        return self.kind == NAN

    def isinf(self):
        return self.kind in (PINF, NINF)

    def isfinite(self):
        return self.kind == FIN


def _add(a, b):
    if NAN in (a.kind, b.kind):
        return Sym(0, NAN)
    if a.kind == FIN and b.kind == FIN:
        return Sym(a.e + b.e)
    if a.kind == FIN:
        return Sym(0, b.kind)
    if b.kind == FIN:
        return Sym(0, a.kind)
    return Sym(0, a.kind) if a.kind == b.kind else Sym(0, NAN)


def _neg(a):
    if a.kind == FIN:
        return Sym(-a.e)
    return Sym(0, {PINF: NINF, NINF: PINF, NAN: NAN}[a.kind])


def sign3(e):
    """decide the sign of a finite real expression: -1, 0, 1"""
    if sign_query(e, (ZERO,)):
        return 0
    return -1 if sign_query(e, (NEG,)) else 1


def _mul(a, b):
    if NAN in (a.kind, b.kind):
        return Sym(0, NAN)
    if a.kind == FIN and b.kind == FIN:
        return Sym(a.e * b.e)
    if a.kind != FIN and b.kind != FIN:
        return Sym(0, PINF if a.kind == b.kind else NINF)
    inf, f = (a, b) if a.kind != FIN else (b, a)
    s = sign3(f.e)
    if s == 0:
        return Sym(0, NAN)
    return Sym(0, PINF if (inf.kind == PINF) == (s > 0) else NINF)


def _div(a, b):
    if NAN in (a.kind, b.kind):
        return Sym(0, NAN)
    if b.kind != FIN:
        return Sym(0) if a.kind == FIN else Sym(0, NAN)
    p = current() if active() else None
    # is the denominator zero?
    if b.e.is_number:
        bz = bool(b.e.is_zero) if b.e.is_zero is not None else (abs(complex(b.e.evalf(30))) < 1e-25)
    elif b.e.has(sp.I):
        bz = False
        if p is not None:
            p.wd.append(('nonzero', b.e))
    elif p is not None and p.ieee:
        bz = sign_query(b.e, (ZERO,))
    else:
        bz = False
        if p is not None:
            n_, _d = numden(b.e)
            key, poly, _ = canon(n_)
            if key is not None:
                poss = p.sign_set(key, poly)
                if poss == frozenset((ZERO,)):
                    bz = True
                elif ZERO in poss:
                    p.wd.append(('nonzero', b.e))
                    p.narrow(key, poly, poss - {ZERO})
    if not bz:
        if a.kind == FIN:
            return Sym(a.e / b.e)
        sb = sign3(b.e)
        return Sym(0, a.kind if sb > 0 else {PINF: NINF, NINF: PINF}[a.kind])
    # division by (positive) zero, IEEE
    if a.kind != FIN:
        return Sym(0, a.kind)
    if a.e.has(sp.I):
        return Sym(0, NAN)
    sa = sign3(a.e)
    return Sym(0, NAN) if sa == 0 else Sym(0, PINF if sa > 0 else NINF)


def _pow(a, b):
    if b.kind == FIN and b.e.is_Integer:
        n = int(b.e)
        if n >= 0:
            if a.kind == FIN:
                return Sym(a.e ** n)
            r = Sym(1)
            for _ in range(n):
                r = _mul(r, a)
            return r
        return _div(Sym(1), _pow(a, Sym(-n)))
    if b.kind == FIN and b.e.is_Rational and b.e.q == 2:
        r = s_sqrt(a)
        return _pow(r, Sym(b.e.p))
    if a.kind == FIN and b.kind == FIN and a.e.is_number and b.e.is_number:
        return Sym(sp.Pow(a.e, b.e))
    if a.kind == FIN and b.kind == FIN:
        return s_fun('pow', a, b)
    raise Unsupported('power with non-finite operands')


def s_cmp(a, b, op):
    a, b = lift(a), lift(b)
    if NAN in (a.kind, b.kind):
        return op == '!='
    rank = {NINF: -1, FIN: 0, PINF: 1}
    if a.kind != FIN or b.kind != FIN:
        if a.kind == b.kind:
            s = 0
        else:
            s = (rank[a.kind] > rank[b.kind]) - (rank[a.kind] < rank[b.kind])
        return {'<': s < 0, '<=': s <= 0, '>': s > 0, '>=': s >= 0, '==': s == 0, '!=': s != 0}[op]
    return SymBool.rel(a.e - b.e, op)


# -- atoms ---------------------------------------------------------------------------------
def _new_atom(p, base, **assump):
    return sp.Symbol('%s_%d' % (base, next(p.fresh)), real=True, **assump)


def s_sqrt(a):
    a = lift(a)
    if a.kind in (NAN, NINF):
        return Sym(0, NAN)
    if a.kind == PINF:
        return Sym(0, PINF)
    e = a.e
    if e.is_number:
        if e.has(sp.I):
            return Sym(sp.sqrt(e))
        if e.is_negative:
            return Sym(0, NAN)
        r = sp.sqrt(e)
        if r.is_Rational:
            return Sym(r)
    if e.has(sp.I):
        raise Unsupported('sqrt of a symbolic complex value')
    # perfect squares whose root has a known sign (sympy assumptions): sqrt(x**2) = x for x > 0
    try:
        rs = sp.sqrt(e) if e.count_ops() < 40 else None
        if rs is not None and not rs.has(sp.Pow) or (rs is not None and all(
                (pw.exp.is_Integer) for pw in rs.atoms(sp.Pow))):
            if not rs.has(sp.Abs) and not rs.has(sp.sign):
                return Sym(rs)
    except Exception:
        pass
    p = current()
    # sqrt(1 - cos^2) = |sin|, sqrt(1 - sin^2) = |cos| for the path's own trig atoms
    if e.count_ops() < 12 and e.free_symbols:
        for _k, (c_, s_, _b) in p.trig_atoms.items():
            if e.free_symbols == {c_} and sp.expand(e - (1 - c_ ** 2)) == 0:
                return s_abs(Sym(s_))
            if e.free_symbols == {s_} and sp.expand(e - (1 - s_ ** 2)) == 0:
                return s_abs(Sym(c_))
    if getattr(p, 'sqrt_factor', False) and e.count_ops() < 400:
        # opt-in (contract option sqrt_factor): radicands that are perfect squares *modulo the defining equations of the
        # sqrt atoms already on the path* (r_k^2 = radicand_k) are rooted exactly: sqrt(f^2 / g^2) = |f| / |g|
        try:
            q_ = sp.together(e)
            nq_, dq_ = sp.expand(sp.numer(q_)), sp.expand(sp.denom(q_))
            # the denominator is usually a monomial in the atoms (already a square); only the numerator is rewritten
            d_even_ = all(m_ % 2 == 0 for _f, m_ in sp.factor_list(dq_)[1])
            for _k2, (rr_, ee_) in p.sqrt_atoms.items():
                if nq_.has(rr_):
                    nq_ = sp.expand(nq_.subs(rr_ ** 2, ee_))
                if not d_even_ and dq_.has(rr_):
                    dq_ = sp.expand(dq_.subs(rr_ ** 2, ee_))
            if nq_.is_rational_function() and not nq_.is_polynomial():
                t_ = sp.together(nq_)
                nq_, dq_ = sp.expand(sp.numer(t_)), sp.expand(dq_ * sp.denom(t_))
            for eq_ in p.equalities():
                # a quadratic constraint v^2 = (rest) such as the unit-vector hypothesis: normal form in v
                for v_ in sorted(eq_.free_symbols, key=lambda z_: z_.name):
                    try:
                        pe_ = sp.Poly(eq_, v_)
                    except Exception:
                        continue
                    if pe_.degree() == 2 and pe_.coeff_monomial(v_) == 0 and pe_.LC().is_number:
                        nq_ = sp.expand(sp.rem(nq_, eq_, v_))
                        dq_ = sp.expand(sp.rem(dq_, eq_, v_))
                        break
            if nq_.is_number and dq_.is_number and not e.is_number:
                return s_sqrt(Sym(nq_ / dq_))
            cn_, fn_ = sp.factor_list(nq_)
            cd_, fd_ = sp.factor_list(dq_)
            if any(m_ >= 2 for _f, m_ in fn_ + fd_):
                # sqrt(c * prod f^m / prod g^m') = prod |f|^(m//2) / prod |g|^(m'//2) * sqrt(c * prod f^(m%2) / prod g^(m'%2))
                out_ = Sym(1)
                rest_ = sp.Rational(cn_) / sp.Rational(cd_)
                for f_, m_ in fn_:
                    if m_ // 2:
                        out_ = out_ * (s_abs(Sym(f_)) ** (m_ // 2) if m_ // 2 != 1 else s_abs(Sym(f_)))
                    if m_ % 2:
                        rest_ = rest_ * f_
                for f_, m_ in fd_:
                    if m_ // 2:
                        out_ = out_ / (s_abs(Sym(f_)) ** (m_ // 2) if m_ // 2 != 1 else s_abs(Sym(f_)))
                    if m_ % 2:
                        rest_ = rest_ / f_
                if rest_ == 1:
                    return out_
                p.sqrt_factor = False
                try:
                    return out_ * s_sqrt(Sym(rest_))
                finally:
                    p.sqrt_factor = True
        except Unsupported:
            raise
        except Infeasible:
            raise
        except Exception:
            pass
    big = e.count_ops() > 120 or sum(1 for t_ in sp.Add.make_args(e) if sp.fraction(t_)[1] != 1) > 3
    key = sp.srepr(e) if big else sp.srepr(sp.together(e))
    if key in p.sqrt_atoms:
        return Sym(p.sqrt_atoms[key][0])
    if big:
        # large radicand: no normalisation (the common denominator of a long sum is expensive and not needed);
        # well-definedness (radicand >= 0) is an assumption recorded on the path
        if p.ieee:
            if sign_query(e, (NEG,)):
                return Sym(0, NAN)
        else:
            p.wd.append(('nonneg', e))
        r = _new_atom(p, 'r', nonnegative=True)
        p.atom_eqs.append(r * r - e)
        p.atom_nonneg.append(r)
        p.sqrt_atoms[key] = (r, e)
        return Sym(r)
    n, d = numden(e)
    if p.ieee:
        if sign_query(e, (NEG,)):
            return Sym(0, NAN)
    else:
        key_, poly_, flip_ = canon(n if d.is_number and d > 0 else sp.expand(n * d))
        if key_ is not None:
            poss = p.sign_set(key_, poly_)
            neg = POS if flip_ else NEG
            if neg in poss:
                if poss == frozenset((neg,)):
                    return Sym(0, NAN)
                p.wd.append(('nonneg', e))
                p.narrow(key_, poly_, poss - {neg})
    r = None
    for k2, (rr, ee) in p.sqrt_atoms.items():
        if ee.count_ops() <= 120 and sp.expand(numden(ee - e)[0]) == 0:
            r = rr
            break
    if r is None:
        r = _new_atom(p, 'r', nonnegative=True)
        p.atom_eqs.append(sp.expand(r * r * d - n))
        p.atom_nonneg.append(r)
    p.sqrt_atoms[key] = (r, e)
    return Sym(p.sqrt_atoms[key][0])


def s_abs(a):
    a = lift(a)
    if a.kind == NAN:
        return a
    if a.kind != FIN:
        return Sym(0, PINF)
    if a.e.has(sp.I):
        re_, im_ = sp.expand(a.e, complex=True).as_real_imag()
        rad = sp.expand(re_ ** 2 + im_ ** 2)
        # |a e^{i phi}|^2 = a^2: use s^2 = 1 - c^2 of the trig atoms before taking the root
        if active():
            for key_, (c_, s_, base_) in current().trig_atoms.items():
                if rad.has(s_):
                    P_ = sp.Poly(rad, s_)
                    rad = sp.expand(sum(co_ * (1 - c_ ** 2) ** (k_ // 2) * s_ ** (k_ % 2) for (k_,), co_ in P_.terms()))
            rad = sp.factor(rad) if rad.count_ops() < 60 else rad
        return s_sqrt(Sym(rad))
    if active() and getattr(current(), 'lazy_abs', False) and not a.e.is_number:
        # opt-in (contract option lazy_abs): |x| of a real value whose sign is not known yet is the atom r with r^2 = x^2, r >= 0
        # (no fork; squares of it rewrite to x^2) -- for code that only ever squares the modulus
        p_ = current()
        n_, d_ = numden(a.e)
        key_, poly_, flip_ = canon(n_ if d_.is_number and d_ > 0 else sp.expand(n_ * d_))
        if key_ is not None and len(p_.sign_set(key_, poly_)) > 1:
            sf_ = getattr(p_, 'sqrt_factor', False)
            p_.sqrt_factor = False
            try:
                return s_sqrt(Sym(sp.expand(a.e) ** 2))
            finally:
                p_.sqrt_factor = sf_
    return Sym(-a.e) if sign_query(a.e, (NEG,)) else a


def s_sign(a):
    a = lift(a)
    if a.kind == NAN:
        return a
    if a.kind != FIN:
        return Sym(1 if a.kind == PINF else -1)
    return Sym(sign3(a.e))


def _angle_terms(e):
    """split an angle into a closed constant (PI substituted by pi) and terms (coefficient, base)"""
    e = sp.expand(e)
    terms = []
    const = sp.S.Zero
    for t in sp.Add.make_args(e):
        if t.free_symbols <= {PI}:
            const += t.subs(PI, sp.pi)
            continue
        c, base = t.as_coeff_Mul()
        if base.could_extract_minus_sign():
            c, base = -c, -base
        terms.append((c, base))
    return const, terms


def _trig_atom(p, base):
    """(cos, sin) atoms of a base angle (canonical sign folded by caller)"""
    key = sp.srepr(base)
    if key not in p.trig_atoms:
        i = next(p.fresh)
        c = sp.Symbol('c_%d' % i, real=True)
        s = sp.Symbol('s_%d' % i, real=True)
        p.atom_eqs.append(c * c + s * s - 1)
        p.trig_atoms[key] = (c, s, base)
    c, s, _ = p.trig_atoms[key]
    return c, s


def _cs_multiple(c, s, n):
    """cos(n t), sin(n t) from cos t, sin t for integer n >= 0"""
    cc, ss = sp.S.One, sp.S.Zero
    for _ in range(n):
        cc, ss = sp.expand(cc * c - ss * s), sp.expand(ss * c + cc * s)
    return cc, ss


def _cos_sin(a):
    a = lift(a)
    if a.kind != FIN:
        return Sym(0, NAN), Sym(0, NAN)
    e = a.e
    if e.has(sp.I):
        raise Unsupported('trig of complex argument')
    if e.free_symbols <= {PI}:
        e = e.subs(PI, sp.pi)
    if e.is_number:
        c, s = sp.cos(e), sp.sin(e)
        if c.is_Rational and s.is_Rational:
            return Sym(c), Sym(s)
        if active():
            # values built from square roots of rationals (cos(pi/4), cos(pi/6), ...) are written
            # over sqrt atoms: r**2 = q, r >= 0
            ca, sa = _sqrt_numbers_to_atoms(c), _sqrt_numbers_to_atoms(s)
            if ca is not None and sa is not None:
                return Sym(ca), Sym(sa)
            # other algebraic values become atoms with their defining relation
            p = current()
            cc, ss = _trig_atom(p, e)
            _note_numeric(p, cc, float(c))
            _note_numeric(p, ss, float(s))
            return Sym(cc), Sym(ss)
        return Sym(c), Sym(s)
    p = current()
    const, terms = _angle_terms(e)
    cc, ss = sp.S.One, sp.S.Zero
    if const != 0:
        c0, s0 = sp.cos(const), sp.sin(const)
        if not (c0.is_Rational and s0.is_Rational):
            c0, s0 = _trig_atom(p, const.subs(sp.pi, PI))
        cc, ss = c0, s0
    for coef, base in terms:
        if coef.is_Integer:
            n = int(coef)
            cb_, sb_ = _trig_atom(p, base)
        else:
            # rational multiple: use base*coef/|num| as the atom angle
            q = sp.Rational(coef)
            n = int(q.p)
            cb_, sb_ = _trig_atom(p, base / q.q)
        cn, sn = _cs_multiple(cb_, sb_, abs(n))
        if n < 0:
            sn = -sn
        cc, ss = sp.expand(cc * cn - ss * sn), sp.expand(ss * cn + cc * sn)
    return Sym(cc), Sym(ss)


def _sqrt_numbers_to_atoms(x):
    """rewrite a closed expression made of rationals and square roots of positive rationals over
    sqrt atoms; None if it contains anything else"""
    x = sp.sympify(x)
    ok = [True]

    def rec(e):
        if e.is_Rational:
            return e
        if e.is_Pow and e.args[1] == sp.Rational(1, 2) and e.args[0].is_Rational and e.args[0] > 0:
            return s_sqrt(Sym(e.args[0])).e
        if e.is_Pow and e.args[1] == sp.Rational(-1, 2) and e.args[0].is_Rational and e.args[0] > 0:
            return 1 / s_sqrt(Sym(e.args[0])).e
        if e.is_Add or e.is_Mul:
            return e.func(*[rec(a) for a in e.args])
        if e.is_Pow and e.args[1].is_Integer:
            return rec(e.args[0]) ** e.args[1]
        ok[0] = False
        return e
    r = rec(x)
    return r if ok[0] else None


def _note_numeric(p, sym, val):
    p.notes.append(('numeric', sym, val))


def s_cos(a):
    return _cos_sin(a)[0]


def s_sin(a):
    return _cos_sin(a)[1]


def s_tan(a):
    c, s = _cos_sin(a)
    return s / c


def s_exp(a):
    a = lift(a)
    if a.kind == NAN:
        return a
    if a.kind == PINF:
        return a
    if a.kind == NINF:
        return Sym(0)
    e = sp.expand(a.e)
    if e == 0:
        return Sym(1)
    if e.has(sp.I):
        re_, im_ = e.as_real_imag()
        c, s = _cos_sin(Sym(im_))
        mag = s_exp(Sym(re_)) if re_ != 0 else Sym(1)
        return mag * (c + Sym(sp.I) * s)
    p = current()
    # exp atom: positive; exp(-x) = 1/exp(x) by canonical sign
    _, base, flip = canon(e)
    c_, _b = (e / base).as_coeff_Mul() if base != 0 else (1, e)
    key = ('exp', sp.srepr(e if not flip else -e))
    if key not in p.fun_atoms:
        p.fun_atoms[key] = (_new_atom(p, 'E', positive=True), 'exp', (e if not flip else -e,))
    at = p.fun_atoms[key][0]
    return Sym(1 / at) if flip else Sym(at)


def s_arccos(a):
    """arccos of a value that *is* the cosine atom of an angle whose sine is known to be >= 0 on this path: the principal
    value A in [0, pi] has cos A = c and sin A = sqrt(1 - c^2) = s, so a new angle symbol sharing the atoms (c, s) is returned
    (integer multiples of it then reduce to polynomials in c, s).  Anything else stays an uninterpreted function."""
    a = lift(a)
    if a.kind == FIN and active() and a.e.is_Symbol:
        p = current()
        for _k, (c_, s_, _b) in list(p.trig_atoms.items()):
            if a.e == c_:
                key_, poly_, flip_ = canon(s_)
                ss = p.sign_set(key_, poly_)
                if flip_:
                    ss = frozenset(_FLIP[x] for x in ss)
                if NEG not in ss:
                    A = _new_atom(p, 'acos')
                    p.trig_atoms[sp.srepr(A)] = (c_, s_, A)
                    return Sym(A)
    return s_fun('arccos', a)


def s_fun(name, *args):
    """uninterpreted real function atom (log, arccos, pow with real exponent, ...)"""
    args = [lift(a) for a in args]
    if any(a.kind != FIN for a in args):
        raise Unsupported('%s of non-finite value' % name)
    if all(a.e.is_number for a in args):
        f = {'log': sp.log, 'arccos': sp.acos, 'arcsin': sp.asin, 'arctan': sp.atan,
             'pow': sp.Pow}.get(name)
        if f is not None:
            return Sym(f(*[a.e for a in args]))
    p = current()
    key = (name,) + tuple(sp.srepr(sp.together(a.e)) for a in args)
    if key not in p.fun_atoms:
        p.fun_atoms[key] = (_new_atom(p, 'F' + name), name, tuple(a.e for a in args))
    return Sym(p.fun_atoms[key][0])


# ------------------------------------------------------------------------------------------
def where(c, a, b):
    return a if _truth(c) else b


def is_scalar_number(x):
    return isinstance(x, (Sym, numbers.Number, _np.number))
