"""Contracts, VC generation and discharge.

A *contract* is a Python function `f(c)` in /verif/contracts that
  1. builds a pre-state from `c.real(...)`, `c.unit3(...)`, ... and states `c.require(...)`;
  2. calls the function under contract (the real code: twin in symbolic mode, the untouched
     package in concrete mode);
  3. states post-conditions `c.ensure(id, cond)` / `c.ensure_eq(id, a, b)` / frames.
The same text runs in three modes:
  sym       all execution paths under the decision oracle; every (path, clause) pair is a VC
  concolic  the symbolic run steered by one concrete input: checks the symbolic model against
            the real code on that input (encoder cross-check) and shows the path is inhabited
  num       the real package on concrete inputs: falsifier, replay, bounded tier
"""
import contextlib
import hashlib
import json
import math
import os
import random
import time
import traceback

import numpy as np
import sympy as sp

from . import sym as S
from . import symnp
from . import prove as P
from . import twin
from .sym import Sym, SymBool, Unsupported, Infeasible, PathLimit

CONTRACTS = {}


class Contract:
    def __init__(self, name, fn, functions, props, opts):
        self.name, self.fn, self.functions, self.props, self.opts = name, fn, functions, props, opts


def contract(name, functions, props, **opts):
    """register a contract.  functions: ['optiland/rays/real_rays.py:RealRays.refract', ...]"""
    def deco(fn):
        CONTRACTS[name] = Contract(name, fn, list(functions), list(props), opts)
        return fn
    return deco


def sharded(name, functions, props, bits=3, **opts):
    """register 2**bits contracts that partition the path tree by the first `bits` decisions"""
    def deco(fn):
        for i in range(2 ** bits):
            pre = [(i >> b) & 1 for b in range(bits)]
            o = dict(opts, prefix=pre)
            if i:
                o['numeric_share'] = False
            CONTRACTS['%s#%d' % (name, i)] = Contract('%s#%d' % (name, i), fn, list(functions), list(props), o)
        return fn
    return deco


class Reject(Exception):
    """concrete sample does not satisfy `requires`"""


class ClauseFail(Exception):
    pass


# ------------------------------------------------------------------------------------------
class Ctx:
    def __init__(self, mode, rng=None, draws=None, path=None, env=None, tol=1e-7):
        self.mode = mode              # 'sym' | 'concolic' | 'num'
        self.rng = rng
        self.draws = dict(draws or {})   # name -> concrete value (replay / concolic / model)
        self.fixed = draws is not None
        self.path = path
        self.env = env                 # concolic: sympy Symbol -> float
        self.goals = []                # (id, kind, payload)
        self.obs = {}                  # id -> concrete operand values (num) / symbolic (sym)
        self.tol = tol
        self.notes = []
        self.assumed = []
        self.near_zero = False

    # -- modules ---------------------------------------------------------------------------
    @property
    def symbolic(self):
        return self.mode in ('sym', 'concolic')

    def mod(self, name):
        return twin.sym(name) if self.symbolic else twin.real(name)

    @property
    def np(self):
        return symnp if self.symbolic else np

    # -- inputs ----------------------------------------------------------------------------
    def _draw(self, name, sampler):
        if name in self.draws:
            return self.draws[name]
        if self.fixed and self.mode != 'sym':
            # replay of a solver model may lack auxiliary names: draw deterministically
            v = sampler(random.Random(hash(name) & 0xffff))
        else:
            v = sampler(self.rng)
        self.draws[name] = v
        return v

    def real(self, name, lo=-2.0, hi=2.0, positive=False, nonzero=False, nonneg=False, sample=None,
             integer=False):
        if positive:
            lo = max(lo, 0.05)
        if nonneg:
            lo = max(lo, 0.0)

        def sampler(rng):
            if sample is not None:
                return sample(rng)
            for _ in range(100):
                if integer:
                    v = rng.randint(int(lo), int(hi))
                elif rng.random() < 0.5:
                    v = round(rng.uniform(lo, hi) * 8) / 8.0
                else:
                    v = rng.uniform(lo, hi)
                if v < lo or v > hi:
                    continue
                if nonzero and v == 0:
                    continue
                return v
            return (lo + hi) / 2
        if self.mode == 'num':
            return self._draw(name, sampler)
        kw = {}
        if positive:
            kw['positive'] = True
        elif nonneg:
            kw['nonnegative'] = True
        elif nonzero:
            kw['nonzero'] = True
        if integer:
            kw['integer'] = True
        s = sp.Symbol(name, real=True, **kw)
        self.path.symbols[name] = s
        if self.mode == 'concolic':
            self.env[s] = float(self._draw(name, sampler))
        return Sym(s)

    def unit3(self, n1, n2, n3, cone=None):
        """three reals with n1^2+n2^2+n3^2 = 1 (hypothesis in sym mode, constructed in num mode).
        cone: if given, n3 >= cone (> 0) -- forward-going directions"""
        def sampler(rng):
            while True:
                v = [rng.gauss(0, 1) for _ in range(3)]
                n = math.sqrt(sum(x * x for x in v))
                if n < 1e-3:
                    continue
                v = [x / n for x in v]
                if cone is not None and v[2] < cone:
                    v[2] = abs(v[2])
                    if v[2] < cone:
                        continue
                return tuple(v)
        if self.mode == 'num':
            if n1 in self.draws and n2 in self.draws and n3 in self.draws:
                return self.draws[n1], self.draws[n2], self.draws[n3]
            v = sampler(self.rng)
            self.draws[n1], self.draws[n2], self.draws[n3] = v
            return v
        a, b, c_ = (self.real(n) for n in (n1, n2, n3))
        if self.mode == 'concolic':
            if not all(n in self.draws for n in (n1, n2, n3)):
                v = sampler(self.rng)
                self.draws[n1], self.draws[n2], self.draws[n3] = v
            for n, s in zip((n1, n2, n3), (a, b, c_)):
                self.env[s.e] = float(self.draws[n])
        S.assume_sign(a.e ** 2 + b.e ** 2 + c_.e ** 2 - 1, (S.ZERO,))
        if cone is not None:
            S.assume_sign(c_.e - S.to_expr(cone), (S.POS, S.ZERO))
        return a, b, c_

    def arr(self, *xs):
        """1-D array of the given scalars (a ray bundle is represented by its generic element)"""
        if self.symbolic:
            r = np.empty(len(xs), dtype=object)
            for i, x in enumerate(xs):
                r[i] = x
            return symnp.wrap(r)
        return np.array([float(x) for x in xs], dtype=float)

    def val(self, x, i=0):
        """scalar out of a scalar / 0-d / 1-element array"""
        if isinstance(x, np.ndarray):
            x = x.reshape(-1)[i]
        if isinstance(x, np.generic):
            x = x.item()
        return x

    # -- spec-side mathematics (mode polymorphic) ------------------------------------------
    def sqrt(self, x):
        return S.s_sqrt(x) if self.symbolic else math.sqrt(x) if x >= 0 else float('nan')

    def sin(self, x):
        return S.s_sin(x) if self.symbolic else math.sin(x)

    def cos(self, x):
        return S.s_cos(x) if self.symbolic else math.cos(x)

    def tan(self, x):
        return S.s_tan(x) if self.symbolic else math.tan(x)

    def exp(self, x):
        return S.s_exp(x) if self.symbolic else math.exp(x)

    def abs(self, x):
        return abs(x)

    @property
    def pi(self):
        return Sym(S.PI) if self.symbolic else math.pi

    def const(self, x):
        """exact constant (e.g. pi) usable in both modes"""
        if self.symbolic:
            return Sym(S.to_expr(x) if isinstance(x, (int, float)) else sp.sympify(x))
        return float(sp.sympify(x))

    def isnan(self, x):
        x = self.val(x)
        if isinstance(x, Sym):
            return x.kind == S.NAN
        return isinstance(x, float) and math.isnan(x)

    def isfinite(self, x):
        x = self.val(x)
        if isinstance(x, Sym):
            return x.kind == S.FIN
        return math.isfinite(x)

    def isinf(self, x):
        x = self.val(x)
        if isinstance(x, Sym):
            return x.kind in (S.PINF, S.NINF)
        return math.isinf(x)

    def decide(self, cond):
        """branch in the *contract* on a condition (forks in sym mode)"""
        return S._truth(cond)

    # -- clauses ---------------------------------------------------------------------------
    def require(self, cond):
        if self.mode == 'num':
            if not bool(cond):
                raise Reject()
            return
        if isinstance(cond, SymBool):
            if cond.k == 'rel' and not cond.a.has(sp.I):
                if self.mode == 'concolic':
                    if not S._truth(cond):
                        raise Reject()
                    return
                if cond.a.count_ops() > 40 or sum(1 for t_ in sp.Add.make_args(cond.a) if sp.fraction(t_)[1] != 1) > 3:
                    self.path.hyps.append(cond)       # large expression: kept as an (unexpanded) hypothesis
                else:
                    S.assume_sign(cond.a, S._OPSETS[cond.b])
            elif cond.k == 'and':
                self.require(cond.a)
                self.require(cond.b)
            else:
                if self.mode == 'concolic':
                    if not S._truth(cond):
                        raise Reject()
                    return
                self.path.hyps.append(cond)
        elif not cond:
            raise Infeasible('requires is false on this path')

    def assume(self, what, cond=True):
        """an *unchecked* assumption (listed in the evidence)"""
        self.assumed.append(what)
        if cond is not True:
            self.require(cond)

    def ensure(self, cid, cond, note=None, using=(), sym_only=False):
        """using: facts (conditions) that are proved first on this path and are then the only
        hypotheses -- besides path facts over the same symbols -- given to the SMT solver"""
        if self.mode == 'num':
            if sym_only:
                return
            ok = bool(cond)
            self.goals.append((cid, 'num', ok, note))
            return
        if isinstance(cond, np.bool_):
            cond = bool(cond)
        if using:
            self.goals.append((cid, 'cond', (cond, tuple(using)), note))
        else:
            self.goals.append((cid, 'cond', cond, note))

    def opaque(self, name, value):
        """modular abstraction of a callee result: a fresh unconstrained symbol stands for `value`
        (what the callee returns is proved by the callee's own contract).  Concrete modes: the value."""
        value = self.val(value)
        if self.mode == 'num':
            return value
        s = sp.Symbol(name, real=True)
        if self.mode == 'concolic':
            _atom_values(self.path, self.env)
            self.env[s] = num_eval(S.lift(value).e, self.env)
        return Sym(s)

    def abstract(self, name, value):
        """name a sub-term: returns a fresh symbol with the defining equation recorded (Groebner
        sees it) and the sign knowledge of the value transferred.  Concrete modes: the value."""
        value = self.val(value)
        if self.mode == 'num':
            return value
        value = S.lift(value)
        if value.kind != S.FIN:
            return value
        s = sp.Symbol(name, real=True)
        self.path.atom_eqs.append(sp.expand(S.numden(s - value.e)[0]))
        if not hasattr(self.path, 'abstr'):
            self.path.abstr = {}
        self.path.abstr[s] = value.e
        if self.mode == 'concolic':
            self.env[s] = num_eval(value.e, (_atom_values(self.path, self.env), self.env)[1])
        else:
            for ts in ((S.NEG,), (S.ZERO,), (S.POS,)):
                pass
            poss = _sign_knowledge(self.path, value.e)
            if poss != S.ALL3:
                key, poly, flip = S.canon(s)
                self.path.narrow(key, poly, poss)
        return Sym(s)

    def ensure_eq(self, cid, a, b, tol=None, note=None, sym_only=False):
        a, b = self.val(a), self.val(b)
        if self.mode == 'num' and sym_only:
            return
        if self.mode == 'num':
            tol = tol or self.tol
            fa, fb = complex(a), complex(b)
            if (math.isnan(fa.real) or math.isnan(fb.real)):
                ok = math.isnan(fa.real) and math.isnan(fb.real)
            elif math.isinf(fa.real) or math.isinf(fb.real):
                ok = fa == fb
            else:
                ok = abs(fa - fb) <= tol * (1 + abs(fa) + abs(fb))
            self.goals.append((cid, 'num', ok, note))
            self.obs.setdefault(cid, []).append((fa, fb))
            return
        self.goals.append((cid, 'eq', (S.lift(a), S.lift(b)), note))

    def derivative(self, fn, x, h=1e-6):
        """d fn(x) / dx.  sym/concolic: total derivative of the expression returned by the (real) code with respect to the
        input symbol, through the sqrt / trig / exp atoms it introduced (implicit differentiation of their defining
        equations); num: central difference on the real code (bounded tier: compare with a tolerance >= 1e-6)"""
        if self.mode == 'num':
            return (float(self.val(fn(x + h))) - float(self.val(fn(x - h)))) / (2 * h)
        v = S.lift(self.val(fn(x)))
        if v.kind != S.FIN or not isinstance(x, Sym) or not x.e.is_Symbol:
            raise Unsupported('derivative: needs a finite value and an input symbol')
        return Sym(_total_derivative(self.path, v.e, x.e, {}))

    def snapshot(self, **roots):
        return snapshot(roots)

    def ensure_frame(self, cid, before, after, assigns):
        """every path of the object graph whose value changed must match a pattern in assigns"""
        bad = frame_diff(before, after, assigns)
        self.ensure(cid, not bad, note='written outside the frame: %s' % (bad[:4],))

    def same(self, a, b):
        """object identity (concrete in every mode)"""
        return a is b

    def observe(self, oid, x):
        """record a value for the encoder cross-check (no clause)"""
        x = self.val(x)
        if self.mode == 'num':
            self.obs.setdefault('obs:' + oid, []).append((complex(x), complex(x)))
        else:
            self.goals.append(('obs:' + oid, 'obs', (S.lift(x), S.lift(x)), None))

    @contextlib.contextmanager
    def raises(self, cid, exc):
        try:
            yield
        except exc:
            self.ensure(cid, True)
        else:
            self.ensure(cid, False, note='expected %s' % exc.__name__)

    @contextlib.contextmanager
    def no_raise(self, cid, exc=Exception):
        try:
            yield
        except (Reject, Infeasible, PathLimit, Unsupported):
            raise
        except exc as ex:
            self.ensure(cid, False, note='raised %s: %s' % (type(ex).__name__, str(ex)[:200]))
            raise ClauseFail()
        else:
            self.ensure(cid, True)


# ------------------------------------------------------------------------------------------
# frames
# ------------------------------------------------------------------------------------------
def _total_derivative(path, e, xs, memo):
    e = sp.sympify(e)
    key = sp.srepr(e)
    if key in memo:
        return memo[key]
    defs = {}
    for _k, (r_, rad_) in path.sqrt_atoms.items():
        defs[r_] = ('sqrt', rad_)
    for _k, (c_, s_, base_) in path.trig_atoms.items():
        defs.setdefault(c_, ('cos', s_, base_))          # first registration = the angle the atoms were introduced for
        defs.setdefault(s_, ('sin', c_, base_))
    for _k, ent in path.fun_atoms.items():
        defs[ent[0]] = ('fun', ent[1], ent[2])
    out = sp.diff(e, xs)
    for a in e.free_symbols:
        if a == xs or a not in defs:
            continue
        d = defs[a]
        if d[0] == 'sqrt':
            da = _total_derivative(path, d[1], xs, memo) / (2 * a)
        elif d[0] == 'cos':
            da = -d[1] * _total_derivative(path, d[2], xs, memo)
        elif d[0] == 'sin':
            da = d[1] * _total_derivative(path, d[2], xs, memo)
        else:
            inner = [_total_derivative(path, arg, xs, memo) for arg in d[2]]
            if all(i == 0 for i in inner):
                da = sp.S.Zero
            elif d[1] == 'exp':
                da = a * inner[0]
            else:
                raise Unsupported('derivative through the uninterpreted function %s' % d[1])
        if da != 0:
            out = out + sp.diff(e, a) * da
    memo[key] = out
    return out


def snapshot(roots, depth=8, shapes=False, expand_shared=False):
    """object graph -> {path string: (id, summary value)} for frame checks"""
    out = {}
    seen = set()

    def val_key(v):
        if isinstance(v, Sym):
            if v.kind == S.FIN and v.e.is_number and not v.e.has(sp.I):
                return ('num', float(v.e))
            if v.kind != S.FIN:
                return ('num', float(v))
            return ('sym', str(sp.expand(v.e)))
        if isinstance(v, np.ndarray):
            if v.size == 1 and not shapes:
                return val_key(v.reshape(-1)[0])
            return ('arr', v.shape, tuple(val_key(x) for x in v.reshape(-1)[:64]))
        if isinstance(v, bool) or v is None or isinstance(v, str):
            return ('py', repr(v))
        if isinstance(v, (int, float)):
            return ('num', float(v)) if not shapes else ('py', type(v).__name__, float(v))
        if isinstance(v, complex):
            return ('num', v)
        if isinstance(v, np.generic):
            return ('num', float(v.item())) if not shapes else ('npy', type(v).__name__, float(v.item()))
        return None

    def walk(o, path, d):
        vk = val_key(o)
        if vk is not None:
            out[path] = (None, vk)
            return
        if id(o) in seen or d > depth:
            out[path] = (id(o), ('ref',))
            return
        seen.add(id(o))
        try:
            _walk_children(o, path, d)
        finally:
            if expand_shared:
                seen.discard(id(o))     # only ancestors stop the walk: shared objects are expanded at every place

    def _walk_children(o, path, d):
        if isinstance(o, (list, tuple)):
            out[path] = (id(o), ('seq', len(o)))
            for i, x in enumerate(o):
                walk(x, '%s[%d]' % (path, i), d + 1)
        elif isinstance(o, dict):
            out[path] = (id(o), ('dict', tuple(sorted(map(str, o)))))
            for k, x in o.items():
                walk(x, '%s[%r]' % (path, k), d + 1)
        elif hasattr(o, '__dict__'):
            out[path] = (id(o), ('obj', type(o).__name__))
            for k, x in vars(o).items():
                walk(x, '%s.%s' % (path, k), d + 1)
        else:
            out[path] = (id(o), ('opaque', type(o).__name__))
    for name, r in roots.items():
        walk(r, name, 0)
    return out


def _vk_equal(x, y):
    """value keys equal up to float rounding (floats are treated as reals, DESIGN S1)"""
    if x == y:
        return True
    if isinstance(x, tuple) and isinstance(y, tuple) and len(x) == len(y) and x and x[0] == y[0]:
        if x[0] == 'num':
            try:
                a, b = complex(x[1]), complex(y[1])
            except Exception:
                return False
            if a != a and b != b:
                return True
            return abs(a - b) <= 1e-9 * (1 + abs(a) + abs(b))
        if x[0] == 'arr':
            return x[1] == y[1] and len(x[2]) == len(y[2]) and all(_vk_equal(p, q) for p, q in zip(x[2], y[2]))
    return False


def frame_diff(before, after, assigns):
    """paths whose value or identity changed and that are not covered by `assigns` (fnmatch)"""
    import re
    pats = [re.compile('^' + re.escape(p).replace('\\*', '.*') + '$') for p in assigns]
    bad = []
    for k in sorted(set(before) | set(after)):
        b, a = before.get(k), after.get(k)
        if b == a:
            continue
        if b is not None and a is not None and _vk_equal(b[1], a[1]):
            continue
        if any(p.match(k) for p in pats):
            continue
        bad.append((k, None if b is None else b[1], None if a is None else a[1]))
    return bad


# ------------------------------------------------------------------------------------------
# running a contract
# ------------------------------------------------------------------------------------------
def _seed_for(name, seed):
    return int(hashlib.sha256(('%s/%s' % (name, seed)).encode()).hexdigest()[:12], 16)


def explore(ct, max_paths=600, ieee=False, prefix=()):
    """yield (path, ctx, error) for every decision vector of the contract in sym mode.
    prefix: forced leading decisions (sharding of the path tree over worker processes)"""
    prefix = list(prefix)
    stack = [list(prefix)]
    n = 0
    while stack:
        dec = stack.pop()
        path = S.Path(dec, ieee=ieee)
        path.sqrt_factor = bool(ct.opts.get('sqrt_factor', False))
        path.lazy_abs = bool(ct.opts.get('lazy_abs', False))
        S.set_path(path)
        ctx = Ctx('sym', path=path)
        err = None
        symnp.BUNDLE_MODE[0] = bool(ct.opts.get('bundle', False))
        try:
            ct.fn(ctx)
        except Infeasible:
            err = 'infeasible'
        except ClauseFail:
            err = None
        except (Unsupported, PathLimit) as ex:
            err = 'unsupported: %s' % ex
        except Reject:
            err = 'infeasible'
        except Exception as ex:
            err = 'exception: %s: %s\n%s' % (type(ex).__name__, ex, traceback.format_exc(limit=8))
        finally:
            S.set_path(None)
            symnp.BUNDLE_MODE[0] = False
        for i in range(max(len(dec), len(prefix)), len(path.trace)):
            for alt in range(1, path.trace[i][2]):
                stack.append([t[1] for t in path.trace[:i]] + [alt])
        if len(path.trace) < len(prefix) and any(prefix[len(path.trace):]):
            continue        # a path shorter than the shard prefix belongs to the all-zero shard
        n += 1
        yield path, ctx, err
        if n >= max_paths:
            if stack:
                yield None, None, 'path-limit: more than %d paths' % max_paths
            return


def _try_eval(path, cond):
    """evaluate a condition from the path's sign knowledge without forking: True/False/None"""
    if isinstance(cond, bool):
        return cond
    if cond.k == 'const':
        return cond.a
    if cond.k == 'rel':
        e = cond.a
        if e.has(sp.I):
            return None
        n, d = S.numden(e)
        prod = n if d.is_number and d > 0 else (-n if d.is_number else sp.expand(n * d))
        key, poly, flip = S.canon(prod)
        if key is None:
            v = poly
            s = S.ZERO if v == 0 else (S.POS if v > 0 else S.NEG)
            return s in S._OPSETS[cond.b]
        ts = frozenset(S._FLIP[t] for t in S._OPSETS[cond.b]) if flip else frozenset(S._OPSETS[cond.b])
        poss = path.sign_set(key, poly)
        if poss <= ts:
            return True
        if not (poss & ts):
            return False
        return None
    if cond.k == 'not':
        r = _try_eval(path, cond.a)
        return None if r is None else (not r)
    a, b = _try_eval(path, cond.a), _try_eval(path, cond.b)
    if cond.k == 'and':
        if a is False or b is False:
            return False
        return True if (a and b) else None
    if cond.k == 'or':
        if a is True or b is True:
            return True
        return False if (a is False and b is False) else None
    return None


def _sign_knowledge(path, e):
    """possible signs of a finite real expression according to the path (no fork)"""
    poss = set()
    for name, ts in ((S.NEG, '<'), (S.ZERO, '=='), (S.POS, '>')):
        r = _try_eval(path, SymBool('rel', sp.sympify(e), ts))
        if r is not False:
            poss.add(name)
    return frozenset(poss)


ATOM_REDUCE_BUDGET_S = [20.0]


def discharge(path, kind, payload, timeout_ms):
    """-> (status, backend, detail, seconds); status in proved|refuted|unknown"""
    t0 = time.time()
    if kind == 'cond' and isinstance(payload, tuple):
        goal, using = payload
        syms = P.cond_symbols(goal)
        for u in using:
            st, be, detail, _ = discharge(path, 'cond', u, timeout_ms)
            if st != 'proved':
                return st if st != 'refuted' else 'unknown', be, 'lemma %r not proved: %s' % (u, detail), time.time() - t0
            syms |= P.cond_symbols(u)
        st, info, _ = P.z3_prove(path, goal, timeout_ms, extra_hyps=using, only_syms=syms)
        if st == 'proved':
            return st, 'z3+lemmas', info, time.time() - t0
        payload = goal
    if kind == 'eq':
        a, b = payload
        if a.kind != S.FIN or b.kind != S.FIN:
            ok = a.kind == b.kind
            if ok:
                return 'proved', 'kind-evaluation', a.kind, time.time() - t0
            goal = False
        else:
            diff = a.e - b.e
            if diff.is_number and not diff.free_symbols:
                # closed evaluation: no free variables (floats in the code are exact rationals here)
                try:
                    dv = complex(diff.evalf(30))
                    sc = 1 + abs(complex(a.e.evalf(30))) + abs(complex(b.e.evalf(30)))
                    if abs(dv) <= 1e-12 * sc:
                        return 'proved', 'closed-evaluation', '|diff|=%.2e' % abs(dv), time.time() - t0
                    return 'refuted', 'closed-evaluation', 'difference %s' % dv, time.time() - t0
                except Exception:
                    pass
            if diff.has(sp.I):
                re_, im_ = sp.expand(diff, complex=True).as_real_imag()
                parts = [re_, im_]
            else:
                parts = [diff]
            eqs = path.atom_eqs + path.equalities()
            nonzero = [pl for (pl, sg) in path.signs.values() if S.ZERO not in sg]
            how = []
            allok = True
            for part in parts:
                # fast path: substitute r**2 -> radicand and let identical terms cancel (no common denominator)
                try:
                    q = part
                    ab_ = getattr(path, 'abstr', None)
                    if ab_:
                        for _ in range(4):
                            if not (q.free_symbols & set(ab_)):
                                break
                            q = q.xreplace(ab_)
                    for key_, (r_, e_) in path.sqrt_atoms.items():
                        if q.has(r_):
                            q = q.subs(r_ ** 2, e_)
                    if q == 0:
                        how.append('atom-rewriting')
                        continue
                    with P.time_limit(3):
                        z_ = sp.expand(q) == 0
                    if z_:
                        how.append('atom-rewriting')
                        continue
                except Exception:
                    pass
                try:
                    with P.time_limit(ATOM_REDUCE_BUDGET_S[0]):
                        red = P.atom_reduce(path, part)
                except Exception:
                    red = None
                if red is not None and red == 0:
                    how.append('atom-rewriting')
                    continue
                ok, h = P.groebner_prove(eqs, red if red is not None else part, nonzero)
                how.append(h)
                if not ok:
                    allok = False
                    break
            if allok:
                return 'proved', ('rewriting' if all(h == 'atom-rewriting' for h in how) else 'groebner'), ';'.join(how), time.time() - t0
            goal = S.s_and(*[SymBool.rel(pt, '==') for pt in parts])
            if goal is True:
                return 'proved', 'normal-form', '', time.time() - t0
            st, info, _ = P.z3_prove(path, goal, timeout_ms)
            return st, 'z3', info if st != 'unknown' else 'groebner: %s; z3: %s' % (how[-1], info), time.time() - t0
    else:
        goal = payload
    ev = _try_eval(path, goal) if isinstance(goal, (SymBool, bool)) else None
    if ev is True:
        return 'proved', 'path-evaluation', '', time.time() - t0
    if isinstance(goal, SymBool) and goal.k == 'rel' and goal.b == '==' and not getattr(path, '_in_eq', False):
        path._in_eq = True
        try:
            st_, be_, det_, _ = discharge(path, 'eq', (Sym(goal.a), Sym(0)), min(timeout_ms, 5000))
        finally:
            path._in_eq = False
        if st_ == 'proved':
            return st_, be_, det_, time.time() - t0
    # narrow slice first: only facts over the goal's own symbols
    if isinstance(goal, SymBool):
        st, info, _ = P.z3_prove(path, goal, min(timeout_ms, 3000), only_syms=P.cond_symbols(goal))
        if st == 'proved':
            return st, 'z3(sliced)', info, time.time() - t0
    # lazy feasibility: hyps /\ not goal
    st, info, _ = P.z3_prove(path, goal, timeout_ms)
    return st, 'z3', info, time.time() - t0


def run_symbolic(ct, tier):
    """all paths, all clauses -> dict clause id -> aggregated result"""
    timeout_ms = int(ct.opts.get('z3_ms', 20000 if tier == 'quick' else 120000))
    res = {}
    paths = 0
    errors = []
    solver_s = 0.0
    samples = []
    wd = set()
    assumed = set()
    import sys as _sys
    kmap = getattr(_sys.modules.get(getattr(ct.fn, '__module__', ''), None), 'KNOWN', {}) or {}
    known_full = {k for k, v in kmap.items() if v.get('role') == 'full'}
    for path, ctx, err in explore(ct, max_paths=ct.opts.get('max_paths', 600), ieee=ct.opts.get('ieee', False),
                                  prefix=ct.opts.get('prefix', ())):
        if err == 'infeasible':
            continue
        if path is None:
            errors.append(err)
            continue
        paths += 1
        for w in path.wd:
            wd.add('%s: %s' % (w[0], str(w[1])[:120]))
        for a in ctx.assumed:
            assumed.add(a)
        if err:
            # an exception on a symbolic path: is the path feasible at all?
            feas = P.z3_feasible(path, 5000)
            if feas != 'unsat':
                errors.append(err)
            continue
        for cid, kind, payload, note in ctx.goals:
            if kind == 'obs':
                continue
            r = res.setdefault(cid, {'paths': 0, 'proved': 0, 'backends': {}, 'failed': [], 'seconds': 0.0})
            r['paths'] += 1
            if cid in known_full:
                # the unsplit clause of an open known finding is expected to fail: a short budget (it is proved by
                # rewriting in well under a second once the defect is gone; a refutation only needs a model)
                gb, ab = P.GROEBNER_BUDGET_S[0], ATOM_REDUCE_BUDGET_S[0]
                P.GROEBNER_BUDGET_S[0], ATOM_REDUCE_BUDGET_S[0] = min(gb, 3.0), 3.0
                try:
                    st, be, detail, dt = discharge(path, kind, payload, min(timeout_ms, 8000))
                finally:
                    P.GROEBNER_BUDGET_S[0], ATOM_REDUCE_BUDGET_S[0] = gb, ab
            else:
                st, be, detail, dt = discharge(path, kind, payload, timeout_ms)
            solver_s += dt
            r['seconds'] += dt
            if st == 'proved':
                r['proved'] += 1
                r['backends'][be] = r['backends'].get(be, 0) + 1
                if len(samples) < 4 and be in ('groebner', 'z3') and kind in ('eq', 'cond'):
                    samples.append({'clause': cid, 'back_end': be, 'how': str(detail)[:120],
                                    'goal': _goal_text(kind, payload)[:400],
                                    'path_decisions': [t[1] for t in path.trace][:40]})
            else:
                r['failed'].append({'status': st, 'back_end': be, 'detail': detail if isinstance(detail, dict) else str(detail)[:600],
                                    'note': note, 'decisions': [t[1] for t in path.trace],
                                    'goal': _goal_text(kind, payload)[:600]})
    return {'clauses': res, 'paths': paths, 'errors': errors, 'solver_s': solver_s, 'samples': samples,
            'wd_assumed': sorted(wd), 'assumed': sorted(assumed)}


def _goal_text(kind, payload):
    if kind == 'eq':
        a, b = payload
        return '%s == %s' % (a.e if a.kind == S.FIN else a.kind, b.e if b.kind == S.FIN else b.kind)
    return repr(payload)


# -- concrete -------------------------------------------------------------------------------
def run_numeric(ct, draws=None, rng=None):
    """one concrete run on the real package -> (ctx, failures[list of clause ids], exception)"""
    ctx = Ctx('num', rng=rng, draws=draws)
    exc = None
    try:
        with np.errstate(all='ignore'):
            import warnings
            with warnings.catch_warnings():
                warnings.simplefilter('ignore')
                ct.fn(ctx)
    except Reject:
        return ctx, None, 'reject'
    except ClauseFail:
        pass
    except Exception as ex:
        exc = '%s: %s\n%s' % (type(ex).__name__, ex, traceback.format_exc(limit=6))
    fails = [(cid, note) for (cid, kind, ok, note) in ctx.goals if not ok]
    return ctx, fails, exc


class _ConcolicPath(S.Path):
    """a Path whose decisions are taken by evaluating the condition at a concrete point"""
    pass


def run_concolic(ct, draws, rng):
    """symbolic run steered by concrete draws -> (ctx, path) ; compares nothing by itself"""
    path = S.Path((), ieee=ct.opts.get('ieee', False))
    env = {}
    ctx = Ctx('concolic', rng=rng, draws=draws, path=path, env=env)
    path.env = env
    path.ctx = ctx
    S.set_path(path)
    _install_concolic(path, env, ctx)
    symnp.BUNDLE_MODE[0] = bool(ct.opts.get('bundle', False))
    err = None
    try:
        ct.fn(ctx)
    except Reject:
        err = 'reject'
    except ClauseFail:
        pass
    except (Unsupported, PathLimit) as ex:
        err = 'unsupported: %s' % ex
    except Infeasible as ex:
        err = 'infeasible: %s' % ex
    except Exception as ex:
        err = 'exception: %s: %s' % (type(ex).__name__, ex)
    finally:
        S.set_path(None)
        symnp.BUNDLE_MODE[0] = False
    return ctx, path, err


def _atom_values(path, env):
    """numeric values of atoms created so far (definitions evaluated at env); atoms may be defined over other atoms
    (the cosine of an arcsin, a root of a root): evaluated to a fixed point in dependency order"""
    for _round in range(6):
        pending = 0
        for key, (r, e) in path.sqrt_atoms.items():
            if r not in env:
                try:
                    v = num_eval(e, env)
                except KeyError:
                    pending += 1
                    continue
                env[r] = math.sqrt(v) if v >= 0 else float('nan')
        for key, (c, s, base) in path.trig_atoms.items():
            if c not in env:
                try:
                    v = num_eval(base, env)
                except KeyError:
                    pending += 1
                    continue
                env[c], env[s] = math.cos(v), math.sin(v)
        for key, (at, name, args) in path.fun_atoms.items():
            if at not in env:
                try:
                    vs = [num_eval(a, env) for a in args]
                except KeyError:
                    pending += 1
                    continue
                f = {'exp': math.exp, 'log': math.log, 'arccos': math.acos, 'arcsin': math.asin,
                     'arctan': math.atan, 'pow': math.pow}[name]
                try:
                    env[at] = f(*vs)
                except (ValueError, OverflowError):
                    env[at] = float('nan')
        if not pending:
            break


def num_eval(e, env):
    e = sp.sympify(e)
    if e.is_number:
        return complex(e) if e.has(sp.I) else float(e)
    syms = e.free_symbols
    if S.PI in syms and S.PI not in env:
        env[S.PI] = math.pi
    missing = [s for s in syms if s not in env]
    if missing:
        raise KeyError('no concrete value for %s' % missing)
    v = e.xreplace({s: sp.Float(env[s], 30) for s in syms}).evalf(20)
    return complex(v) if v.has(sp.I) else float(v)


def _install_concolic(path, env, ctx):
    def choose(label, arity=2):
        raise AssertionError('concolic path must not consult the oracle')
    orig_narrow = path.narrow

    def sign_set(key, poly):
        _atom_values(path, env)
        try:
            v = num_eval(poly, env)
        except KeyError:
            return S.Path.sign_set(path, key, poly)
        scale = 1.0
        try:
            scale = max(1.0, max(abs(num_eval(t, env)) for t in sp.Add.make_args(sp.expand(poly))))
        except Exception:
            pass
        if v != v:
            return S.ALL3
        if abs(v) <= 1e-9 * scale:
            if abs(v) > 0:
                ctx.near_zero = True
            return frozenset((S.ZERO,))
        return frozenset((S.POS,)) if v > 0 else frozenset((S.NEG,))
    def concolic_sign(e):
        _atom_values(path, env)
        try:
            v = num_eval(e, env)
        except KeyError:
            return S.ZERO
        if isinstance(v, complex):
            v = v.real
        if v != v:
            return S.ZERO
        mag = 1.0
        try:
            terms = sp.Add.make_args(e)
            if len(terms) > 1:
                mag = max(1.0, max(abs(complex(num_eval(t, env))) for t in terms[:40]))
        except Exception:
            pass
        if abs(v) <= 1e-9 * mag:
            if abs(v) > 0:
                ctx.near_zero = True
            return S.ZERO
        return S.POS if v > 0 else S.NEG
    path.sign_set = sign_set
    path.choose = choose
    path.concolic_sign = concolic_sign


# ------------------------------------------------------------------------------------------
def check_contract(ct, tier, seed, k_samples):
    """full treatment of one contract; returns a JSON-able dict"""
    t0 = time.time()
    out = {'contract': ct.name, 'functions': ct.functions, 'props': ct.props}
    P.GROEBNER_BUDGET_S[0] = float(ct.opts.get('groebner_s', 25.0 if tier == 'quick' else 120.0))
    rng = random.Random(_seed_for(ct.name, seed))
    accepted = rejected = 0
    num_ok = {}
    num_fail = []
    mismatches = []
    inhabited = set()
    tries = 0
    concolic_ok = 0
    samples = []
    stub_exceeded = []
    if ct.opts.get('numeric_share') is False:
        k_samples = 0
    while accepted < k_samples and tries < k_samples * 40:
        tries += 1
        ctx, fails, exc = run_numeric(ct, rng=rng)
        if exc == 'reject':
            rejected += 1
            continue
        accepted += 1
        if len(samples) < 2:
            samples.append({k: (v if isinstance(v, (int, float, str)) else repr(v)) for k, v in ctx.draws.items()})
        if exc:
            if 'StubInterfaceExceeded' in exc:
                # the code under contract reached for something the contract's modular stand-in of its environment does not
                # model: the contract cannot decide this code (undecided, exit 2) -- not a violation of the property
                stub_exceeded.append(exc.splitlines()[0][:400])
                continue
            num_fail.append({'clause': ct.opts.get('raise_clause', ct.name + '.no_exception'),
                             'draws': _jsonable(ctx.draws), 'exception': exc})
            continue
        for (cid_, kind_, ok_, note_) in ctx.goals:
            if ok_:
                num_ok[cid_] = num_ok.get(cid_, 0) + 1
        for cid, note in fails:
            num_fail.append({'clause': cid, 'draws': _jsonable(ctx.draws), 'note': note,
                             'observed': [repr(x) for x in ctx.obs.get(cid, [])][:4]})
        if fails:
            continue
        # encoder cross-check on the same input
        if ct.opts.get('concolic', True) and not ct.opts.get('numeric_only') and concolic_ok + len(mismatches) < ct.opts.get('concolic_n', 5 if tier == 'quick' else 50):
            c2, path, err = run_concolic(ct, dict(ctx.draws), rng)
            if err is None:
                inhabited.add(tuple(sorted((k, tuple(sorted(v[1]))) for k, v in path.signs.items()))[:0] or
                              tuple(t[1] for t in path.trace))
                _atom_values(path, c2.env)
                ok_all = True
                per = {}
                for cid, kind, payload, note in c2.goals:
                    if kind in ('eq', 'obs'):
                        per.setdefault(cid, []).append(payload)
                for cid, plist in per.items():
                    realvals = ctx.obs.get(cid, [])
                    for (a, b), rv in zip(plist, realvals):
                        for symv, conc in ((a, rv[0]), (b, rv[1])):
                            if symv.kind != S.FIN:
                                okk = (symv.kind == S.NAN and math.isnan(conc.real)) or \
                                      (symv.kind == S.PINF and conc.real == float('inf')) or \
                                      (symv.kind == S.NINF and conc.real == float('-inf'))
                            else:
                                try:
                                    sv = complex(num_eval(symv.e, c2.env))
                                except Exception as ex:
                                    okk = True
                                    sv = None
                                else:
                                    okk = (abs(sv - conc) <= 1e-6 * (1 + abs(sv) + abs(conc))) or \
                                          (math.isnan(conc.real) and math.isnan(sv.real))
                            if not okk and not c2.near_zero:
                                ok_all = False
                                mismatches.append({'clause': cid, 'draws': _jsonable(ctx.draws),
                                                   'symbolic': repr(symv), 'real': repr(conc)})
                if ok_all:
                    concolic_ok += 1
            elif err.startswith('exception'):
                mismatches.append({'clause': ct.name, 'draws': _jsonable(ctx.draws), 'symbolic': err, 'real': 'no exception'})
    if ct.opts.get('numeric_only'):
        # bounded stand-in: the contract is only evaluated on the real code (K concrete inputs); never counted as proved
        cl = {}
        for cid, n_ok in num_ok.items():
            cl[cid] = {'paths': n_ok, 'proved': n_ok, 'backends': {'runtime': n_ok}, 'failed': [], 'seconds': 0.0, 'bounded': True}
        out['symbolic'] = {'clauses': cl, 'paths': 0, 'errors': [], 'solver_s': 0.0, 'samples': [], 'wd_assumed': [], 'assumed': []}
    elif num_fail and not ct.opts.get('always_symbolic'):
        out['symbolic'] = {'clauses': {}, 'paths': 0, 'errors': [], 'solver_s': 0.0, 'samples': [],
                           'wd_assumed': [], 'assumed': [], 'skipped': 'concrete failure on the real code'}
    else:
        out['symbolic'] = run_symbolic(ct, tier)
    if stub_exceeded:
        out['symbolic'] = {'clauses': {}, 'paths': 0, 'errors': ['stand-in interface exceeded: ' + stub_exceeded[0]], 'solver_s': 0.0, 'samples': [],
                           'wd_assumed': [], 'assumed': []}
    out['numeric'] = {'accepted': accepted, 'rejected': rejected, 'failures': num_fail[:10],
                      'concolic_agree': concolic_ok, 'encoder_mismatches': mismatches[:5],
                      'samples': samples}
    out['wall_s'] = time.time() - t0
    return out


def _jsonable(d):
    out = {}
    for k, v in d.items():
        if isinstance(v, (int, float, str, bool)) or v is None:
            out[k] = v
        elif isinstance(v, (list, tuple)):
            out[k] = [float(x) if isinstance(x, (int, float)) else repr(x) for x in v]
        else:
            out[k] = repr(v)
    return out
