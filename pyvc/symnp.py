"""The `np` that the symbolic twin of optiland sees.

Every array is an object-dtype ndarray subclass (VArr) whose elements are python numbers or Sym
values; NumPy itself supplies broadcasting, in-place vs rebinding semantics, views, shapes, masks
and indexing (comparison ufuncs on object arrays ask each element for its truth value, which is
where symbolic conditions consult the path's decision oracle).  Only the element-level
mathematics is replaced.  Anything not overridden here falls through to the installed NumPy; if
a symbolic element reaches a NumPy routine that cannot handle it, Unsupported/TypeError is
raised and the obligation is UNDECIDED -- it is never silently skipped.
"""
import builtins
import numbers

import numpy as _np
import sympy as _sp

from . import sym as S
from .sym import Sym, SymBool, Unsupported

_real_np = _np
pi = Sym(S.PI)      # exact pi: np.pi is modelled as the real number, not its float approximation
inf = _np.inf
nan = _np.nan
e = _np.e
newaxis = _np.newaxis
ndarray = _np.ndarray
float64 = _np.float64
complex128 = _np.complex128
int64 = _np.int64
bool_ = _np.bool_
number = _np.number
integer = _np.integer
floating = _np.floating
linalg = None   # set below
fft = None
random = _np.random

BUNDLE_MODE = [False]


class VArr(_np.ndarray):
    """object ndarray with a declared dtype tag"""
    __array_priority__ = 100

    def __array_finalize__(self, obj):
        self.tag = getattr(obj, 'tag', 'float')

    def astype(self, dtype, *a, **k):
        if dtype in (float, s_float, _np.float64, 'float', 'float64', complex, _np.complex128, object, int):
            if dtype is int and not _has_sym(self):
                return wrap(_np.asarray(self.view(_np.ndarray), dtype=object).astype(int))
            r = self.copy()
            r.tag = 'complex' if dtype in (complex, _np.complex128) else 'float'
            return r
        return wrap(_np.ndarray.astype(self.view(_np.ndarray), dtype, *a, **k))

    def sum(self, *a, **k):
        return sum(self, *a, **k)

    def mean(self, *a, **k):
        return mean(self, *a, **k)

    def max(self, *a, **k):
        return max(self, *a, **k)

    def min(self, *a, **k):
        return min(self, *a, **k)

    def any(self, *a, **k):
        return any(self, *a, **k)

    def all(self, *a, **k):
        return all(self, *a, **k)

    def conj(self):
        return conj(self)
    conjugate = conj

    @property
    def real(self):
        return real(self)

    @property
    def imag(self):
        return imag(self)

    @property
    def T(self):
        return wrap(self.view(_np.ndarray).T)


def _has_sym(a):
    if isinstance(a, (Sym, SymBool)) or hasattr(a, '_pyvc_jet'):
        return True
    if isinstance(a, _np.ndarray):
        if a.dtype != object:
            return False
        for x in a.flat:
            if isinstance(x, (Sym, SymBool)) or hasattr(x, '_pyvc_jet'):
                return True
        return False
    if isinstance(a, (list, tuple)):
        return builtins.any(_has_sym(x) for x in a)
    return False


def wrap(a):
    """ndarray -> VArr (object dtype)"""
    if isinstance(a, VArr):
        return a
    if isinstance(a, _np.ndarray):
        tag = 'float'
        if a.dtype == bool:
            return a            # boolean masks stay native
        if a.dtype.kind in 'iu':
            return a            # index arrays stay native
        if a.dtype.kind == 'c':
            tag = 'complex'
        if a.dtype.kind in 'US':
            return a
        o = a.astype(object) if a.dtype != object else a
        v = o.view(VArr)
        v.tag = tag
        return v
    return a


def unwrap(a):
    """fully concrete VArr -> native float/complex ndarray (for NumPy routines without object loops)"""
    if isinstance(a, VArr):
        if _has_sym(a):
            return a
        base = a.view(_np.ndarray)
        try:
            if a.tag == 'complex' or builtins.any(isinstance(x, complex) for x in base.flat):
                return base.astype(complex)
            return base.astype(float)
        except (TypeError, ValueError):
            return base
    if isinstance(a, Sym) and a.is_number:
        return float(a) if not a.e.has(_sp.I) else complex(a.e)
    if isinstance(a, (list, tuple)):
        return type(a)(unwrap(x) for x in a)
    return a


def _guard_reduction(a, name):
    if BUNDLE_MODE[0] and isinstance(a, _np.ndarray) and a.size == 1 and _has_sym(a):
        raise Unsupported('reduction %s over a ray bundle in an element-wise contract' % name)


# ---- creation ----------------------------------------------------------------------------
def array(obj, dtype=None, *a, **k):
    if isinstance(obj, Sym):
        r = _np.empty((), dtype=object)
        r[()] = obj
        return wrap(r)
    if dtype in (float, s_float, _np.float64, complex, _np.complex128) and _has_sym(obj):
        r = _np.array(obj, dtype=object)
        return wrap(r)
    if dtype in (float, s_float, _np.float64, complex, _np.complex128, None):
        if dtype is s_float:
            dtype = float
        try:
            r = _np.array(obj, dtype, *a, **k) if dtype is not None else _np.array(obj, *a, **k)
        except (TypeError, ValueError, Unsupported):
            r = _np.array(obj, dtype=object)
        return wrap(r)
    return wrap(_np.array(obj, dtype, *a, **k))


def asarray(obj, dtype=None, *a, **k):
    if isinstance(obj, VArr) and dtype in (None, float, s_float):
        return obj
    return array(obj, dtype)


def _mk(fn):
    def f(*a, **k):
        return wrap(fn(*[unwrap(x) for x in a], **k))
    f.__name__ = fn.__name__
    return f


zeros = _mk(_np.zeros)
ones = _mk(_np.ones)
empty = _mk(_np.empty)
eye = _mk(_np.eye)
arange = _mk(_np.arange)


def full(shape, fill_value, dtype=None, **k):
    r = _np.empty(shape, dtype=object)
    r[...] = fill_value
    return wrap(r)


def zeros_like(a, dtype=None, **k):
    if isinstance(a, _np.ndarray):
        r = _np.empty(a.shape, dtype=object)
        r[...] = 0.0
        return wrap(r)
    return 0.0 if isinstance(a, (Sym, float, int)) else wrap(_np.zeros_like(a))


def ones_like(a, dtype=None, **k):
    if isinstance(a, _np.ndarray):
        r = _np.empty(a.shape, dtype=object)
        r[...] = 1.0
        return wrap(r)
    return 1.0


def full_like(a, fill_value, dtype=None, **k):
    if isinstance(a, _np.ndarray):
        r = _np.empty(a.shape, dtype=object)
        r[...] = fill_value
        return wrap(r)
    return fill_value


def empty_like(a, **k):
    return zeros_like(a)


def copy(a, **k):
    if isinstance(a, _np.ndarray):
        return wrap(_np.array(a, copy=True))
    return wrap(_np.array(a))


def atleast_1d(*arys):
    res = []
    for a in arys:
        if isinstance(a, Sym):
            r = _np.empty((1,), dtype=object)
            r[0] = a
            res.append(wrap(r))
        else:
            res.append(wrap(_np.atleast_1d(a)))
    return res[0] if len(res) == 1 else res


def linspace(start, stop, num=50, endpoint=True, **k):
    if _has_sym(start) or _has_sym(stop):
        n = int(num)
        div = (n - 1) if endpoint else n
        r = _np.empty(n, dtype=object)
        for i in range(n):
            r[i] = start + (stop - start) * i / div if div else start
        return wrap(r)
    return wrap(_np.linspace(unwrap(start), unwrap(stop), int(num), endpoint=endpoint, **k))


# ---- element-wise mathematics -------------------------------------------------------------
def _jet_call(x, name):
    if name in ('abs', 'absolute'):
        return x.__abs__()
    return getattr(x, name)()


def _elementwise(fsym, fnum, name):
    uf = _np.frompyfunc(lambda x: fsym(x) if isinstance(x, Sym) else (_jet_call(x, name) if hasattr(x, '_pyvc_jet')
                                                                      else _pynum(fnum, x)), 1, 1)

    def f(x, *a, **k):
        if isinstance(x, Sym):
            return fsym(x)
        if hasattr(x, '_pyvc_jet'):
            return _jet_call(x, name)
        if isinstance(x, _np.ndarray):
            if x.dtype == object:
                r = uf(x)
                return wrap(r) if isinstance(r, _np.ndarray) else r
            return wrap(fnum(x))
        if isinstance(x, (list, tuple)):
            return f(array(x))
        return fnum(x)
    f.__name__ = name
    return f


def _pynum(fnum, x):
    with _np.errstate(all='ignore'):
        r = fnum(x)
    if isinstance(r, _np.generic):
        return r.item()
    return r


sqrt = _elementwise(S.s_sqrt, _np.sqrt, 'sqrt')
sin = _elementwise(S.s_sin, _np.sin, 'sin')
cos = _elementwise(S.s_cos, _np.cos, 'cos')
tan = _elementwise(S.s_tan, _np.tan, 'tan')
exp = _elementwise(S.s_exp, _np.exp, 'exp')
log = _elementwise(lambda x: S.s_fun('log', x), _np.log, 'log')
arccos = _elementwise(S.s_arccos, _np.arccos, 'arccos')
arcsin = _elementwise(lambda x: S.s_fun('arcsin', x), _np.arcsin, 'arcsin')
arctan = _elementwise(lambda x: S.s_fun('arctan', x), _np.arctan, 'arctan')
abs = _elementwise(S.s_abs, _np.abs, 'abs')
absolute = abs
sign = _elementwise(S.s_sign, _np.sign, 'sign')
radians = _elementwise(lambda x: x * S.PI / 180, _np.radians, 'radians')
deg2rad = radians
degrees = _elementwise(lambda x: x * 180 / S.PI, _np.degrees, 'degrees')
rad2deg = degrees
isnan = _elementwise(lambda x: x.kind == S.NAN, _np.isnan, 'isnan')
isinf = _elementwise(lambda x: x.kind in (S.PINF, S.NINF), _np.isinf, 'isinf')
isfinite = _elementwise(lambda x: x.kind == S.FIN, _np.isfinite, 'isfinite')
real = _elementwise(lambda x: x.real, _np.real, 'real')
imag = _elementwise(lambda x: x.imag, _np.imag, 'imag')
conj = _elementwise(lambda x: x.conjugate(), _np.conj, 'conj')
conjugate = conj
square = _elementwise(lambda x: x * x, _np.square, 'square')


def _boolify(r):
    if isinstance(r, _np.ndarray) and r.dtype == object:
        return _np.array([S._truth(x) for x in r.flat], dtype=bool).reshape(r.shape)
    if isinstance(r, SymBool):
        return r
    return r


def isclose(a, b, rtol=1e-05, atol=1e-08, equal_nan=False):
    if not (_has_sym(a) or _has_sym(b)):
        return _np.isclose(unwrap(a), unwrap(b), rtol=rtol, atol=atol, equal_nan=equal_nan)

    def one(x, y):
        d = x - y
        return S._truth(abs(d) <= atol + rtol * abs(y))
    if isinstance(a, _np.ndarray) or isinstance(b, _np.ndarray):
        f = _np.frompyfunc(one, 2, 1)
        return f(a, b).astype(bool)
    return one(a, b)


def allclose(a, b, rtol=1e-05, atol=1e-08, equal_nan=False):
    return _np.all(isclose(a, b, rtol, atol, equal_nan))


def isscalar(x):
    return isinstance(x, Sym) or _np.isscalar(x)


def where(cond, *args):
    if not args:
        return _np.where(_boolify(cond))
    a, b = args
    if isinstance(cond, SymBool) or isinstance(cond, bool):
        return a if S._truth(cond) else b
    cond = _boolify(_np.asarray(cond))
    if _has_sym(a) or _has_sym(b) or isinstance(a, VArr) or isinstance(b, VArr):
        a_ = _np.asarray(a, dtype=object)
        b_ = _np.asarray(b, dtype=object)
        return wrap(_np.where(cond, a_, b_))
    return wrap(_np.where(cond, a, b))


def _binary_ufunc(op, name):
    """np.divide / multiply / add / subtract incl. the ``out=`` / ``where=`` form: where the mask is false the result keeps ``out``"""
    def f(a, b, out=None, where=True, **k):
        if not (_has_sym(a) or _has_sym(b) or _has_sym(where) or isinstance(where, SymBool)):
            kw = dict(k)
            if out is not None:
                kw['out'] = unwrap(out)
            if where is not True:
                kw['where'] = unwrap(where)
            return _post(getattr(_np, name)(unwrap(a), unwrap(b), **kw))
        if where is True:
            return op(a, b)
        if isinstance(where, SymBool) or isinstance(where, (bool, _np.bool_)):
            if S._truth(where):
                return op(a, b)
            if out is None:
                raise S.Unsupported('np.%s(where=False) without out= leaves the result uninitialised' % name)
            return out
        if out is None:
            raise S.Unsupported('np.%s(where=...) without out= leaves masked entries uninitialised' % name)
        cond = _boolify(_np.asarray(where))
        a_, b_, o_ = _np.broadcast_arrays(_np.asarray(a, dtype=object), _np.asarray(b, dtype=object), _np.asarray(out, dtype=object))[:3]
        cond = _np.broadcast_to(cond, a_.shape)
        res = _np.empty(a_.shape, dtype=object)
        for ix in _np.ndindex(a_.shape):
            res[ix] = op(a_[ix], b_[ix]) if cond[ix] else o_[ix]
        return wrap(res)
    f.__name__ = name
    return f


divide = _binary_ufunc(lambda x, y: x / y, 'divide')
true_divide = _binary_ufunc(lambda x, y: x / y, 'true_divide')
multiply = _binary_ufunc(lambda x, y: x * y, 'multiply')
add = _binary_ufunc(lambda x, y: x + y, 'add')
subtract = _binary_ufunc(lambda x, y: x - y, 'subtract')


def logical_and(a, b):
    if isinstance(a, _np.ndarray) or isinstance(b, _np.ndarray):
        return _np.logical_and(_boolify(_np.asarray(a)), _boolify(_np.asarray(b)))
    return S.s_and(a, b)


def logical_or(a, b):
    if isinstance(a, _np.ndarray) or isinstance(b, _np.ndarray):
        return _np.logical_or(_boolify(_np.asarray(a)), _boolify(_np.asarray(b)))
    return S.s_or(a, b)


def logical_not(a):
    if isinstance(a, _np.ndarray):
        return _np.logical_not(_boolify(a))
    return S.s_not(a)


def clip(a, lo, hi):
    def one(x):
        if lo is not None and S._truth(x < lo):
            return lo
        if hi is not None and S._truth(x > hi):
            return hi
        return x
    if isinstance(a, _np.ndarray):
        return wrap(_np.frompyfunc(one, 1, 1)(a.astype(object)))
    return one(a)


def maximum(a, b):
    f = _np.frompyfunc(lambda x, y: x if S._truth(x >= y) else y, 2, 1)
    r = f(a, b)
    return wrap(r) if isinstance(r, _np.ndarray) else r


def minimum(a, b):
    f = _np.frompyfunc(lambda x, y: x if S._truth(x <= y) else y, 2, 1)
    r = f(a, b)
    return wrap(r) if isinstance(r, _np.ndarray) else r


# ---- reductions ---------------------------------------------------------------------------
def _red(fn, name):
    def f(a, *args, **k):
        _guard_reduction(a, name)
        if isinstance(a, (list, tuple)):
            a = array(a)
        if isinstance(a, VArr) and not _has_sym(a):
            r = fn(unwrap(a), *args, **k)
            return wrap(r) if isinstance(r, _np.ndarray) else (r.item() if isinstance(r, _np.generic) else r)
        if isinstance(a, _np.ndarray) and a.dtype == object:
            r = fn(a.view(_np.ndarray), *args, **k)
            return wrap(r) if isinstance(r, _np.ndarray) else r
        r = fn(a, *args, **k)
        return wrap(r) if isinstance(r, _np.ndarray) else r
    f.__name__ = name
    return f


sum = _red(_np.sum, 'sum')
max = _red(_np.max, 'max')
min = _red(_np.min, 'min')
amax = max
amin = min
prod = _red(_np.prod, 'prod')
cumsum = _red(_np.cumsum, 'cumsum')


def mean(a, axis=None, **k):
    _guard_reduction(a, 'mean')
    a = asarray(a)
    if isinstance(a, VArr) and not _has_sym(a):
        r = _np.mean(unwrap(a), axis=axis, **k)
        return wrap(r) if isinstance(r, _np.ndarray) else r.item()
    if axis is None:
        return _np.sum(a.view(_np.ndarray)) / a.size
    return wrap(_np.sum(a.view(_np.ndarray), axis=axis) / a.shape[axis])


def any(a, *args, **k):
    _guard_reduction(a, 'any')
    return _np.any(_boolify(_np.asarray(a)), *args, **k)


def all(a, *args, **k):
    _guard_reduction(a, 'all')
    return _np.all(_boolify(_np.asarray(a)), *args, **k)


def nansum(a, *args, **k):
    _guard_reduction(a, 'nansum')
    if not _has_sym(a):
        return _np.nansum(unwrap(asarray(a)), *args, **k)
    tot = 0.0
    for x in _np.asarray(a, dtype=object).flat:
        if isinstance(x, Sym) and x.kind == S.NAN:
            continue
        if isinstance(x, float) and x != x:
            continue
        tot = tot + x
    return tot


def dot(a, b):
    return wrap(_np.dot(_np.asarray(a, dtype=object), _np.asarray(b, dtype=object))) \
        if (_has_sym(a) or _has_sym(b)) else _post(_np.dot(unwrap(a), unwrap(b)))


def matmul(a, b):
    if _has_sym(a) or _has_sym(b):
        return wrap(_np.matmul(_np.asarray(a, dtype=object), _np.asarray(b, dtype=object)))
    return _post(_np.matmul(unwrap(a), unwrap(b)))


def cross(a, b, **k):
    if _has_sym(a) or _has_sym(b):
        a = _np.asarray(a, dtype=object)
        b = _np.asarray(b, dtype=object)
        if a.ndim == 1 and b.ndim == 1 and a.shape[0] == 3:
            return wrap(_np.array([a[1] * b[2] - a[2] * b[1], a[2] * b[0] - a[0] * b[2],
                                   a[0] * b[1] - a[1] * b[0]], dtype=object))
        ax = k.get('axis', -1)
        a_ = _np.moveaxis(a, ax, 0)
        b_ = _np.moveaxis(b, ax, 0)
        r = _np.array([a_[1] * b_[2] - a_[2] * b_[1], a_[2] * b_[0] - a_[0] * b_[2],
                       a_[0] * b_[1] - a_[1] * b_[0]], dtype=object)
        return wrap(_np.moveaxis(r, 0, ax))
    return _post(_np.cross(unwrap(a), unwrap(b), **k))


def einsum(subs, *ops, **k):
    if builtins.any(_has_sym(o) for o in ops):
        return wrap(_np.einsum(subs, *[_np.asarray(o, dtype=object) for o in ops], **k))
    return _post(_np.einsum(subs, *[unwrap(o) for o in ops], **k))


def interp(x, xp, fp, **k):
    if _has_sym(xp) or _has_sym(fp):
        raise Unsupported('np.interp with symbolic table')
    if not _has_sym(x):
        return _post(_np.interp(unwrap(x), unwrap(xp), unwrap(fp), **k))
    xp_ = _np.asarray(unwrap(xp), dtype=float)
    fp_ = _np.asarray(unwrap(fp), dtype=float)

    def one(v):
        if not isinstance(v, Sym) and not hasattr(v, '_pyvc_jet'):
            return float(_np.interp(v, xp_, fp_))
        # piece-wise linear definition; clamps outside the table
        if S._truth(v <= xp_[0]):
            return float(fp_[0])
        for i in range(len(xp_) - 1):
            if S._truth(v <= xp_[i + 1]):
                return fp_[i] + (v - xp_[i]) * (S.to_expr(float(fp_[i + 1])) - S.to_expr(float(fp_[i]))) \
                    / (S.to_expr(float(xp_[i + 1])) - S.to_expr(float(xp_[i])))
        return float(fp_[-1])
    if isinstance(x, _np.ndarray):
        return wrap(_np.frompyfunc(one, 1, 1)(x))
    return one(x)


class _Linalg:
    def norm(self, a, *args, **k):
        if _has_sym(a):
            _guard_reduction(a, 'linalg.norm')
            a_ = _np.asarray(a, dtype=object)
            if args or k:
                axis = k.get('axis', args[1] if len(args) > 1 else None)
                if axis is not None:
                    return sqrt(wrap(_np.sum(a_ * a_, axis=axis)))
            tot = 0
            for x in a_.flat:
                tot = tot + x * x
            return sqrt(tot)
        return _post(_np.linalg.norm(unwrap(a), *args, **k))

    def __getattr__(self, name):
        return _fall(getattr(_np.linalg, name))


def _dft_matrix(n, inverse=False):
    """exact DFT matrix entries exp(-+2 pi i j k / n) (symbolic numbers over sqrt/trig atoms)"""
    from sympy import Rational as _R
    W = _np.empty((n, n), dtype=object)
    for j in range(n):
        for k in range(n):
            ang = Sym(S.PI * _R(2 * ((j * k) % n), n))
            c_, s_ = S.s_cos(ang), S.s_sin(ang)
            W[j, k] = c_ + Sym(_sp.I) * s_ * (1 if inverse else -1)
    return W


class _FFT:
    """np.fft on symbolic data is the discrete Fourier transform *by definition* (library axiom);
    concrete data go to NumPy"""

    def fft2(self, a, *args, **k):
        if not _has_sym(a):
            return _post(_np.fft.fft2(unwrap(a), *args, **k))
        a = _np.asarray(a, dtype=object)
        n0, n1 = a.shape
        W0, W1 = _dft_matrix(n0), _dft_matrix(n1)
        return wrap(_np.dot(_np.dot(W0, a), W1))

    def fftshift(self, a, *args, **k):
        return wrap(_np.fft.fftshift(_np.asarray(a, dtype=object) if _has_sym(a) else unwrap(a), *args, **k))

    def ifftshift(self, a, *args, **k):
        return wrap(_np.fft.ifftshift(_np.asarray(a, dtype=object) if _has_sym(a) else unwrap(a), *args, **k))

    def __getattr__(self, name):
        return _fall(getattr(_np.fft, name))


linalg = _Linalg()
fft = _FFT()


def _post(r):
    if isinstance(r, _np.ndarray):
        return wrap(r)
    if isinstance(r, tuple):
        return tuple(_post(x) for x in r)
    if isinstance(r, list):
        return [_post(x) for x in r]
    return r


def _fall(fn):
    def f(*a, **k):
        a2 = [unwrap(x) for x in a]
        k2 = {kk: unwrap(v) for kk, v in k.items()}
        return _post(fn(*a2, **k2))
    f.__name__ = getattr(fn, '__name__', 'np_fn')
    return f


def pad(a, pad_width, mode='constant', constant_values=0, **kw):
    if not _has_sym(a):
        return _post(_np.pad(unwrap(a), pad_width, mode=mode, constant_values=unwrap(constant_values), **kw))
    return wrap(_np.pad(_np.asarray(a, dtype=object), pad_width, mode=mode, constant_values=constant_values, **kw))


def vectorize(pyfunc, **kw):
    """np.vectorize without output-dtype inference (the outputs may be symbolic)"""
    def f(*args):
        arrs = [_np.asarray(a, dtype=object) for a in args]
        b = _np.broadcast(*arrs)
        out = _np.empty(b.shape, dtype=object)
        out.reshape(-1)[:] = [pyfunc(*vals) for vals in b]
        return wrap(out)
    return f


_PASSTHROUGH_ATTRS = {'errstate', 'seterr', 'dtype', 'iinfo', 'finfo', 'generic',
                      'printoptions', 'set_printoptions', 'testing'}


def __getattr__(name):
    obj = getattr(_np, name)
    if name in _PASSTHROUGH_ATTRS or not callable(obj) or isinstance(obj, type):
        return obj
    return _fall(obj)


# ---- builtins shadowed inside twin modules ---------------------------------------------------
def _float_impl(x=0.0):
    """model of builtins.float.  On the installed NumPy (probed at start-up, probes.py)
    float(ndarray) succeeds only for ndim == 0."""
    if isinstance(x, Sym):
        return x
    if isinstance(x, _np.ndarray):
        if x.ndim == 0:
            return _float_impl(x[()])
        if FLOAT_OF_SIZE1_ARRAY_RAISES[0] or x.size != 1:
            raise TypeError('only 0-dimensional arrays can be converted to Python scalars')
        return _float_impl(x.flat[0])
    return builtins.float(x)


class _FloatMeta(type):
    def __instancecheck__(cls, obj):
        return builtins.isinstance(obj, builtins.float) or type(obj) is Sym

    def __call__(cls, x=0.0):
        return _float_impl(x)

    def __eq__(cls, other):
        return other is cls or other is builtins.float

    def __hash__(cls):
        return hash(builtins.float)


class s_float(metaclass=_FloatMeta):
    """what the name `float` is bound to inside twin modules"""


FLOAT_OF_SIZE1_ARRAY_RAISES = [True]


def s_isinstance(obj, cls):
    if type(obj) is Sym or hasattr(obj, '_pyvc_jet'):
        classes = cls if builtins.isinstance(cls, tuple) else (cls,)
        for c in classes:
            if c in (float, numbers.Number, numbers.Real, _np.floating, _np.number, Sym, object):
                return True
            if c is complex and obj.e.has(_sp.I):
                return True
        return False
    return builtins.isinstance(obj, cls)


def s_abs(x):
    return builtins.abs(x)
