"""Jets: Taylor polynomials in one parameter eps truncated at a fixed order, with Sym coefficients
(DESIGN S9).  The real code is executed over jets to obtain *exact* low-order coefficients of the map
eps -> result(eps); branch decisions (comparisons, sign, abs) are taken on the leading non-zero coefficient,
i.e. "for all sufficiently small eps > 0", which is the semantics of the limit statement of C05.
"""
import numpy as _np
import sympy as sp

from . import sym as S
from .sym import Sym

ORDER = [2]


def _z():
    return Sym(sp.S.Zero)


class Jet:
    _pyvc_jet = True

    def __init__(self, coeffs):
        cs = [S.lift(c) for c in coeffs]
        while len(cs) < ORDER[0] + 1:
            cs.append(_z())
        self.c = [Sym(sp.expand(sp.together(x.e))) if x.kind == S.FIN and x.e.count_ops() < 400 else x for x in cs[:ORDER[0] + 1]]

    # ---- helpers ----
    @staticmethod
    def lift(x):
        if isinstance(x, Jet):
            return x
        return Jet([x])

    def lead(self):
        """(index, coefficient) of the first coefficient that is not identically zero on this path"""
        for i, c in enumerate(self.c):
            if c.kind != S.FIN:
                return i, c
            if c.e.is_number:
                if c.e != 0:
                    return i, c
                continue
            if S._truth(S.SymBool.rel(c.e, '!=')):
                return i, c
        return None, _z()

    def __repr__(self):
        return 'Jet(%s)' % ', '.join(str(x.e) for x in self.c)

    ndim = 0
    shape = ()
    size = 1

    def copy(self):
        return self

    def astype(self, *a, **k):
        return self

    # ---- arithmetic ----
    def _nonfinite(self, o):
        return isinstance(o, Sym) and o.kind != S.FIN

    def __add__(self, o):
        if isinstance(o, _np.ndarray):
            return NotImplemented
        if self._nonfinite(o):
            return o
        if isinstance(o, float) and (o != o or o in (float('inf'), float('-inf'))):
            return S.lift(o)
        o = Jet.lift(o)
        return Jet([a + b for a, b in zip(self.c, o.c)])
    __radd__ = __add__

    def __neg__(self):
        return Jet([-a for a in self.c])

    def __pos__(self):
        return self

    def __sub__(self, o):
        if isinstance(o, _np.ndarray):
            return NotImplemented
        if self._nonfinite(o):
            return -o
        return self + (-Jet.lift(o))

    def __rsub__(self, o):
        if self._nonfinite(o):
            return o
        return Jet.lift(o) + (-self)

    def __mul__(self, o):
        if isinstance(o, _np.ndarray):
            return NotImplemented
        if self._nonfinite(o):
            i, l = self.lead()
            if i is None:
                return Sym(0, S.NAN)
            sg = S.sign3(l.e)
            return o if sg > 0 else -o
        o = Jet.lift(o)
        n = ORDER[0] + 1
        out = [_z() for _ in range(n)]
        for i in range(n):
            for j in range(n - i):
                out[i + j] = out[i + j] + self.c[i] * o.c[j]
        return Jet(out)
    __rmul__ = __mul__

    def recip(self):
        b0 = self.c[0]
        if b0.kind == S.FIN and not b0.e.is_number:
            if not S._truth(S.SymBool.rel(b0.e, '!=')):
                raise S.Unsupported('division by a jet with vanishing constant term')
        elif b0.kind == S.FIN and b0.e == 0:
            raise S.Unsupported('division by a jet with vanishing constant term')
        n = ORDER[0] + 1
        out = [Sym(1) / b0]
        for k in range(1, n):
            acc = _z()
            for j in range(1, k + 1):
                acc = acc + self.c[j] * out[k - j]
            out.append(-acc / b0)
        return Jet(out)

    def __truediv__(self, o):
        if isinstance(o, _np.ndarray):
            return NotImplemented
        if self._nonfinite(o):
            return _z() if o.kind != S.NAN else o
        o = Jet.lift(o)
        if S.active() and not S.current().ieee and o.c[0].kind == S.FIN and not o.c[0].e.is_number:
            # strict mode, as for Sym: a symbolic denominator is assumed non-zero (logged as a well-definedness assumption)
            Sym(1) / o.c[0]
        # both numerator and denominator may start at the same order: cancel common powers of eps
        iN, _ = self.lead()
        iD, _ = o.lead()
        if iD is None:
            raise S.Unsupported('division by a zero jet')
        if iD > 0:
            if iN is None:
                return Jet([0])
            if iN < iD:
                raise S.Unsupported('jet quotient with a pole at eps = 0')
            # precision is lost when shifting; acceptable only if the shifted orders are still available
            num = Jet(self.c[iD:] + [_z()] * iD)
            den = Jet(o.c[iD:] + [_z()] * iD)
            return num * den.recip()
        return self * o.recip()

    def __rtruediv__(self, o):
        return Jet.lift(o) / self

    def __pow__(self, n):
        if isinstance(n, Sym) and n.kind == S.FIN and n.e.is_Integer:
            n = int(n.e)
        if isinstance(n, float) and n == int(n):
            n = int(n)
        if isinstance(n, int):
            if n >= 0:
                r = Jet([1])
                for _ in range(n):
                    r = r * self
                return r
            return (self ** (-n)).recip()
        if n == 0.5:
            return self.sqrt()
        raise S.Unsupported('jet power %r' % (n,))

    def sqrt(self):
        a0 = self.c[0]
        if a0.kind == S.FIN and a0.e == 0:
            i, l = self.lead()
            if i is None:
                return Jet([0])
            if i == 2:
                # sqrt(a2 eps^2 + ...) = sqrt(a2) eps + ...   (eps > 0)
                return Jet([0, S.s_sqrt(l)])
            raise S.Unsupported('sqrt of a jet of odd leading order')
        s0 = S.s_sqrt(a0)
        if s0.kind != S.FIN:
            return s0
        out = [s0]
        n = ORDER[0] + 1
        for k in range(1, n):
            acc = self.c[k]
            for j in range(1, k):
                acc = acc - out[j] * out[k - j]
            out.append(acc / (2 * s0))
        return Jet(out)

    def __abs__(self):
        i, l = self.lead()
        if i is None:
            return self
        return -self if S.sign3(l.e) < 0 else self

    def sign(self):
        i, l = self.lead()
        if i is None:
            return 0.0
        return float(S.sign3(l.e))

    def _cmp(self, o, op):
        if isinstance(o, _np.ndarray):
            return NotImplemented
        if isinstance(o, float) and o != o:
            return op == '!='
        if self._nonfinite(o) or (isinstance(o, float) and o in (float('inf'), float('-inf'))):
            o = S.lift(o)
            if o.kind == S.NAN:
                return op == '!='
            s = -1 if o.kind == S.PINF else 1
            return {'<': s < 0, '<=': s <= 0, '>': s > 0, '>=': s >= 0, '==': False, '!=': True}[op]
        d = self - Jet.lift(o)
        i, l = d.lead()
        if i is None:
            s = 0
        else:
            s = S.sign3(l.e)
        return {'<': s < 0, '<=': s <= 0, '>': s > 0, '>=': s >= 0, '==': s == 0, '!=': s != 0}[op]

    def __lt__(self, o):
        return self._cmp(o, '<')

    def __le__(self, o):
        return self._cmp(o, '<=')

    def __gt__(self, o):
        return self._cmp(o, '>')

    def __ge__(self, o):
        return self._cmp(o, '>=')

    def __eq__(self, o):
        return self._cmp(o, '==')

    def __ne__(self, o):
        return self._cmp(o, '!=')

    __hash__ = None

    def __bool__(self):
        i, _ = self.lead()
        return i is not None

    # element-wise function hooks used by symnp
    def _compose(self, derivs):
        """f(a0 + d) = f0 + f1 d + f2 d^2/2 + ... with d = self - a0 ; derivs = [f(a0), f'(a0), f''(a0), ...]"""
        d = Jet([0] + self.c[1:])
        out = Jet([derivs[0]])
        pw = Jet([1])
        fact = 1
        for k in range(1, ORDER[0] + 1):
            pw = pw * d
            fact *= k
            out = out + pw * (derivs[k] / fact)
        return out

    def cos(self):
        c0, s0 = S.s_cos(self.c[0]), S.s_sin(self.c[0])
        cyc = [c0, -s0, -c0, s0]
        return self._compose([cyc[k % 4] for k in range(ORDER[0] + 1)])

    def sin(self):
        c0, s0 = S.s_cos(self.c[0]), S.s_sin(self.c[0])
        cyc = [s0, c0, -s0, -c0]
        return self._compose([cyc[k % 4] for k in range(ORDER[0] + 1)])

    def exp(self):
        e0 = S.s_exp(self.c[0])
        return self._compose([e0] * (ORDER[0] + 1))

    def tan(self):
        return self.sin() / self.cos()

    def radians(self):
        return self * (S.PI / 180)

    def deg2rad(self):
        return self.radians()

    def square(self):
        return self * self

    def isfinite(self):
        return True

    def isnan(self):
        return False

    def isinf(self):
        return False
