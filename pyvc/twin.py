"""Mechanical extraction of the code under verification.

`optiland_sym` is a *twin* package: on import, each module's source is read from
$VERIF_REPO/optiland/... (the current working tree), parsed with `ast`, and compiled after exactly
these rewrites (nothing else is dropped or changed):

  R1  `import numpy as np`            -> `import pyvc.symnp as np`      (symbolic NumPy model)
  R2  `import optiland...` / `from optiland... import` -> same under `optiland_sym`
  R3  `import vtk`, `import matplotlib...`, `import seaborn`, `import requests`,
      `from numba import njit, prange` -> inert stand-ins (plotting / JIT / network code is never
      under contract; `njit` becomes the identity decorator, `prange` is `range`)
  R4  module globals `float`, `isinstance` are bound to models that accept symbolic scalars
      (model of float(ndarray): ndim == 0 required -- probed against the installed NumPy).

The function bodies that run symbolically are therefore the bodies in /repo, statement for
statement.  The real package `optiland` (same tree, no rewrites) is importable next to the twin
and is what replays and bounded runs execute.
"""
import ast
import importlib.abc
import importlib.util
import os
import sys

TWIN = 'optiland_sym'
_STATE = {'repo': None}


class _Inert:
    """stand-in for plotting / JIT modules"""

    def __init__(self, name='inert'):
        self.__dict__['_n'] = name

    def __getattr__(self, k):
        if k.startswith('__') and k.endswith('__'):
            raise AttributeError(k)
        return _Inert(self._n + '.' + k)

    def __call__(self, *a, **k):
        if len(a) == 1 and callable(a[0]) and not k and not isinstance(a[0], _Inert):
            return a[0]          # decorator use: identity
        return _Inert(self._n + '()')

    def __mro_entries__(self, bases):
        return (object,)

    def __iter__(self):
        return iter(())


def _njit(*a, **k):
    if len(a) == 1 and callable(a[0]) and not k:
        return a[0]
    return lambda f: f


_INERT_TOP = {'vtk', 'matplotlib', 'seaborn', 'requests', 'numba'}


class _Rewriter(ast.NodeTransformer):
    def visit_Import(self, node):
        out = []
        for al in node.names:
            top = al.name.split('.')[0]
            if al.name == 'numpy':
                out.append(ast.Import(names=[ast.alias(name='pyvc.symnp', asname=None)]))
                out.append(ast.Assign(
                    targets=[ast.Name(id=al.asname or 'numpy', ctx=ast.Store())],
                    value=ast.Attribute(value=ast.Name(id='pyvc', ctx=ast.Load()), attr='symnp',
                                        ctx=ast.Load())))
            elif top in _INERT_TOP:
                out.append(ast.Assign(
                    targets=[ast.Name(id=al.asname or top, ctx=ast.Store())],
                    value=ast.Call(func=ast.Name(id='__pyvc_inert__', ctx=ast.Load()),
                                   args=[ast.Constant(al.name)], keywords=[])))
            elif top == 'optiland':
                new = TWIN + al.name[len('optiland'):]
                out.append(ast.Import(names=[ast.alias(name=new, asname=al.asname)]))
            else:
                out.append(ast.Import(names=[al]))
        return [ast.copy_location(o, node) for o in out]

    def visit_ImportFrom(self, node):
        if node.level == 0 and node.module:
            top = node.module.split('.')[0]
            if top == 'optiland':
                node.module = TWIN + node.module[len('optiland'):]
            elif top in _INERT_TOP:
                out = []
                for al in node.names:
                    if node.module == 'numba' and al.name == 'njit':
                        val = ast.Name(id='__pyvc_njit__', ctx=ast.Load())
                    elif node.module == 'numba' and al.name == 'prange':
                        val = ast.Name(id='range', ctx=ast.Load())
                    else:
                        val = ast.Call(func=ast.Name(id='__pyvc_inert__', ctx=ast.Load()),
                                       args=[ast.Constant(node.module + '.' + al.name)], keywords=[])
                    out.append(ast.copy_location(ast.Assign(
                        targets=[ast.Name(id=al.asname or al.name, ctx=ast.Store())], value=val), node))
                return out
        return node


class _Loader(importlib.abc.Loader):
    def __init__(self, path, is_pkg):
        self.path, self.is_pkg = path, is_pkg

    def create_module(self, spec):
        return None

    def exec_module(self, module):
        from . import symnp
        with open(self.path, encoding='utf-8') as f:
            src = f.read()
        tree = ast.parse(src, filename=self.path)
        tree = _Rewriter().visit(tree)
        ast.fix_missing_locations(tree)
        code = compile(tree, self.path, 'exec')
        g = module.__dict__
        g['__pyvc_inert__'] = _Inert
        g['__pyvc_njit__'] = _njit
        g['float'] = symnp.s_float
        g['isinstance'] = symnp.s_isinstance
        import pyvc  # noqa: F401  (name used by rewritten imports)
        g['pyvc'] = pyvc
        exec(code, g)


class _Finder(importlib.abc.MetaPathFinder):
    def find_spec(self, fullname, path=None, target=None):
        if fullname != TWIN and not fullname.startswith(TWIN + '.'):
            return None
        rel = fullname.split('.')[1:]
        base = os.path.join(_STATE['repo'], 'optiland', *rel)
        if os.path.isdir(base) and os.path.exists(os.path.join(base, '__init__.py')):
            fp = os.path.join(base, '__init__.py')
            return importlib.util.spec_from_file_location(
                fullname, fp, loader=_Loader(fp, True), submodule_search_locations=[base])
        if os.path.exists(base + '.py'):
            return importlib.util.spec_from_file_location(
                fullname, base + '.py', loader=_Loader(base + '.py', False))
        return None


_INSTALLED = []


def install(repo):
    """make `optiland_sym` (twin) and `optiland` (real, same tree) importable"""
    repo = os.path.abspath(repo)
    if _STATE['repo'] == repo and _INSTALLED:
        return
    _STATE['repo'] = repo
    if not _INSTALLED:
        f = _Finder()
        sys.meta_path.insert(0, f)
        _INSTALLED.append(f)
    # real package: make sure it comes from the same tree
    if sys.path[0] != repo:
        sys.path.insert(0, repo)
    for name in list(sys.modules):
        if name == 'optiland' or name.startswith('optiland.') or name == TWIN or name.startswith(TWIN + '.'):
            del sys.modules[name]


def sym(modname):
    """twin module for a repo module name like 'optiland.rays.real_rays'"""
    import importlib
    assert modname.startswith('optiland')
    return importlib.import_module(TWIN + modname[len('optiland'):])


def real(modname):
    import importlib
    m = importlib.import_module(modname)
    f = getattr(m, '__file__', '') or ''
    if _STATE['repo'] and not os.path.abspath(f).startswith(_STATE['repo']):
        raise RuntimeError('real optiland imported from %s, not from %s' % (f, _STATE['repo']))
    return m


def function_source(modname, qualname):
    """(file, first line, last line, source text) of a function in the tree -- for evidence"""
    rel = modname.split('.')[1:]
    base = os.path.join(_STATE['repo'], 'optiland', *rel)
    path = os.path.join(base, '__init__.py') if os.path.isdir(base) else base + '.py'
    with open(path, encoding='utf-8') as f:
        src = f.read()
    tree = ast.parse(src)
    parts = qualname.split('.')
    node = tree
    for p in parts:
        for ch in ast.iter_child_nodes(node):
            if isinstance(ch, (ast.FunctionDef, ast.ClassDef)) and ch.name == p:
                node = ch
                break
        else:
            return None
    seg = '\n'.join(src.splitlines()[node.lineno - 1:node.end_lineno])
    return path, node.lineno, node.end_lineno, seg
