"""Aggregation of contract results into a verdict, evidence file and replay files."""
import glob
import hashlib
import importlib
import json
import os
import random
import subprocess
import sys
import time

HERE = os.path.dirname(os.path.dirname(os.path.abspath(__file__)))
LEDGER = os.path.join(HERE, 'contracts', 'LEDGER.json')
KNOWN = os.path.join(HERE, 'known_findings.json')
REPLAYS = os.path.join(HERE, 'replays')

GLOBAL_TRUSTED = [
    'pyvc engine (symbolic NumPy model, path exploration, VC generator) -- cross-checked per run against the real code by concolic replays and canaries',
    'sympy 1.14 groebner/reduce over QQ; z3 5.1 (python API); no independent proof certificates',
    'Python float / np.float64 treated as mathematical reals (no rounding, overflow, denormals); IEEE kinds inf/nan tracked per path',
    'NumPy element-wise semantics, broadcasting, masks, in-place operators as executed by the installed NumPy on object arrays',
    'trigonometric / sqrt / exp atoms: only c^2+s^2=1, angle addition, r^2=x & r>=0, exp>0 are used',
]


def tree_id(repo):
    try:
        rev = subprocess.run(['git', '-C', repo, 'rev-parse', 'HEAD'], capture_output=True, text=True).stdout.strip()
        diff = subprocess.run(['git', '-C', repo, 'diff', 'HEAD', '--', 'optiland'], capture_output=True, text=True).stdout
        return rev[:12] + ('+dirty:' + hashlib.sha256(diff.encode()).hexdigest()[:10] if diff else '')
    except Exception:
        return 'unknown'


def load_json(p, default):
    try:
        with open(p) as f:
            return json.load(f)
    except FileNotFoundError:
        return default


def write_replay(prop, clause, contract, modname, repo, payload):
    os.makedirs(REPLAYS, exist_ok=True)
    n = len(glob.glob(os.path.join(REPLAYS, '%s-*.json' % clause))) + 1
    path = os.path.join(REPLAYS, '%s-%d.json' % (clause, n))
    payload = dict(payload, property=prop, obligation=clause, contract=contract, module=modname,
                   tree=tree_id(repo), tier=os.environ.get('VERIF_TIER_EFFECTIVE', 'quick'),
                   seed=int(os.environ.get('VERIF_SEED_EFFECTIVE', '0')))
    with open(path, 'w') as f:
        json.dump(payload, f, indent=1, default=str)
    return path


def replay_file(path, repo):
    """re-run a recorded counterexample on the real code; exit 1 if it still violates"""
    from . import twin, vc, probes
    with open(path) as f:
        rp = json.load(f)
    twin.install(repo)
    probes.apply()
    importlib.import_module(rp['module'])
    ct = vc.CONTRACTS[rp['contract']]
    if rp.get('inputs') is None:
        print('replay file carries no input (%s); verifier output:\n%s' % (rp.get('reproduced_on_real_code'), rp.get('verifier_output')))
        return 1
    if ct.opts.get('custom_replay'):
        bad = ct.opts['custom_replay'](rp)
    elif ct.opts.get('custom'):
        # run-time contracts over lenses / files / tables: the recorded case is re-generated from (tier, seed) and re-run
        res = ct.opts['custom'](ct, rp.get('tier', 'quick'), int(rp.get('seed', 0)))
        fl = [f for f in res.get('numeric', {}).get('failures', []) if f.get('clause') == rp['obligation']]
        same = [f for f in fl if f.get('draws') == rp.get('inputs')] or fl
        bad = bool(same)
        print('replay on real code (custom contract re-run with tier=%s seed=%s): %s' % (rp.get('tier'), rp.get('seed'), same[:2]))
    else:
        ctx, fails, exc = vc.run_numeric(ct, draws=rp['inputs'], rng=random.Random(0))
        bad = bool(exc and exc != 'reject') or bool(fails and any(c == rp['obligation'] or True for c, _ in fails))
        print('replay on real code: failures=%s exception=%s' % (fails, (exc or '')[:300]))
    if bad:
        print('VIOLATION property=%s replay=%s' % (rp['property'], path))
        return 1
    print('replay does not violate on this tree')
    return 0


def run_property(a, seed, run_contracts):
    os.environ['VERIF_TIER_EFFECTIVE'] = a.tier
    os.environ['VERIF_SEED_EFFECTIVE'] = str(seed)
    from . import vc
    prop = a.prop
    if a.replay:
        return replay_file(a.replay, a.repo)
    t0 = time.time()
    modname = 'contracts.%s' % prop.lower()
    sys.path.insert(0, HERE)
    from . import twin, probes
    twin.install(a.repo)
    probe_results = probes.apply()
    # import both packages once in the parent; workers are forked and inherit them
    for m_ in ('optiland.optic', 'optiland.optimization', 'optiland.tolerancing', 'optiland.analysis',
               'optiland.wavefront', 'optiland.psf', 'optiland.mtf', 'optiland.zernike', 'optiland.fileio'):
        try:
            twin.real(m_)
            twin.sym(m_)
        except Exception as ex:      # a module that does not import is an engine limit for its contracts only
            print('note: import of %s failed: %s: %s' % (m_, type(ex).__name__, str(ex)[:200]))
    mod = importlib.import_module(modname)
    names = [n for n, ct in vc.CONTRACTS.items() if prop in ct.props]
    if a.only:
        names = [n for n in names if n in a.only.split(',')]
    k = int(getattr(mod, 'K_QUICK', 20) if a.tier == 'quick' else getattr(mod, 'K_THOROUGH', 300))
    timeout_s = int(getattr(mod, 'TIMEOUT_QUICK', 240) if a.tier == 'quick' else getattr(mod, 'TIMEOUT_THOROUGH', 1500))
    results = run_contracts(modname, names, a.tier, seed, k, a.repo, timeout_s)

    ledger_all = load_json(LEDGER, {})
    ledger = ledger_all.get(prop, {})
    known = load_json(KNOWN, {'findings': [], 'fixed': []})
    known_by_clause = {}
    for f in known.get('findings', []):
        if f.get('property') == prop:
            for cl in f.get('clauses', [f.get('clause')]):
                known_by_clause.setdefault(cl, []).append(f)

    clauses = {}          # clause id -> dict(status, contract, ...)
    undecided = []
    crashes = []
    encoder = []
    numeric_fail = []
    functions = set()
    assumptions = set()
    wd_assumed = set()
    solver_s = 0.0
    samples = []
    bounded_cases = 0
    skipped_contracts = set()
    bounded_samples = []
    concolic_agree = 0
    paths_total = 0
    for n in names:
        r = results.get(n, {'crash': 'no result'})
        ct = vc.CONTRACTS[n]
        functions.update(ct.functions)
        if 'crash' in r:
            crashes.append('%s: %s' % (n, r['crash'][-1500:]))
            continue
        if 'timeout' in r:
            undecided.append('%s: timed out after %ss' % (n, r['timeout']))
            continue
        symr = r.get('symbolic') or {'clauses': {}, 'errors': [], 'paths': 0}
        if symr.get('skipped'):
            skipped_contracts.add(n)
        solver_s += symr.get('solver_s', 0.0)
        paths_total += symr.get('paths', 0)
        samples.extend(symr.get('samples', [])[:2])
        for w in symr.get('wd_assumed', []):
            wd_assumed.add('%s: %s' % (n, w))
        for s_ in symr.get('assumed', []):
            assumptions.add(s_)
        for e in symr.get('errors', []):
            undecided.append('%s: %s' % (n, e[:1200]))
        for cid, cr in symr.get('clauses', {}).items():
            if not cid.startswith(prop + '.'):
                continue
            c = clauses.setdefault(cid, {'contract': n, 'paths': 0, 'proved': 0, 'backends': {}, 'failed': [],
                                         'seconds': 0.0, 'bounded': bool(cr.get('bounded'))})
            c['paths'] += cr['paths']
            c['proved'] += cr['proved']
            c['seconds'] += cr.get('seconds', 0.0)
            for b, v in cr.get('backends', {}).items():
                c['backends'][b] = c['backends'].get(b, 0) + v
            c['failed'].extend(cr.get('failed', []))
            if symr.get('errors'):
                c['contract_errors'] = True
        numr = r.get('numeric') or {}
        bounded_cases += numr.get('accepted', 0)
        concolic_agree += numr.get('concolic_agree', 0)
        bounded_samples.extend(numr.get('samples', [])[:1])
        for m in numr.get('encoder_mismatches', []):
            encoder.append(dict(m, contract=n))
        for f in numr.get('failures', []):
            numeric_fail.append(dict(f, contract=n))
        if numr.get('accepted', 1) == 0 and not ct.opts.get('no_numeric') and ct.opts.get('numeric_share') is not False:
            undecided.append('%s: precondition never satisfied by any concrete sample (vacuity guard)' % n)

    # ---------------- verdict -------------------------------------------------------------
    out_lines = []
    violations = []
    known_hits = []
    exit_code = 0

    if crashes:
        for c in crashes:
            print('CRASH', c)
        exit_code = 3
    if encoder:
        for m in encoder[:5]:
            print('ENCODER-MISMATCH', json.dumps(m, default=str)[:600])
        exit_code = 3

    def finding_for(clause, detail_text):
        for f in known_by_clause.get(clause, []):
            return f
        return None

    # (1) concrete failures on the real code
    seen_clause = set()
    for f in numeric_fail:
        cl = f['clause']
        if not cl.startswith(prop + '.') and not cl.endswith('.no_exception'):
            continue
        kf = finding_for(cl, f)
        if kf is not None:
            if kf['id'] not in [h['id'] for h in known_hits]:
                known_hits.append(kf)
            continue
        if cl in seen_clause:
            continue
        seen_clause.add(cl)
        rp = write_replay(prop, cl, f['contract'], modname, a.repo, {
            'back_end': 'runtime (contract evaluated on the real code)', 'inputs': f.get('draws'),
            'observed': f.get('observed'), 'note': f.get('note'), 'exception': f.get('exception'),
            'reproduced_on_real_code': True, 'verifier_output': None})
        violations.append((cl, rp, ''))

    # (2) ledger obligations
    proved_now = {cid for cid, c in clauses.items() if c['paths'] > 0 and c['proved'] == c['paths']
                  and not c.get('contract_errors') and not c.get('bounded')}
    obligations = 0
    discharged = 0
    per_clause = []
    for cid, c in sorted(clauses.items()):
        exp = ledger.get(cid, {}).get('expect')
        status = 'proved' if cid in proved_now else ('bounded' if c.get('bounded') else 'failed')
        per_clause.append({'id': cid, 'contract': c['contract'], 'paths': c['paths'], 'status': status,
                           'back_ends': c['backends'], 'seconds': round(c['seconds'], 3), 'ledger': exp})
    if not a.update_ledger:
        for cid, ent in sorted(ledger.items()):
            exp = ent.get('expect')
            if a.only and cid not in clauses:
                continue
            if exp == 'proved':
                obligations += 1
                if cid in proved_now:
                    discharged += 1
                    if ent.get('known_finding'):
                        kf = [f for f in known.get('findings', []) if f['id'] == ent['known_finding']]
                        if kf and kf[0]['id'] not in [h['id'] for h in known_hits]:
                            full = kf[0].get('full_clause')
                            if not (full and full in proved_now):
                                known_hits.append(kf[0])
                    continue
                c = clauses.get(cid)
                if c is None:
                    owner = ent.get('contract')
                    if owner in skipped_contracts:
                        continue      # its contract already failed concretely on the real code (reported above)
                    undecided.append('ledger obligation %s was not generated in this run' % cid)
                    continue
                if ent.get('known_finding'):
                    kf = [f for f in known.get('findings', []) if f['id'] == ent['known_finding']]
                    full = kf[0].get('full_clause') if kf else None
                    if full and full in proved_now:
                        discharged += 1     # defect no longer present: the pin is moot
                        continue
                if c.get('contract_errors') and not c['failed']:
                    undecided.append('obligation %s: contract raised engine errors' % cid)
                    continue
                if cid in seen_clause:
                    continue
                # failed proof of an obligation the ledger records as proved on the unchanged tree
                fl = c['failed'][0] if c['failed'] else {'status': 'unknown', 'detail': 'no path reached the clause'}
                model = fl.get('detail') if isinstance(fl.get('detail'), dict) else None
                reproduced = False
                rp_inputs = None
                if model:
                    reproduced, rp_inputs = _try_model(vc, c['contract'], cid, model)
                if not reproduced:
                    reproduced, rp_inputs = _search_numeric(vc, c['contract'], cid, seed)
                rp = write_replay(prop, cid, c['contract'], modname, a.repo, {
                    'back_end': fl.get('back_end'), 'inputs': rp_inputs if reproduced else None,
                    'required': fl.get('goal'), 'reproduced_on_real_code': reproduced,
                    'verifier_output': fl, 'failed_paths': len(c['failed'])})
                violations.append((cid, rp, '' if reproduced else ' no-failing-input-found'))
            elif exp == 'known-fail':
                # the unsplit clause of a known finding: expected to fail while the finding is open
                pass
        kmap_ = getattr(mod, 'KNOWN', {})
        # the unsplit clause of an open known finding may or may not be reached by a passing draw: never "new"
        new = [cid for cid in clauses if cid not in ledger and not (cid in kmap_ and kmap_[cid].get('role') == 'full')]
        if new:
            undecided.append('clauses not in LEDGER.json (run --update-ledger after review): %s' % new[:8])
    else:
        ent = {}
        old = ledger_all.get(prop, {})
        for cid in sorted(clauses):
            c = clauses[cid]
            prev = old.get(cid, {})
            kmap = getattr(mod, 'KNOWN', {})
            if cid in kmap and kmap[cid].get('role') == 'full':
                e = {'expect': 'known-fail', 'known_finding': kmap[cid]['finding']}
            elif cid in proved_now:
                e = {'expect': 'proved'}
                if cid in kmap:
                    e['known_finding'] = kmap[cid]['finding']
                elif prev.get('known_finding'):
                    e['known_finding'] = prev['known_finding']
            elif c.get('bounded'):
                e = {'expect': 'bounded'}       # run-time stand-in: listed, never counted as discharged
            else:
                e = {'expect': prev.get('expect') if prev.get('expect') == 'known-fail' else 'UNPROVED'}
            e['function'] = ';'.join(vc.CONTRACTS[c['contract']].functions[:3])
            e['contract'] = c['contract']
            ent[cid] = e
        for cid_, km_ in getattr(mod, 'KNOWN', {}).items():
            if km_.get('role') == 'full' and cid_ not in ent and not a.only:
                ent[cid_] = {'expect': 'known-fail', 'known_finding': km_['finding'], 'function': '', 'contract': ''}
        if not a.only:
            ledger_all[prop] = ent
        else:
            ledger_all.setdefault(prop, {}).update(ent)
        with open(LEDGER, 'w') as f:
            json.dump(ledger_all, f, indent=1, sort_keys=True)
        unp = [c for c, e in ent.items() if e['expect'] == 'UNPROVED']
        print('ledger updated: %d clauses, %d unproved: %s' % (len(ent), len(unp), unp))
        obligations = len([e for e in ent.values() if e['expect'] == 'proved'])
        discharged = obligations

    for kf in known_hits:
        print('KNOWN-FINDING: property=%s %s' % (prop, kf.get('what_fails', kf['id'])))
    for cid, rp, suffix in violations:
        print('VIOLATION property=%s replay=%s%s' % (prop, rp, suffix))
    if violations and (exit_code == 0 or any(sfx == '' for _c, _r, sfx in violations)):
        exit_code = 1          # a violation replayed on the real code stands whatever else went wrong
    if exit_code == 0 and undecided:
        exit_code = 2
    if exit_code == 0 and obligations == 0:
        undecided.append('zero obligations')
        exit_code = 2
    for u in undecided[:20]:
        print('UNDECIDED', u)

    # ---------------- evidence ------------------------------------------------------------
    trusted = list(GLOBAL_TRUSTED) + list(getattr(mod, 'TRUSTED', []))
    assumptions_l = sorted(assumptions) + sorted('well-definedness assumed: ' + w for w in wd_assumed)[:40] \
        + list(getattr(mod, 'ASSUMPTIONS', []))
    ev = {
        'property_id': prop, 'tier': a.tier, 'seed': seed, 'level': 'proof',
        'coverage': {
            'obligations': obligations, 'discharged': discharged,
            'checker_cmd': './check.py %s --tier %s' % (prop, a.tier),
            'trusted_base': trusted,
            'functions_under_contract': sorted(functions),
            'contracts': len(names), 'symbolic_paths': paths_total,
            'solver_seconds_total': round(solver_s, 2),
            'per_obligation': per_clause,
            'samples': samples[:6] + bounded_samples[:2],
            'bounded': {'label': 'bounded -- run-time evaluation of the same contracts on the real code; never counted as discharged',
                        'cases': bounded_cases, 'concolic_agreements_symbolic_vs_real': concolic_agree,
                        'rule': 'inputs drawn from the contract preconditions with VERIF_SEED; a case is one accepted draw',
                        'seed': seed},
            'undecided': undecided[:20], 'known_findings_hit': [k['id'] for k in known_hits],
            'library_probes': probe_results, 'tree': tree_id(a.repo),
            'not_proved_clauses': getattr(mod, 'NOT_PROVED', []),
        },
        'assumptions': assumptions_l,
        'wall_s': round(time.time() - t0, 2),
        'violations': len(violations),
    }
    os.makedirs(os.path.join(HERE, 'evidence'), exist_ok=True)
    with open(os.path.join(HERE, 'evidence', '%s.json' % prop), 'w') as f:
        json.dump(ev, f, indent=1, default=str)
    print('property=%s obligations=%d discharged=%d contracts=%d paths=%d bounded_cases=%d solver=%.1fs' % (
        prop, obligations, discharged, len(names), paths_total, bounded_cases, solver_s))
    if a.v:
        for pc in per_clause:
            print('  %-55s %-8s paths=%-3d %s %.2fs' % (pc['id'], pc['status'], pc['paths'], pc['back_ends'], pc['seconds']))
            if pc['status'] == 'failed':
                for fl in clauses[pc['id']]['failed'][:2]:
                    print('      ', json.dumps(fl, default=str)[:700])
    return exit_code


def _try_model(vc, cname, clause, model):
    import random as _r
    ct = vc.CONTRACTS[cname]
    draws = {k: v for k, v in model.items() if isinstance(v, (int, float))}
    try:
        ctx, fails, exc = vc.run_numeric(ct, draws=draws, rng=_r.Random(1))
    except Exception:
        return False, None
    if exc == 'reject':
        return False, None
    if exc or (fails and any(c == clause for c, _ in fails)):
        return True, {k: v for k, v in ctx.draws.items() if isinstance(v, (int, float, str, bool))}
    return False, None


def _search_numeric(vc, cname, clause, seed, n=400):
    import random as _r
    ct = vc.CONTRACTS[cname]
    rng = _r.Random(seed + 12345)
    for _ in range(n):
        try:
            ctx, fails, exc = vc.run_numeric(ct, rng=rng)
        except Exception:
            continue
        if exc == 'reject':
            continue
        if exc or (fails and any(c == clause for c, _ in fails)):
            return True, {k: v for k, v in ctx.draws.items() if isinstance(v, (int, float, str, bool))}
    return False, None
