r"""Back ends: Groebner ideal membership (sympy), z3 (python API), cvc5 via SMT-LIB text.

A goal is *discharged* only by: normal form 0, ideal membership (remainder 0), radical membership
(1 in the ideal extended with Rabinowitsch variables), or `unsat` of  hyps /\ not goal.
"""
import functools
import subprocess
import time

import sympy as sp
import z3

from . import sym as S
from .sym import SymBool, NEG, ZERO, POS


# ------------------------------------------------------------------------------------------
def _connected(seed_syms, polys):
    """indices of polys transitively sharing symbols with seed_syms"""
    syms = set(seed_syms)
    chosen = set()
    changed = True
    fs = [p.free_symbols for p in polys]
    while changed:
        changed = False
        for i, f in enumerate(fs):
            if i not in chosen and f & syms:
                chosen.add(i)
                if not f <= syms:
                    syms |= f
                changed = True
    return sorted(chosen)


def atom_reduce(path, goal):
    """normal form of a rational function modulo the atom definitions, by direct rewriting:
    r**2 -> radicand for every sqrt atom, s**2 -> 1 - c**2 for every trig pair (atoms are processed
    newest first: a radicand only mentions older atoms).  Returns the reduced numerator."""
    num = sp.expand(S.numden(goal)[0])
    if num == 0:
        return num
    atoms = []
    for key, (r, e) in path.sqrt_atoms.items():
        atoms.append((int(r.name.split('_')[-1]), 'sqrt', r, e))
    for key, (c, s_, base) in path.trig_atoms.items():
        atoms.append((int(c.name.split('_')[-1]), 'trig', (c, s_), base))
    seen = set()
    for _idx, kind, at, e in sorted(atoms, key=lambda t: -t[0]):
        if kind == 'sqrt':
            if at in seen or not num.has(at):
                continue
            seen.add(at)
            P = sp.Poly(num, at)
            even, odd = 0, 0
            for (k,), coef in P.terms():
                if k % 2 == 0:
                    even += coef * e ** (k // 2)
                else:
                    odd += coef * e ** ((k - 1) // 2)
            num = sp.expand(S.numden(sp.together(even + odd * at))[0])
        else:
            c, s_ = at
            if s_ in seen or not num.has(s_):
                continue
            seen.add(s_)
            P = sp.Poly(num, s_)
            acc = 0
            for (k,), coef in P.terms():
                acc += coef * (1 - c ** 2) ** (k // 2) * s_ ** (k % 2)
            num = sp.expand(acc)
        if num == 0:
            return num
    return num


class _Timeout(Exception):
    pass


class time_limit:
    """SIGALRM-based wall-clock limit for pure-python back ends (worker processes are single
    threaded, so the signal lands in the computation)"""

    def __init__(self, seconds):
        self.seconds = seconds

    def __enter__(self):
        import signal
        self.old = signal.signal(signal.SIGALRM, self._raise)
        signal.setitimer(signal.ITIMER_REAL, self.seconds)

    def _raise(self, *a):
        raise _Timeout()

    def __exit__(self, *a):
        import signal
        signal.setitimer(signal.ITIMER_REAL, 0)
        signal.signal(signal.SIGALRM, self.old)
        return False


GROEBNER_BUDGET_S = [25.0]


def groebner_prove(eqs, goal, nonzero=(), budget_terms=4000):
    try:
        with time_limit(GROEBNER_BUDGET_S[0]):
            return _groebner_prove(eqs, goal, nonzero)
    except _Timeout:
        return False, 'groebner-timeout(%ss)' % GROEBNER_BUDGET_S[0]


def _groebner_prove(eqs, goal, nonzero=()):
    """Is goal == 0 a consequence of eqs == 0 (and nonzero != 0)?  -> (bool, how)"""
    goal = sp.expand(S.numden(goal)[0])
    if goal == 0:
        return True, 'normal-form'
    eqs = [e for e in eqs if e != 0]
    idx = _connected(goal.free_symbols, eqs)
    eqs = [sp.expand(S.numden(eqs[i])[0]) for i in idx]     # only the relevant hypotheses are normalised
    eqs = [e for e in eqs if e != 0]
    if not eqs:
        return False, 'no-hypotheses remainder=%s' % str(goal)[:200]
    syms = sorted(set().union(*[e.free_symbols for e in eqs]) | goal.free_symbols, key=lambda s: s.name)
    try:
        G = sp.groebner(eqs, *syms, order='grevlex', domain=sp.QQ)
        rem = G.reduce(goal)[1]
    except Exception as ex:  # sympy polys can fail on odd input; that is "not proved"
        return False, 'groebner-error %s' % ex
    if rem == 0:
        return True, 'ideal-membership'
    if list(G.exprs) == [1]:
        return True, 'ideal-membership(inconsistent-hypotheses)'
    # radical membership with the nonzero side conditions (Rabinowitsch)
    nz = [sp.expand(n) for n in nonzero if not sp.expand(n).is_number]
    nz = [nz[i] for i in _connected(set(syms), nz)][:6]
    try:
        extra = []
        ts = []
        for i, n in enumerate(nz):
            t = sp.Symbol('rab_%d' % i)
            ts.append(t)
            extra.append(sp.expand(t * n - 1))
        y = sp.Symbol('rab_goal')
        G2 = sp.groebner(eqs + extra + [sp.expand(1 - y * goal)], *(syms + ts + [y]),
                         order='grevlex', domain=sp.QQ)
        if list(G2.exprs) == [1]:
            return True, 'radical-membership'
    except Exception as ex:
        return False, 'groebner-error %s' % ex
    return False, 'remainder=%s' % str(rem)[:300]


# ------------------------------------------------------------------------------------------
class Z3T:
    """sympy -> z3 translation with one Real per symbol"""

    def __init__(self):
        self.vars = {}
        self.side = []

    def var(self, s):
        if s.name not in self.vars:
            v = z3.Real(s.name)
            self.vars[s.name] = v
            if s.name == 'PI_const':
                self.side.append(v > z3.RealVal('3.14159265358979'))
                self.side.append(v < z3.RealVal('3.14159265358980'))
            if s.is_positive:
                self.side.append(v > 0)
            elif s.is_nonnegative:
                self.side.append(v >= 0)
            elif s.is_negative:
                self.side.append(v < 0)
            elif s.is_nonzero:
                self.side.append(v != 0)
        return self.vars[s.name]

    def poly(self, x):
        x = sp.sympify(x)
        if x.is_Symbol:
            return self.var(x)
        if x.is_Integer:
            return z3.RealVal(int(x))
        if x.is_Rational:
            return z3.RealVal(int(x.p)) / z3.RealVal(int(x.q))
        if x.is_Add:
            return functools.reduce(lambda a, b: a + b, [self.poly(a) for a in x.args])
        if x.is_Mul:
            return functools.reduce(lambda a, b: a * b, [self.poly(a) for a in x.args])
        if x.is_Pow and x.args[1].is_Integer:
            n = int(x.args[1])
            b = self.poly(x.args[0])
            if n >= 0:
                r = z3.RealVal(1)
                for _ in range(n):
                    r = r * b
                return r
            r = z3.RealVal(1)
            for _ in range(-n):
                r = r * b
            return 1 / r
        if x is sp.pi:
            # pi as a bounded unknown (sound: only bounds are used)
            v = self.var(sp.Symbol('PI_const', positive=True))
            self.side.append(v > z3.RealVal('3.14159265358979'))
            self.side.append(v < z3.RealVal('3.14159265358980'))
            return v
        if x.is_Pow and x.args[1] == sp.Rational(1, 2) and x.args[0].is_Rational and x.args[0] > 0:
            v = self.var(sp.Symbol('sqrtnum_%s_%s' % (x.args[0].p, x.args[0].q), nonnegative=True))
            self.side.append(v * v == self.poly(x.args[0]))
            return v
        if x.is_Pow and x.args[1] == sp.Rational(-1, 2) and x.args[0].is_Rational and x.args[0] > 0:
            return 1 / self.poly(sp.sqrt(x.args[0]))
        if x.is_number and x.is_Rational is not True:
            raise S.Unsupported('irrational constant %s' % x)
        raise S.Unsupported('z3 translation of %s' % sp.srepr(x)[:80])

    def sign_constraint(self, e, signs):
        """sign(e) in signs, e rational function; denominator assumed (and stated) non-zero"""
        n, d = S.numden(e)
        if d.is_number:
            p = self.poly(n if d > 0 else -n)
        else:
            dd = self.poly(d)
            self.side.append(dd != 0)
            p = self.poly(n) * dd
        signs = frozenset(signs)
        if signs == frozenset((NEG,)):
            return p < 0
        if signs == frozenset((POS,)):
            return p > 0
        if signs == frozenset((ZERO,)):
            return self.poly(n) == 0
        if signs == frozenset((NEG, ZERO)):
            return p <= 0
        if signs == frozenset((POS, ZERO)):
            return p >= 0
        if signs == frozenset((NEG, POS)):
            return self.poly(n) != 0
        return z3.BoolVal(True)

    def cond(self, c):
        if isinstance(c, bool):
            return z3.BoolVal(c)
        if c.k == 'const':
            return z3.BoolVal(c.a)
        if c.k == 'rel':
            if c.a.has(sp.I):
                re_, im_ = sp.expand(c.a, complex=True).as_real_imag()
                both = z3.And(self.sign_constraint(re_, (ZERO,)), self.sign_constraint(im_, (ZERO,)))
                return both if c.b == '==' else z3.Not(both)
            return self.sign_constraint(c.a, S._OPSETS[c.b])
        if c.k == 'not':
            return z3.Not(self.cond(c.a))
        if c.k == 'and':
            return z3.And(self.cond(c.a), self.cond(c.b))
        if c.k == 'or':
            return z3.Or(self.cond(c.a), self.cond(c.b))
        raise AssertionError


def path_hypotheses(path, tr, only_syms=None):
    """z3 constraints for everything the path knows (optionally only facts over `only_syms`)"""
    hs = []

    def keep(e):
        return only_syms is None or set(getattr(e, 'free_symbols', ())) <= only_syms
    for e in path.atom_eqs:
        if keep(e):
            hs.append(tr.poly(e) == 0)
    for a in path.atom_nonneg:
        if keep(a):
            hs.append(tr.poly(a) >= 0)
    for key in path.order:
        poly, signs = path.signs[key]
        if signs != S.ALL3 and keep(poly):
            hs.append(tr.sign_constraint(poly, signs))
    for h in path.hyps:
        if only_syms is None or cond_symbols(h) <= only_syms:
            hs.append(tr.cond(h))
    for (at, name, args) in path.fun_atoms.values():
        if name == 'exp' and keep(at):
            hs.append(tr.poly(at) > 0)
            # exp is monotone with exp(0) = 1 (library axiom, DESIGN S7)
            if only_syms is None or set(args[0].free_symbols) <= only_syms:
                try:
                    hs.append(z3.Implies(tr.sign_constraint(args[0], (POS, ZERO)), tr.poly(at) >= 1))
                    hs.append(z3.Implies(tr.sign_constraint(args[0], (NEG, ZERO)), tr.poly(at) <= 1))
                except S.Unsupported:
                    pass
    return hs


def cond_symbols(c):
    if isinstance(c, bool):
        return set()
    if c.k == 'const':
        return set()
    if c.k == 'rel':
        return set(c.a.free_symbols)
    if c.k == 'not':
        return cond_symbols(c.a)
    return cond_symbols(c.a) | cond_symbols(c.b)


def z3_prove(path, goal, timeout_ms=20000, extra_hyps=(), only_syms=None):
    """unsat(hyps /\\ not goal)  -> ('proved'|'refuted'|'unknown', model-or-reason, seconds)"""
    t0 = time.time()
    tr = Z3T()
    try:
        hs = path_hypotheses(path, tr, only_syms)
        for h in extra_hyps:
            hs.append(tr.cond(h))
        g = tr.cond(goal) if isinstance(goal, (SymBool, bool)) else goal
    except (S.Unsupported, z3.Z3Exception) as ex:
        return 'unknown', 'translation: %s' % ex, time.time() - t0
    so = z3.Solver()
    so.set('timeout', int(timeout_ms))
    for h in hs + tr.side:
        so.add(h)
    so.add(z3.Not(g))
    r = so.check()
    dt = time.time() - t0
    if r == z3.unsat:
        return 'proved', 'unsat', dt
    if r == z3.sat:
        if only_syms is not None:
            return 'unknown', 'sat on a sliced hypothesis set', dt
        m = so.model()
        model = {}
        for name, v in tr.vars.items():
            val = m.eval(v, model_completion=True)
            try:
                model[name] = _z3num(val)
            except Exception:
                model[name] = str(val)
        return 'refuted', model, dt
    return 'unknown', so.reason_unknown(), dt


def _z3num(val):
    if z3.is_rational_value(val):
        return float(val.numerator_as_long()) / float(val.denominator_as_long())
    if z3.is_algebraic_value(val):
        return float(val.approx(20).as_fraction())
    return float(str(val))


def z3_feasible(path, timeout_ms=5000):
    tr = Z3T()
    try:
        hs = path_hypotheses(path, tr)
    except S.Unsupported:
        return 'unknown'
    so = z3.Solver()
    so.set('timeout', int(timeout_ms))
    for h in hs + tr.side:
        so.add(h)
    r = so.check()
    return 'sat' if r == z3.sat else ('unsat' if r == z3.unsat else 'unknown')


def smt2_of(path, goal):
    tr = Z3T()
    hs = path_hypotheses(path, tr)
    g = tr.cond(goal) if isinstance(goal, (SymBool, bool)) else goal
    so = z3.Solver()
    for h in hs + tr.side:
        so.add(h)
    so.add(z3.Not(g))
    return so.to_smt2()


def cvc5_prove(smt2_text, timeout_s=30):
    """second opinion: feed the same SMT-LIB text to /usr/bin/cvc5"""
    try:
        r = subprocess.run(['/usr/bin/cvc5', '--lang=smt2', '--tlimit=%d' % int(timeout_s * 1000), '-'],
                           input='(set-logic QF_NRA)\n' + smt2_text, capture_output=True, text=True,
                           timeout=timeout_s + 5)
        out = r.stdout.strip().splitlines()
        if out and out[0] in ('unsat', 'sat', 'unknown'):
            return {'unsat': 'proved', 'sat': 'refuted', 'unknown': 'unknown'}[out[0]]
        return 'unknown'
    except Exception:
        return 'unknown'
