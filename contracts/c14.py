"""C14 -- optimisers leave the lens at the returned solution, never worse than the start."""
import math
from pyvc.vc import contract
from .common import *  # noqa
from .lens import arbitrary_lens, zs
from . import variables as _variables

PROPERTY = 'C14'
K_QUICK = 10
K_THOROUGH = 150
OPT = 'optiland/optimization/optimization.py'
OPR = 'optiland/optimization/operand/operand.py'
VARF = 'optiland/optimization/variable/variable.py'
ASSUMPTIONS = [
    'external contract of scipy.optimize.minimize / least_squares / dual_annealing / differential_evolution (havoc-with-callback): '
    'fun is called a finite number of times on arbitrary points in unspecified order (or not at all in this process), and the '
    'returned result carries result.x and result.fun = fun(result.x) as evaluated at one of those calls',
    '"objective not worse than at the start" and "within bounds" are properties of the SciPy algorithms: assumed, monitored at run time (bounded)',
]

_variables.register('C14', ['C14'])


def _register_metrics(c):
    """two operands whose values are simple functions of the prescription (registered through the public registry)"""
    opmod = c.mod('optiland.optimization.operand.operand')

    def m_radius(optic, surface_number):
        return c.val(optic.surface_group.radii[surface_number])

    def m_gap(optic, surface_number):
        return c.val(optic.surface_group.get_thickness(surface_number))
    opmod.operand_registry.register('verif_radius', m_radius, overwrite=True)
    opmod.operand_registry.register('verif_gap', m_gap, overwrite=True)


def _problem(c, scaling=True, with_solve=False, bounds=False, n=4):
    lens, v = arbitrary_lens(c, n, stop=1, finite_object=False)
    lens.add_wavelength(0.55, is_primary=True)
    lens.set_aperture('EPD', c.real('EPD', 0.5, 6.0, positive=True))
    _register_metrics(c)
    om = c.mod('optiland.optimization.optimization')
    prob = om.OptimizationProblem()
    t1, t2 = c.real('target1', 5, 60), c.real('target2', 1, 10)
    w1, w2 = c.real('weight1', 0.1, 3, positive=True), c.real('weight2', 0.1, 3, positive=True)
    prob.add_operand('verif_radius', t1, w1, {'optic': lens, 'surface_number': 2})
    prob.add_operand('verif_gap', t2, w2, {'optic': lens, 'surface_number': 1})
    kw = {}
    if bounds:
        kw = dict(min_val=c.real('min_val', -50, 0), max_val=c.real('max_val', 10, 200))
    prob.add_variable(lens, 'radius', surface_number=2, apply_scaling=scaling, **kw)
    prob.add_variable(lens, 'thickness', surface_number=1, apply_scaling=scaling, **kw)
    return lens, v, prob, (t1, t2, w1, w2)


def _merit(c, lens, t1, t2, w1, w2):
    R2 = c.val(lens.surface_group.radii[2])
    g1 = c.val(lens.surface_group.get_thickness(1))
    return (w1 * (R2 - t1)) ** 2 + (w2 * (g1 - t2)) ** 2


@contract('C14.merit', [OPT + ':OptimizationProblem.sum_squared', OPT + ':OptimizationProblem.fun_array', OPT + ':OptimizationProblem.rss',
                        OPT + ':OptimizerGeneric._fun', OPT + ':OptimizationProblem.update_optics', OPR + ':Operand.fun',
                        OPR + ':Operand.delta', OPR + ':Operand.value'], ['C14'], max_paths=32)
def merit(c):
    lens, v, prob, (t1, t2, w1, w2) = _problem(c)
    c.ensure_eq('C14.merit.sum_squared_is_weighted_sum_of_squares', c.val(prob.sum_squared()), _merit(c, lens, t1, t2, w1, w2))
    rss = c.val(prob.rss())
    c.ensure_eq('C14.merit.rss_squared', rss * rss, _merit(c, lens, t1, t2, w1, w2))
    om = c.mod('optiland.optimization.optimization')
    opt = om.OptimizerGeneric(prob)
    x = [c.real('x0', 0.2, 2.0), c.real('x1', -0.5, 2.0)]
    f = c.val(opt._fun(x))
    # _fun evaluates the merit on the lens *at x*: the variables now read back x
    for i, var in enumerate(prob.variables):
        c.ensure_eq('C14.merit.fun_moves_lens_to_x', c.val(var.value), x[i])
    c.ensure_eq('C14.merit.fun_is_merit_at_x', f, _merit(c, lens, t1, t2, w1, w2))
    c.ensure_eq('C14.merit.fun_equals_sum_squared_on_current_lens', f, c.val(prob.sum_squared()))


@contract('C14.merit.nan', [OPT + ':OptimizerGeneric._fun'], ['C14'], max_paths=8)
def merit_nan(c):
    lens, v, prob, _ = _problem(c)
    opmod = c.mod('optiland.optimization.operand.operand')
    opmod.operand_registry.register('verif_nan', lambda optic: float('nan'), overwrite=True)
    prob.add_operand('verif_nan', 0.0, 1.0, {'optic': lens})
    om = c.mod('optiland.optimization.optimization')
    f = om.OptimizerGeneric(prob)._fun([c.real('x0', 0.2, 2.0), c.real('x1', -0.5, 2.0)])
    c.ensure_eq('C14.merit.undefined_operand_gives_large_penalty', f, 1e10)


def _bounds_contract(kind, scaling):
    @contract('C14.bounds.%s.%s' % (kind, 'scaled' if scaling else 'raw'), [VARF + ':Variable.bounds', VARF + ':Variable.value'],
              ['C14'], max_paths=128)
    def bnd(c):
        spec = _variables.KINDS[kind][3]
        lens, v = arbitrary_lens(c, 4, stop=1, tilts=True, special=({2: spec} if spec else None))
        lens.add_wavelength(0.55, is_primary=True)
        lo, hi = c.real('min_val', -5, 0), c.real('max_val', 0.5, 9)
        var = _variables.make_variable(c, lens, kind, 2, scaling, min_val=lo, max_val=hi)
        b = var.bounds
        # same units as the value: setting the variable to a bound makes the underlying quantity equal the raw bound
        var.update(c.val(b[0]))
        raw_lo = _raw(c, lens, kind)
        var.update(c.val(b[1]))
        raw_hi = _raw(c, lens, kind)
        c.ensure_eq('C14.bounds.same_units_as_value', raw_lo, lo)
        c.ensure_eq('C14.bounds.same_units_as_value', raw_hi, hi)
        v2 = _variables.make_variable(c, lens, kind, 2, scaling)
        c.ensure('C14.bounds.absent_bounds_are_none', v2.bounds == (None, None))
    return bnd


def _raw(c, lens, kind):
    s = lens.surface_group.surfaces[2]
    g = s.geometry
    return {'radius': lambda: g.radius, 'conic': lambda: g.k, 'thickness': lambda: c.val(lens.surface_group.get_thickness(2)),
            'index': lambda: s.material_post.n(0.55), 'tilt_x': lambda: g.cs.rx, 'tilt_y': lambda: g.cs.ry,
            'decenter_x': lambda: g.cs.x, 'decenter_y': lambda: g.cs.y, 'asphere_coeff': lambda: g.c[1],
            'polynomial_coeff': lambda: c.val(g.c[1][0]), 'chebyshev_coeff': lambda: c.val(g.c[0][1])}[kind]()


for _k in ('radius', 'conic', 'thickness', 'index', 'tilt_x', 'decenter_y', 'asphere_coeff', 'polynomial_coeff'):
    for _s in (True, False):
        _bounds_contract(_k, _s)


# ---- final state under the external contract of SciPy ---------------------------------------------------
class _Result:
    def __init__(self, x, fun):
        self.x, self.fun = x, fun


def _scipy_stub(c, log, n_extra=1, mode='minimize'):
    """havoc-with-callback model: evaluates fun at arbitrary points, in arbitrary order, and returns the best *one of them*,
    which is not the last one evaluated"""
    def run(fun, x0, bounds):
        n = len(x0)
        pts = [[c.real('p%d_%d' % (j, i), -0.5, 2.0) for i in range(n)] for j in range(1 + n_extra)]
        vals = [fun(p) for p in pts]
        log['evaluated'] = pts
        log['bounds'] = bounds
        return _Result(c.np.array(pts[0]) if False else list(pts[0]), vals[0])      # returns the first point

    class NS:
        @staticmethod
        def minimize(fun, x0, method=None, bounds=None, options=None, tol=None):
            return run(fun, x0, bounds)

        @staticmethod
        def least_squares(fun, x0, bounds=None, max_nfev=None, verbose=0, ftol=None):
            return run(fun, x0, bounds)

        @staticmethod
        def dual_annealing(fun, bounds=None, maxiter=None, x0=None):
            return run(fun, x0, bounds)

        @staticmethod
        def differential_evolution(fun, bounds=None, maxiter=None, x0=None, disp=None, updating=None, workers=None):
            if workers == -1:
                # evaluations happen in other processes: this process' lens is never touched by fun
                pts = [c.real('p0_%d' % i, -0.5, 2.0) for i in range(len(x0))]
                log['evaluated'] = []
                log['bounds'] = bounds
                return _Result(pts, c.real('reported_fun', 0, 5))
            return run(fun, x0, bounds)
    return NS


def _final_state_contract(front, with_solve):
    @contract('C14.final_state.%s%s' % (front, '.solve' if with_solve else ''),
              [OPT + ':OptimizerGeneric.optimize', OPT + ':LeastSquares.optimize', OPT + ':DualAnnealing.optimize',
               OPT + ':DifferentialEvolution.optimize', OPT + ':OptimizerGeneric.undo', OPT + ':OptimizerGeneric._fun'], ['C14'],
              max_paths=32, concolic=False)
    def fs(c):
        lens, v, prob, (t1, t2, w1, w2) = _problem(c, bounds=True)
        # the lens is edited by hand after the variables were declared: "the state before the run" is not the state at declaration
        lens.set_thickness(c.real('gap_edited_after_the_variables_were_declared', 1.0, 9.0, positive=True), 1)
        if with_solve:
            lens.solves.add('marginal_ray_height', 3, 0.0)        # keeps the image at the paraxial focus
        om = c.mod('optiland.optimization.optimization')
        log = {}
        real_opt = om.optimize
        om.optimize = _scipy_stub(c, log)
        try:
            cls = {'generic': om.OptimizerGeneric, 'least_squares': om.LeastSquares, 'dual_annealing': om.DualAnnealing,
                   'differential_evolution': om.DifferentialEvolution, 'differential_evolution_mp': om.DifferentialEvolution}[front]
            opt = cls(prob)
            x_start = [c.val(var.value) for var in prob.variables]
            if front == 'differential_evolution':
                res = opt.optimize(maxiter=5, disp=False, workers=1)
            elif front == 'differential_evolution_mp':
                res = opt.optimize(maxiter=5, disp=False, workers=-1)
            elif front == 'least_squares':
                res = opt.optimize(maxiter=5)
            else:
                res = opt.optimize(maxiter=5, disp=False)
        finally:
            om.optimize = real_opt
        # the lens is in the state of the returned solution
        for i, var in enumerate(prob.variables):
            c.ensure_eq('C14.final_state.variables_equal_returned_vector', c.val(var.value), c.val(res.x[i]))
        if front != 'differential_evolution_mp':
            c.ensure_eq('C14.final_state.merit_reproduces_returned_objective', c.val(prob.sum_squared()), c.val(res.fun))
        if with_solve:
            ya, ua = lens.paraxial.marginal_ray()
            c.ensure_eq('C14.final_state.solves_satisfied', c.val(ya[3]), 0)
        # bounds handed to SciPy are the variables' bounds (None = unbounded)
        b = log['bounds']
        if front == 'least_squares':
            for i, var in enumerate(prob.variables):
                c.ensure_eq('C14.bounds.passed_to_optimizer', c.val(b[0][i]), c.val(var.bounds[0]))
                c.ensure_eq('C14.bounds.passed_to_optimizer', c.val(b[1][i]), c.val(var.bounds[1]))
        else:
            for i, var in enumerate(prob.variables):
                c.ensure_eq('C14.bounds.passed_to_optimizer', c.val(b[i][0]), c.val(var.bounds[0]))
                c.ensure_eq('C14.bounds.passed_to_optimizer', c.val(b[i][1]), c.val(var.bounds[1]))
        # undo(): back to the state before the run
        opt.undo()
        for i, var in enumerate(prob.variables):
            c.ensure_eq('C14.undo.restores_variables', c.val(var.value), x_start[i])
        # optimise / undo / optimise: a second run of the same optimiser object (returning whatever vector, the same one included)
        # again leaves the lens at the vector it returns
        om.optimize = _scipy_stub(c, log)
        try:
            if front == 'differential_evolution':
                res2 = opt.optimize(maxiter=5, disp=False, workers=1)
            elif front == 'differential_evolution_mp':
                res2 = opt.optimize(maxiter=5, disp=False, workers=-1)
            elif front == 'least_squares':
                res2 = opt.optimize(maxiter=5)
            else:
                res2 = opt.optimize(maxiter=5, disp=False)
        finally:
            om.optimize = real_opt
        for i, var in enumerate(prob.variables):
            c.ensure_eq('C14.final_state.second_run_after_undo_ends_at_its_returned_vector', c.val(var.value), c.val(res2.x[i]))
        # optimise / optimise / undo: undo() takes back the *last* run only -- the lens is where the run before it left it
        x_before_third = [c.val(var.value) for var in prob.variables]
        om.optimize = _scipy_stub(c, log)
        try:
            if front in ('differential_evolution', 'differential_evolution_mp'):
                opt.optimize(maxiter=5, disp=False, workers=1)
            elif front == 'least_squares':
                opt.optimize(maxiter=5)
            else:
                opt.optimize(maxiter=5, disp=False)
        finally:
            om.optimize = real_opt
        opt.undo()
        for i, var in enumerate(prob.variables):
            c.ensure_eq('C14.undo.after_two_runs_restores_the_state_before_the_last_run', c.val(var.value), x_before_third[i])
    return fs


for _f in ('generic', 'least_squares', 'dual_annealing', 'differential_evolution', 'differential_evolution_mp'):
    _final_state_contract(_f, False)
_final_state_contract('generic', True)
_final_state_contract('least_squares', True)


# ---- bounded: the real SciPy solvers (the symbolic contracts above use a havoc-with-callback stand-in for them) -------------------
def _real_scipy(ct, tier, seed):
    """every front end is run with the installed SciPy on small problems built with the public API: on return the lens is at
    result.x, the merit reproduces result.fun, the objective is not worse than at the start, bounded variables are inside their
    bounds, a marginal-ray solve still holds, and undo() restores the start.  (Differential evolution with multi-process workers
    is not run here: a forkserver pool inside the checker's own worker pool hung in this sandbox; its contract above is symbolic.)"""
    import random
    import time
    import warnings
    import numpy as np
    from pyvc import vc
    warnings.simplefilter('ignore')
    np.seterr(all='ignore')
    t0 = time.time()
    clauses, fails, cases = {}, [], 0

    def note(cid, ok, detail, inputs):
        c_ = clauses.setdefault(cid, {'paths': 0, 'proved': 0, 'backends': {}, 'failed': [], 'seconds': 0.0, 'bounded': True})
        c_['paths'] += 1
        if ok:
            c_['proved'] += 1
            c_['backends']['runtime'] = c_['backends'].get('runtime', 0) + 1
        else:
            fails.append({'clause': cid, 'draws': inputs, 'note': detail})
    fronts = ['generic', 'least_squares', 'dual_annealing', 'differential_evolution']
    for trial in range(2 if tier == 'quick' else 8):
        for front in fronts:
            for with_solve in ((False, True) if front in ('generic', 'least_squares') else (False,)):
                c = vc.Ctx('num', rng=random.Random(seed * 1009 + trial * 17 + len(front)))
                try:
                    lens, v, prob, _t = _problem(c, bounds=True, n=6 if with_solve else 4)
                    with_pickup = False
                    if with_solve:
                        lens.solves.add('marginal_ray_height', 3, 0.0)
                        if lens.surface_group.num_surfaces > 4:
                            # round 7: a pickup that reads the gap the solve moves (target behind the solve surface, so acyclic);
                            # it must hold on return and again after undo(), each of which calls update() once
                            lens.pickups.add(2, 'thickness', 3, scale=0.5, offset=1.0)
                            lens.update()
                            with_pickup = True
                    om = c.mod('optiland.optimization.optimization')
                    cls = {'generic': om.OptimizerGeneric, 'least_squares': om.LeastSquares, 'dual_annealing': om.DualAnnealing,
                           'differential_evolution': om.DifferentialEvolution}[front]
                    opt = cls(prob)
                    x_start = [float(np.ravel(var.value)[0]) for var in prob.variables]
                    b = [var.bounds for var in prob.variables]
                    if not all(lo <= x <= hi for x, (lo, hi) in zip(x_start, b)):
                        continue               # SciPy requires a feasible start: not this contract's subject
                    f_start = float(prob.sum_squared())
                    if front == 'differential_evolution':
                        res = opt.optimize(maxiter=3, disp=False, workers=1)
                    elif front == 'least_squares':
                        res = opt.optimize(maxiter=30)
                    elif front == 'dual_annealing':
                        res = opt.optimize(maxiter=15, disp=False)
                    else:
                        res = opt.optimize(maxiter=30, disp=False)
                except Exception as ex:
                    if isinstance(ex, (vc.Reject,)):
                        continue
                    note('C14.runtime.optimizer_returns', False, '%s raised %s: %s' % (front, type(ex).__name__, str(ex)[:200]), {'front_end': front, 'draws': dict(c.draws)})
                    continue
                inputs = {'front_end': front, 'with_solve': with_solve, 'draws': {k: v_ for k, v_ in c.draws.items() if isinstance(v_, (int, float))}}
                cases += 1
                xs = [float(np.ravel(var.value)[0]) for var in prob.variables]
                note('C14.runtime.lens_is_at_the_returned_vector', bool(np.allclose(xs, np.ravel(res.x), rtol=1e-12, atol=1e-12)), '%s vs %s' % (xs, res.x), inputs)
                f_now = float(prob.sum_squared())
                f_res = float(np.ravel(res.fun)[0])        # LeastSquares hands SciPy the scalar merit as its single residual: result.fun = [merit]
                note('C14.runtime.merit_reproduces_the_returned_objective', bool(np.isclose(f_now, f_res, rtol=1e-9, atol=1e-12)), '%s vs %s' % (f_now, f_res), inputs)
                note('C14.runtime.objective_not_worse_than_at_the_start', f_now <= f_start * (1 + 1e-12) + 1e-15, '%s > %s' % (f_now, f_start), inputs)
                note('C14.runtime.bounded_variables_within_bounds', all(lo - 1e-12 <= x <= hi + 1e-12 for x, (lo, hi) in zip(xs, b)), '%s in %s' % (xs, b), inputs)
                if with_solve:
                    ya, _ = lens.paraxial.marginal_ray()
                    note('C14.runtime.solve_holds_on_return', abs(float(ya[3, 0])) < 1e-9, 'ya = %s' % float(ya[3, 0]), inputs)
                def _pickup_gap():
                    g2 = float(np.ravel(lens.surface_group.get_thickness(2))[0])
                    g3 = float(np.ravel(lens.surface_group.get_thickness(3))[0])
                    return abs(g3 - (0.5 * g2 + 1.0)) <= 1e-9 * max(1.0, abs(g3)), 'gap3 = %r, 0.5 * gap2 + 1 = %r' % (g3, 0.5 * g2 + 1.0)
                if with_pickup:
                    ok_, why_ = _pickup_gap()
                    note('C14.runtime.pickup_on_the_solved_gap_holds_on_return', ok_, why_, inputs)
                opt.undo()
                back = [float(np.ravel(var.value)[0]) for var in prob.variables]
                note('C14.runtime.undo_restores_the_start', bool(np.allclose(back, x_start, rtol=1e-12, atol=1e-12)), '%s vs %s' % (back, x_start), inputs)
                if with_pickup:
                    ok_, why_ = _pickup_gap()
                    note('C14.runtime.pickup_on_the_solved_gap_holds_after_undo', ok_, why_, inputs)
                    ya, _ = lens.paraxial.marginal_ray()
                    note('C14.runtime.solve_holds_after_undo', abs(float(ya[3, 0])) < 1e-9, 'ya = %s' % float(ya[3, 0]), inputs)
    return {'contract': ct.name, 'functions': ct.functions, 'props': ct.props,
            'symbolic': {'clauses': clauses, 'paths': 0, 'errors': [], 'solver_s': 0.0, 'samples': [], 'wd_assumed': [], 'assumed': []},
            'numeric': {'accepted': cases, 'rejected': 0, 'failures': fails[:10], 'concolic_agree': 0, 'encoder_mismatches': [],
                        'samples': [{'front_ends': fronts}]}, 'wall_s': time.time() - t0}


contract('C14.runtime.real_scipy', [OPT + ':OptimizerGeneric.optimize', OPT + ':LeastSquares.optimize', OPT + ':DualAnnealing.optimize',
                                    OPT + ':DifferentialEvolution.optimize', OPT + ':OptimizerGeneric.undo'], ['C14'], custom=_real_scipy)(lambda c: None)


# concrete inputs found by the defect-hunting sub-agents (bounded replay, see contracts/hunt.py)
from . import hunt as _hunt  # noqa: E402
_hunt.register('C14')
