"""C05 -- real rays converge to the paraxial prediction as aperture and field vanish.

Per surface, the *real* chain localize -> distance -> propagate -> refract/reflect -> globalize is executed over
order-2 jets in eps for a meridional ray  y = eps*Y, tan(theta) = eps*U  on an axial surface; the eps^0 and eps^2
coefficients of height and slope must vanish and the eps^1 coefficients must equal the outputs of the real
_trace_paraxial run on (Y, U).  Hence (height, slope)/eps = paraxial + O(eps^2) at the surface, for every surface
shape parameter -- the composition over surfaces is the meta-lemma stated in DESIGN.md (odd analytic maps)."""
import math
from pyvc.vc import contract
from pyvc import jet as J
from pyvc import sym as S
from .common import *  # noqa
from .c06 import _surface
from .c03 import _lens as _launch_lens

PROPERTY = 'C05'
K_QUICK = 12
K_THOROUGH = 150
SS = 'optiland/surfaces/standard_surface.py'
FUNCS = [SS + ':Surface._trace_real', SS + ':Surface._trace_paraxial', SS + ':Surface._interact',
         'optiland/geometries/standard.py:StandardGeometry.distance', 'optiland/geometries/standard.py:StandardGeometry.surface_normal',
         'optiland/geometries/plane.py:Plane.distance', 'optiland/rays/real_rays.py:RealRays.refract', 'optiland/rays/real_rays.py:RealRays.reflect',
         'optiland/rays/real_rays.py:RealRays.propagate']
ASSUMPTIONS = ['composition beyond two powered surfaces (machine-checked for one and two by the system_jets contracts) is the meta-lemma of standard analysis: maps that are analytic near the axis, odd under the '
               'meridional mirror (C07) and whose derivatives at the axis are the paraxial matrices compose to a map with the same '
               'properties, so (height, slope)/eps = paraxial + O(eps^2) at every surface of a lens',
               'jets take branch decisions on leading coefficients: the statement is about all sufficiently small eps > 0']


def _surface_any(c, kind, Rsign, mirror, zv):
    surfs = c.mod('optiland.surfaces')
    mats = c.mod('optiland.materials')
    geos = c.mod('optiland.geometries')
    CoordinateSystem = c.mod('optiland.coordinate_system').CoordinateSystem
    n1 = c.real('n1', 1.0, 2.5, positive=True)
    n2 = c.real('n2', 1.0, 2.5, positive=True)
    if kind == 'plane':
        geo = geos.Plane(CoordinateSystem(z=zv))
    else:
        Rp = c.real('Rabs', 10, 80, positive=True)
        k = c.real('k_plus_1', 0.05, 2.0, positive=True) - 1          # every conic with k > -1 (k = -1: see C06 paraboloid)
        geo = geos.StandardGeometry(CoordinateSystem(z=zv), Rsign * Rp, k)
    return surfs.Surface(geo, mats.IdealMaterial(n1, 0.0), mats.IdealMaterial(n2, 0.0), is_reflective=mirror), n1, n2


KNOWN = {
    'C05.asphere.first_order_slope_is_paraxial_slope': {'finding': 'C05-paraxial-ignores-r2-asphere-term', 'role': 'full'},
    'C05.asphere.pin_first_order_slope_uses_vertex_curvature_with_r2_term': {'finding': 'C05-paraxial-ignores-r2-asphere-term', 'role': 'pin'},
}


def _asphere(Rsign, mirror):
    tag = '%s.%s' % ('Rpos' if Rsign > 0 else 'Rneg', 'mirror' if mirror else 'refract')
    EA = 'optiland/geometries/even_asphere.py'
    NR = 'optiland/geometries/newton_raphson.py'

    @contract('C05.asphere.' + tag, [SS + ':Surface._trace_real', SS + ':Surface._trace_paraxial', EA + ':EvenAsphere.sag', EA + ':EvenAsphere._surface_normal',
                                     NR + ':NewtonRaphsonGeometry.distance', NR + ':NewtonRaphsonGeometry._intersection_sphere'],
              ['C05'], bundle=False, max_paths=300, concolic=False)      # one ray: the Newton loop's max() is over that ray
    def pa(c):
        surfs, mats, geos = c.mod('optiland.surfaces'), c.mod('optiland.materials'), c.mod('optiland.geometries')
        CoordinateSystem = c.mod('optiland.coordinate_system').CoordinateSystem
        zv = c.real('gap', 1.0, 10.0, positive=True)
        U = c.real('U', -0.3, 0.3)
        Y = c.real('H_at_vertex_plane', -2, 2) - U * zv
        n1, n2 = c.real('n1', 1.0, 2.5, positive=True), c.real('n2', 1.0, 2.5, positive=True)
        R = Rsign * c.real('Rabs', 10, 80, positive=True)
        k = c.real('k_plus_1', 0.05, 2.0, positive=True) - 1
        C0, C1 = c.real('C_r2', -2e-3, 2e-3), c.real('C_r4', -1e-5, 1e-5)
        geo = geos.EvenAsphere(CoordinateSystem(z=zv), R, k, 1e-10, 100, [C0, C1])
        surf = surfs.Surface(geo, mats.IdealMaterial(n1, 0.0), mats.IdealMaterial(n2, 0.0), is_reflective=mirror)
        PRm, RRm = c.mod('optiland.rays.paraxial_rays'), c.mod('optiland.rays.real_rays')
        cv = 1 / R + 2 * C0                       # vertex curvature of z = conic(r) + C0 r^2 + C1 r^4
        if c.mode == 'num':
            H = Y + U * zv
            up_true = (-U - 2 * H * cv) if mirror else (n1 * U - H * (n2 - n1) * cv) / n2
            errs = []
            for eps in (1e-2, 1e-3):
                th = math.atan(eps * U)
                rr = RRm.RealRays(0.0, eps * Y, 0.0, 0.0, math.sin(th), math.cos(th), 1.0, 0.55)
                surf.trace(rr)
                errs.append((abs(float(rr.y[0]) / eps - H), abs(float(rr.M[0] / rr.N[0]) / eps - up_true)))
            c.ensure('C05.asphere.height_over_eps_converges_quadratically', errs[1][0] <= max(errs[0][0] / 30, 1e-9))
            c.ensure('C05.asphere.pin_slope_over_eps_converges_to_vertex_curvature_refraction', errs[1][1] <= max(errs[0][1] / 30, 1e-9))
            return
        pr = PRm.ParaxialRays(Y, U, 0.0, 0.55)
        surf.trace(pr)
        yp, up = c.val(pr.y), c.val(pr.u)
        yj, Mj, Nj = J.Jet([0, Y, 0]), J.Jet([0, U, 0]), J.Jet([1, 0, -U * U / 2])
        rr = RRm.RealRays(c.arr(0.0), c.arr(yj), c.arr(0.0), c.arr(0.0), c.arr(Mj), c.arr(Nj), c.arr(1.0), c.arr(0.55))
        surf.trace(rr)
        yh = J.Jet.lift(c.val(rr.y))
        sl = J.Jet.lift(c.val(rr.M)) / J.Jet.lift(c.val(rr.N))
        H = Y + U * zv
        c.ensure_eq('C05.asphere.real_height_has_no_constant_term', yh.c[0], 0)
        c.ensure_eq('C05.asphere.first_order_height_is_paraxial_height', yh.c[1], yp)
        c.ensure_eq('C05.asphere.height_has_no_second_order_term', yh.c[2], 0)
        c.ensure_eq('C05.asphere.real_slope_has_no_constant_term', sl.c[0], 0)
        c.ensure_eq('C05.asphere.slope_has_no_second_order_term', sl.c[2], 0)
        # KNOWN FINDING: _trace_paraxial refracts with 1/radius only; the r^2 coefficient of an even asphere also bends paraxial rays
        c.ensure_eq('C05.asphere.first_order_slope_is_paraxial_slope', sl.c[1], up, sym_only=True)
        up_true = (-U - 2 * H * cv) if mirror else (n1 * U - H * (n2 - n1) * cv) / n2
        c.ensure_eq('C05.asphere.pin_first_order_slope_uses_vertex_curvature_with_r2_term', sl.c[1], up_true)
        c.ensure_eq('C05.asphere.paraxial_slope_is_the_C_r2_free_part', up, (-U - 2 * H / R) if mirror else (n1 * U - H * (n2 - n1) / R) / n2)
    return pa


for _rs in (1, -1):
    for _m in (False, True):
        _asphere(_rs, _m)


def _per_surface(kind, Rsign, mirror, backward=False):
    tag = '%s%s.%s%s' % (kind, '' if kind == 'plane' else ('.Rpos' if Rsign > 0 else '.Rneg'), 'mirror' if mirror else 'refract',
                         '.towards_minus_z' if backward else '')

    @contract('C05.surface.' + tag, FUNCS, ['C05'], bundle=True, max_paths=300, concolic=False)
    def ps(c):
        zv = c.real('gap', 1.0, 10.0, positive=True)
        U = c.real('U', -0.3, 0.3)                               # U = dy/dz of the arriving ray (per unit eps)
        sg_ = -1 if backward else 1                              # light travelling towards -z (after a mirror) or +z
        if backward:
            # the ray starts at z = 0 and the vertex lies at z = -gap: same parametrisation mirrored in z
            zv = -zv
        Y = c.real('H_at_vertex_plane', -2, 2) - U * zv          # any (Y, U); parametrised by the paraxial height at the vertex plane
        surf, n1, n2 = _surface_any(c, kind, Rsign, mirror, zv)
        PRm = c.mod('optiland.rays.paraxial_rays')
        RRm = c.mod('optiland.rays.real_rays')
        if c.mode == 'num':
            # bounded stand-in of the same statement: discrepancy / eps shrinks quadratically
            pr = PRm.ParaxialRays(Y, U, 0.0, 0.55)
            surf.trace(pr)
            yp, up = float(pr.y[0]), float(pr.u[0])
            errs = []
            for eps in (1e-2, 1e-3):
                th = math.atan(eps * U)
                rr = RRm.RealRays(0.0, eps * Y, 0.0, 0.0, sg_ * math.sin(th), sg_ * math.cos(th), 1.0, 0.55)
                surf.trace(rr)
                errs.append((abs(float(rr.y[0]) / eps - yp), abs(float(rr.M[0] / rr.N[0]) / eps - up)))
            c.ensure('C05.surface.height_over_eps_converges_quadratically', errs[1][0] <= max(errs[0][0] / 30, 1e-9))
            c.ensure('C05.surface.slope_over_eps_converges_quadratically', errs[1][1] <= max(errs[0][1] / 30, 1e-9))
            return
        pr = PRm.ParaxialRays(Y, U, 0.0, 0.55)
        surf.trace(pr)
        yp, up = c.val(pr.y), c.val(pr.u)
        # meridional ray as an order-2 jet: y = eps Y, (L, M, N) = (0, sin, cos) of atan(eps U) = (0, eps U, 1 - eps^2 U^2/2)
        yj = J.Jet([0, Y, 0])
        Mj = J.Jet([0, sg_ * U, 0])
        Nj = J.Jet([sg_, 0, -sg_ * U * U / 2])
        rr = RRm.RealRays(c.arr(0.0), c.arr(yj), c.arr(0.0), c.arr(0.0), c.arr(Mj), c.arr(Nj), c.arr(1.0), c.arr(0.55))
        surf.trace(rr)
        yh = J.Jet.lift(c.val(rr.y))
        sl = J.Jet.lift(c.val(rr.M)) / J.Jet.lift(c.val(rr.N))
        c.ensure_eq('C05.surface.real_height_has_no_constant_term', yh.c[0], 0)
        c.ensure_eq('C05.surface.first_order_height_is_paraxial_height', yh.c[1], yp)
        c.ensure_eq('C05.surface.height_has_no_second_order_term', yh.c[2], 0)
        c.ensure_eq('C05.surface.real_slope_has_no_constant_term', sl.c[0], 0)
        c.ensure_eq('C05.surface.first_order_slope_is_paraxial_slope', sl.c[1], up)
        c.ensure_eq('C05.surface.slope_has_no_second_order_term', sl.c[2], 0)
        xh = J.Jet.lift(c.val(rr.x))
        c.ensure_eq('C05.surface.meridional_ray_stays_meridional', xh.c[0] + xh.c[1] + xh.c[2], 0)
    return ps


for _kind, _rs in (('plane', 1), ('conic', 1), ('conic', -1)):
    for _m in (False, True):
        _per_surface(_kind, _rs, _m)
        _per_surface(_kind, _rs, _m, backward=True)       # the return path of a catadioptric system


@contract('C05.launch.aims_at_current_pupil', ['optiland/rays/ray_generator.py:RayGenerator.generate_rays'], ['C05', 'C03'], bundle=True, max_paths=64)
def launch_requery(c):
    """rays are aimed at the entrance pupil as it is *now*: a second launch after the pupil moved uses the new pupil"""
    lens, v, apv = _launch_lens(c, False, 'EPD', 'angle', stub=False)
    vals = {'EPL': c.real('EPL_first', 1, 30), 'EPD': c.real('EPD_first', 1, 8, positive=True)}
    lens.paraxial.EPL = lambda: vals['EPL']
    lens.paraxial.EPD = lambda: vals['EPD']
    Hy, Px, Py = c.real('Hy', -1, 1), c.real('Px', -1, 1), c.real('Py', -1, 1)
    c.require(Px * Px + Py * Py <= 1)
    lens.ray_generator.generate_rays(0.0, Hy, c.arr(Px), c.arr(Py), 0.55)
    vals['EPL'], vals['EPD'] = c.real('EPL_second', 1, 30), c.real('EPD_second', 1, 8, positive=True)
    vx, vy = lens.fields.get_vig_factor(0.0, Hy)
    rays = lens.ray_generator.generate_rays(0.0, Hy, c.arr(Px), c.arr(Py), 0.55)
    P0, D = pos_of(c, rays), dir_of(c, rays)
    P1 = (Px * vals['EPD'] / 2 * (1 - c.val(vx)), Py * vals['EPD'] / 2 * (1 - c.val(vy)), vals['EPL'])
    dv = tuple(P1[i] - P0[i] for i in range(3))
    cr = cross(D, dv)
    for i in range(3):
        c.ensure_eq('C05.launch.second_launch_aims_at_the_current_entrance_pupil', cr[i], 0)


def _launch_jets(finite, field, kind):
    tag = '%s.%s.%s' % ('finite' if finite else 'infinite', field, kind)
    RG = 'optiland/rays/ray_generator.py'

    @contract('C05.launch.' + tag, [RG + ':RayGenerator.generate_rays', RG + ':RayGenerator._get_ray_origins', 'optiland/paraxial.py:Paraxial.trace',
                                   'optiland/paraxial.py:Paraxial._get_object_position', 'optiland/fields.py:FieldGroup.get_vig_factor'],
              ['C05'], bundle=True, max_paths=100, concolic=False)
    def lj(c):
        """the real launch of a marginal-type (Hy = 0, Py = eps p) or chief-type (Hy = eps h, P = 0) ray and the launch of
        Paraxial.trace for the same normalised coordinates describe the same line up to O(eps^3)"""
        lens, v, apv = _launch_lens(c, finite, 'EPD', field)
        caught = []
        lens.surface_group.trace = lambda rays: caught.append(rays)
        h = c.real('h', -1, 1) if kind == 'chief' else 0.0
        p = c.real('p', -1, 1) if kind == 'marginal' else 0.0
        w = 0.55
        if c.mode == 'num':
            errs = []
            for eps in (1e-2, 1e-3):
                del caught[:]
                lens.paraxial.trace(eps * h, eps * p, w)
                rr = lens.ray_generator.generate_rays(0.0, eps * h, c.np.array([0.0]), c.np.array([eps * p]), w)
                pr = caught[0]
                s = float(rr.M[0] / rr.N[0])
                yr = float(rr.y[0]) + s * (float(pr.z[0]) - float(rr.z[0]))
                errs.append((abs(yr - float(pr.y[0])) / eps, abs(s - float(pr.u[0])) / eps))
            c.ensure('C05.launch.height_discrepancy_over_eps_shrinks_quadratically', errs[1][0] <= max(errs[0][0] / 30, 1e-9))
            c.ensure('C05.launch.slope_discrepancy_over_eps_shrinks_quadratically', errs[1][1] <= max(errs[0][1] / 30, 1e-9))
            return
        Hy = J.Jet([0, h, 0]) if kind == 'chief' else 0.0
        Py = J.Jet([0, p, 0]) if kind == 'marginal' else 0.0
        lens.paraxial.trace(Hy, Py, w)
        pr = caught[0]
        rr = lens.ray_generator.generate_rays(0.0, Hy, c.arr(0.0), c.arr(Py), w)
        y0p, u0p, z0p = J.Jet.lift(c.val(pr.y)), J.Jet.lift(c.val(pr.u)), J.Jet.lift(c.val(pr.z))
        s = J.Jet.lift(c.val(rr.M)) / J.Jet.lift(c.val(rr.N))
        yr = J.Jet.lift(c.val(rr.y)) + s * (z0p - J.Jet.lift(c.val(rr.z)))
        dy, du = yr - y0p, s - u0p
        for i in range(3):
            c.ensure_eq('C05.launch.real_and_paraxial_launch_heights_agree_to_second_order', dy.c[i], 0)
            c.ensure_eq('C05.launch.real_and_paraxial_launch_slopes_agree_to_second_order', du.c[i], 0)
        c.ensure_eq('C05.launch.paraxial_launch_vanishes_with_eps', y0p.c[0] + u0p.c[0], 0) if False else None
        xr = J.Jet.lift(c.val(rr.x))
        Lr = J.Jet.lift(c.val(rr.L))
        c.ensure_eq('C05.launch.meridional', xr.c[0] + xr.c[1] + xr.c[2] + Lr.c[0] + Lr.c[1] + Lr.c[2], 0)
    return lj


for _fin, _fld in ((False, 'angle'), (True, 'object_height'), (True, 'angle')):
    for _kind in ('marginal', 'chief'):
        _launch_jets(_fin, _fld, _kind)


# ---- Paraxial.trace(0, 1) / (1, 0) are the marginal / chief ray lines (links the launch lemmas to marginal_ray(), chief_ray()) ----
def _unit_rays(finite, field, ap='EPD'):
    tag = '%s.%s' % ('finite' if finite else 'infinite', field) + ('' if ap == 'EPD' else '.' + ap)

    @contract('C05.unit_rays.' + tag, ['optiland/paraxial.py:Paraxial.trace', 'optiland/paraxial.py:Paraxial._get_object_position',
                                       'optiland/paraxial.py:Paraxial.marginal_ray'], ['C05'], bundle=True, max_paths=64, concolic=False)
    def ur(c):
        lens, v, apv = _launch_lens(c, finite, ap, field)
        EPLv, EPDv = lens.paraxial.EPL(), lens.paraxial.EPD()
        lens.paraxial.EPL = lambda: EPLv
        lens.paraxial.EPD = lambda: EPDv
        EPL = c.val(EPLv)
        caught, launched = [], []
        lens.surface_group.trace = lambda rays, *a: caught.append(rays)
        lens.paraxial._trace_generic = lambda y, u, z, w, **k: launched.append((y, u, z))
        w = 0.55
        maxf = 14.0 if field == 'angle' else 5.0
        # marginal: Paraxial.trace(0, 1) is the line launched by marginal_ray()
        lens.paraxial.trace(0.0, 1.0, w)
        pr = caught[0]
        y0, u0, z0 = c.val(pr.y), c.val(pr.u), c.val(pr.z)
        lens.paraxial.marginal_ray()
        ym, um, zm = launched[0]
        ym, um, zm = c.val(c.np.asarray(ym)), c.val(c.np.asarray(um)), c.val(c.np.asarray(zm))
        c.ensure_eq('C05.unit_rays.paraxial_trace_of_unit_pupil_is_the_marginal_ray.slope', u0, um)
        c.ensure_eq('C05.unit_rays.paraxial_trace_of_unit_pupil_is_the_marginal_ray.height', y0 + u0 * (zm - z0), ym)
        # chief: Paraxial.trace(1, 0) passes through the centre of the entrance pupil with the full field -- which, with
        # C04.EPL (the pupil is the image of the stop centre) and C04.chief_ray.*, is the ray returned by chief_ray()
        del caught[:]
        lens.paraxial.trace(1.0, 0.0, w)
        pr = caught[0]
        y0, u0, z0 = c.val(pr.y), c.val(pr.u), c.val(pr.z)
        c.ensure_eq('C05.unit_rays.paraxial_trace_of_unit_field_passes_through_pupil_centre', y0 + u0 * (EPL - z0), 0)
        if field == 'angle':
            # the field table is concrete here, so the code's np.tan(np.radians(14.0)) is a float: compared as such
            c.ensure_eq('C05.unit_rays.paraxial_trace_of_unit_field_has_the_field_angle', u0, math.tan(math.radians(maxf)))
        else:
            c.ensure_eq('C05.unit_rays.paraxial_trace_of_unit_field_starts_at_the_object_height', y0, maxf)
            c.ensure_eq('C05.unit_rays.paraxial_trace_of_unit_field_starts_at_the_object_height', z0, v['z'][0])
    return ur


for _fin, _fld in ((False, 'angle'), (True, 'object_height'), (True, 'angle')):
    _unit_rays(_fin, _fld)
# every aperture type: the marginal ray is launched towards the rim of the entrance pupil EPD() describes, whatever defines EPD()
_unit_rays(True, 'object_height', 'objectNA')
_unit_rays(True, 'angle', 'objectNA')
_unit_rays(False, 'angle', 'imageFNO')


# ---- bounded tier: whole lenses, geometric eps sequences -------------------------------------------------------------------
def _quadratic(errs, epss, floor, per_eps=True):
    """errs[k] = discrepancy (already divided by the scale factor) at epss[k], decreasing eps.
    'at least quadratic': bounded by C eps^2 with C taken from the largest eps (slack 3), down to a rounding floor"""
    C = errs[0] / epss[0] ** 2
    for e, eps in zip(errs[1:], epss[1:]):
        # the floor is an *absolute* rounding error of the traced quantity (1e-9 of the lens scale); the discrepancy is that
        # quantity divided by eps (near-parallel rays on a paraboloid lose digits in the conic quadratic: ~3e-10 mm, unchanged tree)
        if not (e <= 3 * C * eps ** 2 + (floor / eps if per_eps else floor)):
            return False
    return True


def _bounded(ct, tier, seed):
    import random
    import time
    import warnings
    import numpy as np
    from . import rt
    warnings.simplefilter('ignore')
    np.seterr(all='ignore')
    t0 = time.time()
    rng = random.Random(seed * 13 + 7)
    clauses, fails = {}, []
    cases = 0

    def note(cid, ok, detail, inputs):
        c_ = clauses.setdefault(cid, {'paths': 0, 'proved': 0, 'backends': {}, 'failed': [], 'seconds': 0.0, 'bounded': True})
        c_['paths'] += 1
        if ok:
            c_['proved'] += 1
            c_['backends']['runtime'] = c_['backends'].get('runtime', 0) + 1
        else:
            fails.append({'clause': cid, 'draws': inputs, 'note': detail})

    lenses = []
    names = rt.sample_names()
    rng.shuffle(names)
    for (m, n) in names[:(5 if tier == 'quick' else len(names))]:
        lenses.append((n, lambda m=m, n=n: rt.make_sample(m, n)))
    for i in range(6 if tier == 'quick' else 60):
        st = rng.getstate()
        lenses.append(('random#%d' % i, lambda st=st, i=i: rt.random_lens(_rng(st), finite=(i % 3 == 0), asphere=(i % 2 == 0))))
    def _newtonian():
        # a paraboloid met by axis-parallel light: the a == 0 branch of the conic intersection
        from optiland.optic import Optic
        o = Optic()
        o.add_surface(index=0, thickness=np.inf)
        o.add_surface(index=1, radius=-200.0, conic=-1.0, thickness=-100.0, material='mirror', is_stop=True)
        o.add_surface(index=2)
        o.set_aperture('EPD', 20.0)
        o.set_field_type('angle')
        o.add_field(y=0.0)
        o.add_field(y=0.5)
        o.add_wavelength(0.55, is_primary=True)
        return o

    def _paraboloidal_lens():
        from optiland.optic import Optic
        from optiland.materials import IdealMaterial
        o = Optic()
        o.add_surface(index=0, thickness=np.inf)
        o.add_surface(index=1, radius=40.0, conic=-1.0, thickness=5.0, material=IdealMaterial(1.6), is_stop=True)
        o.add_surface(index=2, radius=-90.0, thickness=50.0)
        o.add_surface(index=3)
        o.set_aperture('EPD', 8.0)
        o.set_field_type('angle')
        o.add_field(y=0.0)
        o.add_field(y=2.0)
        o.add_wavelength(0.55, is_primary=True)
        o.image_solve()
        return o
    lenses.append(('Newtonian paraboloid', _newtonian))
    lenses.append(('singlet with a paraboloidal front', _paraboloidal_lens))
    epss = [3e-2, 3e-3, 3e-4]
    used = []
    for lname, mk in lenses:
        try:
            L = mk()
            w = L.primary_wavelength
            ya, ua = L.paraxial.marginal_ray()
            yb, ub = L.paraxial.chief_ray()
            ya, ua, yb, ub = ya[:, 0], ua[:, 0], yb[:, 0], ub[:, 0]
        except Exception:
            continue
        # known finding C05-paraxial-ignores-r2-asphere-term: lenses with an r^2 asphere coefficient are compared with the
        # paraxial rays of the same lens with that term folded into the vertex radius (separate clause ids)
        from optiland.geometries import EvenAsphere
        r2 = [k_ for k_, s_ in enumerate(L.surface_group.surfaces) if isinstance(s_.geometry, EvenAsphere)
              and len(s_.geometry.c) > 0 and s_.geometry.c[0] != 0]
        pre = 'C05.runtime.'
        if r2:
            pre = 'C05.runtime.r2_asphere.'
            try:
                import copy
                Lc = copy.deepcopy(L)
                for k_ in r2:
                    g = Lc.surface_group.surfaces[k_].geometry
                    g.radius = 1.0 / (1.0 / g.radius + 2.0 * g.c[0])
                # the real rays are aimed with the pupil of the lens as the library computes it: same launch, corrected lens
                zl = L.object_surface.geometry.cs.z if not L.object_surface.is_infinite else L.surface_group.positions[1, 0] - 10
                ya, ua = Lc.paraxial._trace_generic(float(ya[0]), float(ua[0]), float(zl), w)
                yb, ub = Lc.paraxial.chief_ray()
                ya, ua, yb, ub = ya[:, 0], ua[:, 0], yb[:, 0], ub[:, 0]
            except Exception:
                continue
        if not (np.all(np.isfinite(ya[1:])) and np.all(np.isfinite(yb[1:]))):
            continue
        inputs = {'lens': lname}
        n = L.surface_group.num_surfaces
        stop = L.surface_group.stop_index
        fmax = L.fields.max_field
        same_norm = abs(L.fields.max_y_field - fmax) < 1e-12
        scale = float(np.max(np.abs(ya[1:])) + np.max(np.abs(yb[1:])) + 1e-9)

        def tau(eps):
            if L.field_type == 'angle':
                return math.tan(math.radians(eps * fmax)) / math.tan(math.radians(fmax))
            return eps

        def run(Hy, Py):
            L.trace_generic(0.0, Hy, 0.0, Py, w)
            sg = L.surface_group
            return sg.y[:, 0].copy(), (sg.M[:, 0] / sg.N[:, 0]).copy(), sg.z[:, 0].copy()
        try:
            marg = [run(0.0, e) for e in epss]
            # object-space telecentric mode launches chief rays parallel to the axis by request instead of aiming at the
            # paraxial pupil: the chief-type statements are about pupil-aimed rays
            chief = [run(e, 0.0) for e in epss] if fmax > 0 and same_norm and not L.obj_space_telecentric and not [k_ for k_ in r2 if k_ < L.surface_group.stop_index] else None
        except Exception:
            continue
        if any(not np.all(np.isfinite(m[0][1:])) for m in marg):
            continue                    # e.g. a central obscuration blocks the axial bundle: not C05's subject
        used.append(lname)
        floor = 1e-10 * scale          # absolute rounding error allowed in a traced height (divided by eps in the criterion)
        for k in range(1, n):
            cases += 1
            eh = [abs(m[0][k] / e - ya[k]) for m, e in zip(marg, epss)]
            note(pre + 'marginal_type_heights_converge_quadratically', _quadratic(eh, epss, floor) and eh[0] <= 0.05 * scale,
                 '%s surface %d: |y/eps - ya| = %s for eps = %s' % (lname, k, eh, epss), inputs)
            if k < n - 1:
                es = [abs(m[1][k] / e - ua[k]) for m, e in zip(marg, epss)]
                note(pre + 'marginal_type_slopes_converge_quadratically', _quadratic(es, epss, 1e-11) and es[0] <= 0.05 * (abs(ua[k]) + 1e-3),
                     '%s surface %d: |tan/eps - ua| = %s' % (lname, k, es), inputs)
        # real axial focus -> paraxial back focal position
        k = n - 2
        if abs(ua[k]) > 1e-6:
            zp = -ya[k] / ua[k]
            ez = [abs(-m[0][k] / m[1][k] + (m[2][k] - L.surface_group.positions[k, 0]) - zp) for m in marg]
            cases += 1
            note(pre + 'axial_focus_tends_to_paraxial_focus', _quadratic(ez, epss, 1e-7 * (abs(zp) + 1), per_eps=False),
                 '%s: |z_focus(eps) - z_paraxial| = %s' % (lname, ez), inputs)
        if chief is not None and all(np.all(np.isfinite(c_[0][1:])) for c_ in chief):
            for k in range(1, n):
                cases += 1
                eh = [abs(c_[0][k] / tau(e) - yb[k]) for c_, e in zip(chief, epss)]
                note(pre + 'chief_type_heights_converge_quadratically', _quadratic(eh, epss, floor) and eh[0] <= 0.05 * scale,
                     '%s surface %d: |y/tau - yb| = %s' % (lname, k, eh), inputs)
                if k < n - 1:
                    es = [abs(c_[1][k] / tau(e) - ub[k]) for c_, e in zip(chief, epss)]
                    note(pre + 'chief_type_slopes_converge_quadratically', _quadratic(es, epss, 1e-11) and es[0] <= 0.05 * (abs(ub[k]) + 1e-3),
                         '%s surface %d: |tan/tau - ub| = %s' % (lname, k, es), inputs)
            # zero-pupil ray of every field -> centre of the stop
            for (Hx, Hy) in L.fields.get_field_coords():
                if Hx != 0 or Hy == 0:
                    continue
                try:
                    ys = [abs(run(e * Hy, 0.0)[0][stop]) / e for e in epss]
                except Exception:
                    continue
                if not np.all(np.isfinite(ys)):
                    continue
                cases += 1
                note(pre + 'zero_pupil_ray_tends_to_stop_centre', _quadratic(ys, epss, floor) and ys[0] <= 0.05 * scale,
                     '%s field %s: |y_stop|/eps = %s' % (lname, Hy, ys), inputs)
    return {'contract': ct.name, 'functions': ct.functions, 'props': ct.props,
            'symbolic': {'clauses': clauses, 'paths': 0, 'errors': [], 'solver_s': 0.0, 'samples': [], 'wd_assumed': [], 'assumed': []},
            'numeric': {'accepted': cases, 'rejected': 0, 'failures': fails[:10], 'concolic_agree': 0, 'encoder_mismatches': [],
                        'samples': [{'lenses': used[:12], 'eps': epss}]}, 'wall_s': time.time() - t0}


def _rng(state):
    import random
    r = random.Random()
    r.setstate(state)
    return r


contract('C05.runtime', ['optiland/optic.py:Optic.trace_generic', 'optiland/paraxial.py:Paraxial.marginal_ray', 'optiland/paraxial.py:Paraxial.chief_ray',
                         'optiland/surfaces/surface_group.py:SurfaceGroup.trace'], ['C05'], custom=_bounded)(lambda c: None)


def _chief_is_unit_field(n, stop, finite, field):
    from .c04 import _setup
    tag = 'n%d.s%d.%s.%s' % (n, stop, 'fin' if finite else 'inf', field)
    PX = 'optiland/paraxial.py'

    @contract('C05.chief_ray_is_unit_field_trace.' + tag, [PX + ':Paraxial.chief_ray', PX + ':Paraxial.trace', PX + ':Paraxial.EPL',
                                                           PX + ':Paraxial._get_object_position'], ['C05', 'C04'], max_paths=64, groebner_s=40)
    def cu(c):
        """chief_ray() is the paraxial ray of normalised coordinates (Hy, Py) = (1, 0) -- sign included -- at every surface"""
        lens, v, apv, fy = _setup(c, n, stop, finite, 'EPD', field)
        yb, ub = lens.paraxial.chief_ray()
        yb = [c.val(yb[k]) for k in range(n)]
        ub = [c.val(ub[k]) for k in range(n)]
        lens.paraxial.trace(1.0, 0.0, 0.55)
        sg = lens.surface_group
        for k in range(1, n):
            c.ensure_eq('C05.chief_ray_is_unit_field_trace.height', c.val(sg.y[k]), yb[k])
            if k < n - 1:
                c.ensure_eq('C05.chief_ray_is_unit_field_trace.slope', c.val(sg.u[k]), ub[k])
    return cu


# (4, 1, False, 'angle'): stop on the first surface of an infinite-object lens -- EPL == positions[1], where Paraxial.trace used to
# divide 0/0 (fixed by 90068ca)
for (_n, _s, _f, _fl) in ((4, 2, False, 'angle'), (4, 2, True, 'object_height'), (4, 2, True, 'angle'), (4, 1, True, 'object_height'),
                          (4, 1, False, 'angle')):
    _chief_is_unit_field(_n, _s, _f, _fl)


# ---- composition machine-checked on small symbolic lenses: the whole real trace over jets -------------------------------------
def _two_surface_lens(c, s1, s2, finite, field):
    """finite object, conic stop surface (radius s1*R1, k1 > -1), plane image surface; every length a positive symbol.
    (A second powered surface makes the exploration run for tens of minutes; s2 is unused.)"""
    Optic = c.mod('optiland.optic').Optic
    CoordinateSystem = c.mod('optiland.coordinate_system').CoordinateSystem
    geos, mats, surfs = c.mod('optiland.geometries'), c.mod('optiland.materials'), c.mod('optiland.surfaces')
    lens = Optic()
    T0 = c.real('T0', 5.0, 30.0, positive=True)
    t1 = c.real('t1', 5.0, 40.0, positive=True)
    n0, n1 = c.real('n0', 1.0, 2.0, positive=True), c.real('n1', 1.0, 2.0, positive=True)
    m0, m1 = mats.IdealMaterial(n=n0, k=0.0), mats.IdealMaterial(n=n1, k=0.0)
    R1 = s1 * c.real('R1abs', 20, 80, positive=True)
    k1 = c.real('k1_plus_1', 0.2, 1.8, positive=True) - 1
    sg = lens.surface_group.surfaces
    sg.append(surfs.ObjectSurface(geos.Plane(CoordinateSystem(z=-T0)), m0))
    if s2 == 0:
        sg.append(surfs.Surface(geos.StandardGeometry(CoordinateSystem(z=0.0), R1, k1), m0, m1, is_stop=True))
        sg.append(surfs.Surface(geos.Plane(CoordinateSystem(z=t1)), m1, m1))
    else:
        # a second powered surface (sphere) behind the stop surface, then the image plane
        n2 = c.real('n2', 1.0, 2.0, positive=True)
        m2 = mats.IdealMaterial(n=n2, k=0.0)
        t2 = c.real('t2', 5.0, 40.0, positive=True)
        sg.append(surfs.Surface(geos.StandardGeometry(CoordinateSystem(z=0.0), R1, k1), m0, m1, is_stop=True))
        sg.append(surfs.Surface(geos.StandardGeometry(CoordinateSystem(z=t1), s2 * c.real('R2abs', 20, 80, positive=True), 0.0), m1, m2))
        sg.append(surfs.Surface(geos.Plane(CoordinateSystem(z=t1 + t2)), m2, m2))
    lens.add_wavelength(0.55, is_primary=True)
    lens.set_aperture('EPD', c.real('epd', 1.0, 4.0, positive=True))
    lens.set_field_type(field)
    lens.add_field(y=0.0)
    lens.add_field(y=(10.0 if field == 'angle' else 3.0))
    return lens


def _system_jets(s1, s2, finite, field, kind):
    tag = '%s%s.%s.%s.%s' % ('+' if s1 > 0 else '-', '0' if s2 == 0 else ('+' if s2 > 0 else '-'), 'fin' if finite else 'inf', field, kind)

    @contract('C05.system_jets.' + tag, ['optiland/optic.py:Optic.trace_generic', 'optiland/surfaces/surface_group.py:SurfaceGroup.trace',
                                         SS + ':Surface._trace_real', 'optiland/paraxial.py:Paraxial.trace', 'optiland/paraxial.py:Paraxial.EPL',
                                         'optiland/rays/ray_generator.py:RayGenerator.generate_rays'],
              ['C05'], max_paths=200, concolic=False, groebner_s=40, sqrt_factor=True)
    def sj(c):
        """Optic.trace_generic on a symbolic single-surface lens (finite object; any radius, conic, gaps, indices, aperture), executed over jets:
        at every surface the real height and tangent equal those of Paraxial.trace for the same normalised coordinates up to
        O(eps^3) -- the composition of launch, entrance-pupil computation, a surface step and the transfer to the image plane, machine-checked"""
        if c.mode == 'num':
            return
        lens = _two_surface_lens(c, s1, s2, finite, field)
        n = 3 if s2 == 0 else 4
        pos = (s2 != 0)          # two powered surfaces: upper half only (the lower half is its mirror image, C07)
        h = c.real('h', 0.05 if pos else -1, 1, positive=pos) if kind == 'chief' else 0.0
        p = c.real('p', 0.05 if pos else -1, 1, positive=pos) if kind == 'marginal' else 0.0
        Hy = J.Jet([0, h, 0]) if kind == 'chief' else 0.0
        Py = J.Jet([0, p, 0]) if kind == 'marginal' else 0.0
        lens.paraxial.trace(Hy, Py, 0.55)
        sg = lens.surface_group
        yp = [J.Jet.lift(c.val(sg.y[k])) for k in range(n)]
        up = [J.Jet.lift(c.val(sg.u[k])) for k in range(n)]
        lens.trace_generic(0.0, Hy, 0.0, Py, 0.55)
        for k in range(1, n):
            yr = J.Jet.lift(c.val(sg.y[k]))
            dy = yr - yp[k]
            for i in range(3):
                c.ensure_eq('C05.system_jets.height_agrees_with_paraxial_to_second_order', dy.c[i], 0)
            if k < n - 1:
                sr = J.Jet.lift(c.val(sg.M[k])) / J.Jet.lift(c.val(sg.N[k]))
                du = sr - up[k]
                for i in range(3):
                    c.ensure_eq('C05.system_jets.tangent_agrees_with_paraxial_to_second_order', du.c[i], 0)
    return sj


for _s1 in (+1, -1):
    for (_f, _fl) in ((True, 'angle'), (True, 'object_height')):
        for _kind in ('marginal', 'chief'):
            _system_jets(_s1, 0, _f, _fl, _kind)


import os as _os
for _s1, _s2 in ((+1, -1), (-1, +1)):
    # the marginal-type variants explore 40-64 paths at ~2 s each: thorough tier only (same obligations as the other variants)
    for _kind in (('marginal', 'chief') if _os.environ.get('VERIF_TIER_EFFECTIVE', 'quick') == 'thorough' else ('chief',)):
        _system_jets(_s1, _s2, True, 'object_height', _kind)


# concrete inputs found by the defect-hunting sub-agents (bounded replay, see contracts/hunt.py)
from . import hunt as _hunt  # noqa: E402
_hunt.register('C05')
