"""C17 -- Fresnel coefficients conserve energy; polarization elements obey their algebra."""
import math
from pyvc.vc import contract
from .common import *  # noqa

PROPERTY = 'C17'
K_QUICK = 20
K_THOROUGH = 400
JO = 'optiland/jones.py'
PR = 'optiland/rays/polarized_rays.py'
TRUSTED = ['complex numbers as pairs of reals; exp(i x) = cos x + i sin x; principal sqrt of a non-negative real is the real sqrt']
KNOWN = {
    'C17.diattenuator.rotation_offdiagonal': {'finding': 'C17-diattenuator-offdiag', 'role': 'full'},
    'C17.diattenuator.offdiagonal_pin': {'finding': 'C17-diattenuator-offdiag', 'role': 'pin'},
}


class _Mat:
    def __init__(self, n):
        self._n = n

    def n(self, w):
        return self._n

    def k(self, w):
        return 0.0


def _dummy_rays(c):
    return mk_rays(c, (0.0, 0.0, 0.0), (0.0, 0.0, 1.0))


def _m(c, J, i, j):
    return c.val(J[0, i, j])


def _abs2(c, z):
    z = c.val(z)
    return (z * z.conjugate()).real if hasattr(z, 'conjugate') else z * z


def _fresnel(c, n1, n2, aoi):
    J = c.mod('optiland.jones').JonesFresnel(_Mat(n1), _Mat(n2))
    rays = _dummy_rays(c)
    Jr = J.calculate_matrix(rays, reflect=True, aoi=c.arr(aoi))
    Jt = J.calculate_matrix(rays, reflect=False, aoi=c.arr(aoi))
    return Jr, Jt


@contract('C17.JonesFresnel.energy', [JO + ':JonesFresnel.calculate_matrix'], ['C17'], bundle=True)
def fresnel_energy(c):
    n1 = c.real('n1', 1.0, 4.0, positive=True)
    n2 = c.real('n2', 1.0, 4.0, positive=True)
    th = c.real('theta', 0.0, 1.55, nonneg=True)
    cs, sn = c.cos(th), c.sin(th)
    n = n2 / n1
    c.require(cs > 0)                    # theta in [0, 90 deg)
    c.require(n * n - sn * sn > 0)       # below the critical angle
    Jr, Jt = _fresnel(c, n1, n2, th)
    root = c.sqrt(n * n - sn * sn)       # = n cos(theta_t)
    rs, rp = _m(c, Jr, 0, 0), -_m(c, Jr, 1, 1)
    ts, tp = _m(c, Jt, 0, 0), _m(c, Jt, 1, 1)
    for z in (rs, rp, ts, tp):
        c.ensure_eq('C17.fresnel.real_below_critical_angle', z.imag if hasattr(z, 'imag') else 0, 0)
    Rs, Rp = _abs2(c, rs), _abs2(c, rp)
    Ts, Tp = (root / cs) * _abs2(c, ts), (root / cs) * _abs2(c, tp)     # (n2 cos t)/(n1 cos i) |t|^2
    c.ensure_eq('C17.fresnel.energy_s', Rs + Ts, 1)
    c.ensure_eq('C17.fresnel.energy_p', Rp + Tp, 1)
    c.ensure_eq('C17.fresnel.reflect_zz', _m(c, Jr, 2, 2), -1)
    c.ensure_eq('C17.fresnel.transmit_zz', _m(c, Jt, 2, 2), 1)
    for (i, j) in ((0, 1), (1, 0), (0, 2), (2, 0), (1, 2), (2, 1)):
        c.ensure_eq('C17.fresnel.diagonal', _m(c, Jr, i, j), 0)
        c.ensure_eq('C17.fresnel.diagonal', _m(c, Jt, i, j), 0)


@contract('C17.JonesFresnel.brewster', [JO + ':JonesFresnel.calculate_matrix'], ['C17'], bundle=True)
def fresnel_brewster(c):
    n1 = c.real('n1', 1.0, 4.0, positive=True)
    n2 = c.real('n2', 1.0, 4.0, positive=True)
    n = n2 / n1
    if c.mode == 'num':
        th = math.atan(n)
    else:
        th = c.real('theta', 0.0, 1.55, nonneg=True)
        if c.mode == 'concolic':
            c.env[th.e] = math.atan(float(c.draws['n2']) / float(c.draws['n1']))
    cs, sn = c.cos(th), c.sin(th)
    c.require(cs > 0)
    if c.mode != 'num':
        c.require(sn - n * cs == 0)          # tan(theta) = n2/n1
    Jr, _ = _fresnel(c, n1, n2, th)
    rp = -_m(c, Jr, 1, 1)
    root = c.sqrt(n * n - sn * sn)
    A = c.abstract('A', n * n * cs)
    c.ensure('C17.fresnel.brewster_p_reflection_vanishes', rp == 0 if c.mode != 'num' else abs(rp) < 1e-12,
             using=[root * root == A * A, A > 0, root >= 0] if c.mode != 'num' else ())


@contract('C17.JonesFresnel.normal_incidence', [JO + ':JonesFresnel.calculate_matrix'], ['C17'], bundle=True)
def fresnel_normal(c):
    n1 = c.real('n1', 1.0, 4.0, positive=True)
    n2 = c.real('n2', 1.0, 4.0, positive=True)
    Jr, Jt = _fresnel(c, n1, n2, 0.0)
    R = ((n1 - n2) / (n1 + n2)) ** 2
    n = n2 / n1
    root = c.sqrt(n * n)
    lem = [root == n] if c.mode != 'num' else ()
    Rs = c.abstract('Rs', _abs2(c, _m(c, Jr, 0, 0)))
    Rp = c.abstract('Rp', _abs2(c, _m(c, Jr, 1, 1)))
    if c.mode == 'num':
        c.ensure_eq('C17.fresnel.normal_incidence_s', Rs, R)
        c.ensure_eq('C17.fresnel.normal_incidence_p', Rp, R)
    else:
        # sqrt(n^2) = n for n > 0, then polynomial identity
        c.ensure('C17.fresnel.sqrt_n2', root == n)
        c.require(root == n)
        c.ensure_eq('C17.fresnel.normal_incidence_s', _abs2(c, _m(c, Jr, 0, 0)), R)
        c.ensure_eq('C17.fresnel.normal_incidence_p', _abs2(c, _m(c, Jr, 1, 1)), R)


# ---- polarizers -----------------------------------------------------------------------------
_POL = {'H': ('JonesPolarizerH', 'H', 'V'), 'V': ('JonesPolarizerV', 'V', 'H'),
        'L45': ('JonesPolarizerL45', 'L+45', 'L-45'), 'L135': ('JonesPolarizerL135', 'L-45', 'L+45'),
        'RCP': ('JonesPolarizerRCP', 'RCP', 'LCP'), 'LCP': ('JonesPolarizerLCP', 'LCP', 'RCP')}


def _state_vec(c, name):
    st = c.mod('optiland.rays.polarization_state').create_polarization(name)
    import cmath

    def ph(x):
        if isinstance(x, S.Sym):
            return S.s_cos(x) + S.Sym(S.sp.I) * S.s_sin(x)
        return cmath.exp(1j * x)
    return (st.Ex * ph(st.phase_x), st.Ey * ph(st.phase_y))


def _polarizer_contract(key):
    cls, own, orth = _POL[key]

    @contract('C17.polarizer.' + key, [JO + ':' + cls + '.calculate_matrix',
                                      'optiland/rays/polarization_state.py:create_polarization'], ['C17'], no_numeric_vacuity=True)
    def pol(c):
        J = getattr(c.mod('optiland.jones'), cls)().calculate_matrix(_dummy_rays(c))
        M = [[_m(c, J, i, j) for j in range(2)] for i in range(2)]
        for i in range(2):
            for j in range(2):
                c.ensure_eq('C17.polarizer.idempotent', sum(M[i][k] * M[k][j] for k in range(2)), M[i][j])
        v, o = _state_vec(c, own), _state_vec(c, orth)
        for i in range(2):
            c.ensure_eq('C17.polarizer.passes_own_state', M[i][0] * v[0] + M[i][1] * v[1], v[i])
            c.ensure_eq('C17.polarizer.blocks_orthogonal_state', M[i][0] * o[0] + M[i][1] * o[1], 0)
        c.ensure_eq('C17.polarizer.zz', _m(c, J, 2, 2), 1)
        for (i, j) in ((0, 2), (2, 0), (1, 2), (2, 1)):
            c.ensure_eq('C17.polarizer.transverse_block', _m(c, J, i, j), 0)
    return pol


for _k in _POL:
    _polarizer_contract(_k)


# ---- retarders / diattenuator -------------------------------------------------------------------
def _rot_conj(c, th, d0, d1):
    """R(th) diag(d0, d1) R(-th) as 2x2 entries"""
    cs, sn = c.cos(th), c.sin(th)
    return [[d0 * cs * cs + d1 * sn * sn, (d0 - d1) * cs * sn],
            [(d0 - d1) * cs * sn, d0 * sn * sn + d1 * cs * cs]]


def _cexp(c, x):
    """exp(i x) in every mode"""
    return c.cos(x) + 1j * c.sin(x) if c.mode == 'num' else c.cos(x) + S.Sym(S.sp.I) * c.sin(x)


@contract('C17.JonesLinearRetarder', [JO + ':JonesLinearRetarder.calculate_matrix'], ['C17'])
def retarder(c):
    d = c.real('retardance', -6.3, 6.3)
    th = c.real('theta', -3.2, 3.2)
    J = c.mod('optiland.jones').JonesLinearRetarder(d, th).calculate_matrix(_dummy_rays(c))
    M = [[_m(c, J, i, j) for j in range(2)] for i in range(2)]
    # unitary
    for i in range(2):
        for j in range(2):
            acc = sum(M[i][k] * c.val(M[j][k]).conjugate() for k in range(2))
            c.ensure_eq('C17.retarder.unitary', acc, 1 if i == j else 0)
    # J(theta) = R(theta) diag(e^{-id/2}, e^{+id/2}) R(-theta): fast/slow phase difference = retardance
    spec = _rot_conj(c, th, _cexp(c, -d / 2), _cexp(c, d / 2))
    for i in range(2):
        for j in range(2):
            c.ensure_eq('C17.retarder.rotation_of_theta0_element', M[i][j], spec[i][j])
    c.ensure_eq('C17.retarder.zz', _m(c, J, 2, 2), 1)


def _fixed_retarder(name, cls, d):
    @contract('C17.' + name, [JO + ':' + cls + '.__init__', JO + ':JonesLinearRetarder.calculate_matrix'], ['C17'])
    def ret(c):
        th = c.real('theta', -3.2, 3.2)
        J = getattr(c.mod('optiland.jones'), cls)(th).calculate_matrix(_dummy_rays(c))
        M = [[_m(c, J, i, j) for j in range(2)] for i in range(2)]
        e0 = complex(math.cos(d / 2), -math.sin(d / 2))
        e1 = complex(math.cos(d / 2), math.sin(d / 2))
        if c.mode != 'num':
            # exact values of exp(-+ i d/2) for d = pi/2, pi
            r2 = c.sqrt(2) / 2
            I_ = S.Sym(S.sp.I)
            e0, e1 = {math.pi / 2: (r2 - I_ * r2, r2 + I_ * r2), math.pi: (-I_, I_)}[d]
        spec = _rot_conj(c, th, e0, e1)
        for i in range(2):
            for j in range(2):
                c.ensure_eq('C17.%s.rotation_of_theta0_element' % name, M[i][j], spec[i][j], tol=1e-9, sym_only=False)
    return ret


@contract('C17.JonesLinearDiattenuator', [JO + ':JonesLinearDiattenuator.calculate_matrix'], ['C17'])
def diattenuator(c):
    tmin = c.real('t_min', 0.0, 1.0, nonneg=True)
    tmax = c.real('t_max', 0.0, 1.0, nonneg=True)
    th = c.real('theta', -3.2, 3.2)
    J = c.mod('optiland.jones').JonesLinearDiattenuator(tmin, tmax, th).calculate_matrix(_dummy_rays(c))
    M = [[_m(c, J, i, j) for j in range(2)] for i in range(2)]
    spec = _rot_conj(c, th, tmax, tmin)
    # residual obligations (must hold): diagonal of the rotated element, symmetry
    c.ensure_eq('C17.diattenuator.rotation_diagonal', M[0][0], spec[0][0])
    c.ensure_eq('C17.diattenuator.rotation_diagonal', M[1][1], spec[1][1])
    c.ensure_eq('C17.diattenuator.symmetric', M[0][1], M[1][0])
    # the unsplit clause of known finding C17-diattenuator-offdiag (symbolic only)
    c.ensure_eq('C17.diattenuator.rotation_offdiagonal', M[0][1], spec[0][1], sym_only=True)
    # pin: what the code computes instead
    c.ensure_eq('C17.diattenuator.offdiagonal_pin', M[0][1], tmax - tmin * c.cos(th) * c.sin(th))


# ---- PolarizedRays.update ----------------------------------------------------------------------
def _update_contract(undeviated):
    @contract('C17.PolarizedRays.update.' + ('undeviated' if undeviated else 'deviated'), [PR + ':PolarizedRays.update'],
              ['C17'], max_paths=32)
    def upd(c):
        PRm = c.mod('optiland.rays.polarized_rays')
        k0 = c.unit3('L0', 'M0', 'N0')
        k1 = k0 if undeviated else c.unit3('L1', 'M1', 'N1')
        cr = cross(k0, k1)
        if undeviated:
            c.require(k0[1] * k0[1] + k0[2] * k0[2] > 0)      # k not along x (documented limitation)
        else:
            c.require(norm2(cr) > 0)
        rays = PRm.PolarizedRays(c.arr(0.0), c.arr(0.0), c.arr(0.0), c.arr(k1[0]), c.arr(k1[1]), c.arr(k1[2]),
                                 c.arr(1.0), c.arr(0.55))
        rays.L0, rays.M0, rays.N0 = c.arr(k0[0]), c.arr(k0[1]), c.arr(k0[2])
        rays.update(None)
        P = [[c.val(rays.p[0, i, j]) for j in range(3)] for i in range(3)]
        # isometry (orthogonal matrix) mapping k0 to k1 : intensity preserved for every input state and
        # the field stays transverse
        for i in range(3):
            for j in range(3):
                c.ensure_eq('C17.update.orthogonal', sum(P[k][i] * P[k][j] for k in range(3)), 1 if i == j else 0)
            c.ensure_eq('C17.update.maps_k0_to_k1', sum(P[i][j] * k0[j] for j in range(3)), k1[i])
    return upd


_update_contract(False)
_update_contract(True)


_fixed_retarder('quarter_wave', 'JonesQuarterWaveRetarder', math.pi / 2)
_fixed_retarder('half_wave', 'JonesHalfWaveRetarder', math.pi)


# ---- PolarizedRays.update_intensity / _get_3d_electric_field ------------------------------------------------------------------
@contract('C17.PolarizedRays.update_intensity', [PR + ':PolarizedRays.update_intensity', PR + ':PolarizedRays._get_3d_electric_field',
                                                 PR + ':PolarizedRays.get_output_field', 'optiland/rays/polarization_state.py:PolarizationState.__init__'],
          ['C17'], numeric_only=True)      # bounded: the complex 3x3 products exceed the algebraic back ends' budgets
def update_intensity(c):
    """for an arbitrary accumulated (real) polarization matrix and launch direction: the launched field is transverse and of unit
    norm, a polarized state's intensity is i0 |P E|^2 (i0 the launch intensity), and the unpolarized intensity is the mean of the intensities of *any* two
    orthogonal states (ex, ey e^{i d}), (-ey, ex e^{i d})"""
    PRm = c.mod('optiland.rays.polarized_rays')
    PS = c.mod('optiland.rays.polarization_state').PolarizationState
    k0 = c.unit3('L0', 'M0', 'N0')
    c.require(k0[1] * k0[1] + k0[2] * k0[2] > 0)          # k not along x (documented limitation: raises otherwise)
    i0 = c.real('i0', 0.1, 3)                               # launch intensity of the ray (fix 58a65d0: both branches scale with it)
    rays = PRm.PolarizedRays(c.arr(0.0), c.arr(0.0), c.arr(0.0), c.arr(k0[0]), c.arr(k0[1]), c.arr(k0[2]), c.arr(i0), c.arr(0.55))
    P = [[c.real('p%d%d' % (i, j), -1, 1) for j in range(3)] for i in range(3)]
    rays.p = c.np.array([P])
    ex, ey = c.real('ex', -1, 1), c.real('ey', -1, 1)
    if c.mode == 'num':
        nrm = math.sqrt(ex * ex + ey * ey) or 1.0
        ex, ey = ex / nrm, ey / nrm
        c.require(abs(ex) + abs(ey) > 0)
    else:
        c.require(ex * ex + ey * ey == 1)
    px_, dl = c.real('phase_x', -3, 3), c.real('phase_y', -3, 3)
    sa = PS(True, ex, ey, px_, dl)                 # (ex e^{i px}, ey e^{i py}) and (-ey e^{i px}, ex e^{i py}) are orthogonal
    sb = PS(True, -ey, ex, px_, dl)
    E = rays._get_3d_electric_field(sa)
    Ea = [E[0, i] for i in range(3)]
    # the launched field is Ex e^{i phase_x} s + Ey e^{i phase_y} p in the transverse basis p = k x x_hat / |k x x_hat|, s = p x k
    import cmath as _cm
    if c.mode == 'num':
        kx, ky, kz = k0
        pn = math.sqrt(ky * ky + kz * kz)
        pv = (0.0, kz / pn, -ky / pn)
        sv = (pv[1] * kz - pv[2] * ky, pv[2] * kx - pv[0] * kz, pv[0] * ky - pv[1] * kx)
        for i in range(3):
            want_i = ex * _cm.exp(1j * px_) * sv[i] + ey * _cm.exp(1j * dl) * pv[i]
            c.ensure('C17.launch_field.is_the_stated_state_in_the_transverse_basis', abs(complex(Ea[i]) - want_i) < 1e-12)
    dotk = sum(c.val(Ea[i]) * k0[i] for i in range(3))
    c.ensure_eq('C17.launch_field.transverse_to_the_ray', dotk, 0)
    n2 = sum(c.val(Ea[i]) * c.val(Ea[i]).conjugate() for i in range(3))
    c.ensure_eq('C17.launch_field.unit_norm', n2, 1)
    rays.update_intensity(sa)
    Ia = c.val(rays.i)
    want = 0
    for i in range(3):
        comp = sum(P[i][j] * c.val(Ea[j]) for j in range(3))
        want = want + comp * comp.conjugate()
    c.ensure_eq('C17.update_intensity.polarized_is_squared_norm_of_the_propagated_field', Ia, i0 * want)
    rays.update_intensity(sb)
    Ib = c.val(rays.i)
    rays.update_intensity(PS(False))
    Iu = c.val(rays.i)
    c.ensure_eq('C17.update_intensity.unpolarized_is_mean_of_any_two_orthogonal_states', 2 * Iu, Ia + Ib)


def _runtime(ct, tier, seed):
    """bounded, whole lenses on the real code: without coatings the polarization trace keeps every ray's intensity for every
    input state and the propagated field is transverse; with Fresnel coatings the unpolarized intensity is the mean of the
    intensities of two orthogonal input states (three different orthogonal pairs)"""
    import random
    import time
    import warnings
    import numpy as np
    from . import rt
    from optiland.rays.polarization_state import PolarizationState, create_polarization
    warnings.simplefilter('ignore')
    np.seterr(all='ignore')
    t0 = time.time()
    rng = random.Random(seed * 41 + 8)
    clauses, fails, cases, used = {}, [], 0, []

    def note(cid, ok, detail, inputs):
        c_ = clauses.setdefault(cid, {'paths': 0, 'proved': 0, 'backends': {}, 'failed': [], 'seconds': 0.0, 'bounded': True})
        c_['paths'] += 1
        if ok:
            c_['proved'] += 1
            c_['backends']['runtime'] = c_['backends'].get('runtime', 0) + 1
        else:
            fails.append({'clause': cid, 'draws': inputs, 'note': detail})

    def rng_from(st):
        r = random.Random()
        r.setstate(st)
        return r
    for i in range(3 if tier == 'quick' else 25):
        st = rng.getstate()
        try:
            L = rt.random_lens(rng_from(st), finite=False)
            pw = L.primary_wavelength
        except Exception:
            continue
        inputs = {'lens': 'random#%d' % i}
        states = [create_polarization(t) for t in ('H', 'V', 'L+45', 'L-45', 'RCP', 'LCP')]
        states.append(PolarizationState(True, rng.uniform(0.1, 1), rng.uniform(-1, 1), rng.uniform(-3, 3), rng.uniform(-3, 3)))
        Hy = rng.uniform(0, 0.8)
        ok_lens = True
        # (1) no coatings
        for s_ in states + [create_polarization('unpolarized')]:
            try:
                L.set_polarization(s_)
                rays = L.trace(0.0, Hy, pw, 3, 'hexapolar')
            except Exception:
                ok_lens = False
                break
            good = np.isfinite(rays.x) & np.isfinite(rays.L)
            if not np.any(good):
                continue
            cases += 1
            note('C17.runtime.uncoated_lens_preserves_intensity_for_every_input_state', bool(np.allclose(rays.i[good], 1.0, rtol=0, atol=1e-9)),
                 '%s: intensities %s' % (s_, rays.i[good][:4]), inputs)
            if s_.is_polarized:
                E1 = rays.get_output_field(rays._get_3d_electric_field(s_))
                dotk = E1[:, 0] * rays.L + E1[:, 1] * rays.M + E1[:, 2] * rays.N
                note('C17.runtime.propagated_field_stays_transverse_to_the_ray', bool(np.all(np.abs(dotk[good]) < 1e-9)), '%s' % s_, inputs)
        if not ok_lens:
            continue
        used.append('random#%d' % i)
        # (2) Fresnel coatings on every refracting surface
        L.surface_group.set_fresnel_coatings()
        out = {}
        for name in ('H', 'V', 'L+45', 'L-45', 'RCP', 'LCP', 'unpolarized'):
            L.set_polarization(create_polarization(name))
            rays = L.trace(0.0, Hy, pw, 3, 'hexapolar')
            out[name] = rays.i.copy()
        for a, b in (('H', 'V'), ('L+45', 'L-45'), ('RCP', 'LCP')):
            cases += 1
            note('C17.runtime.unpolarized_intensity_is_mean_of_two_orthogonal_states',
                 bool(np.allclose(out['unpolarized'], (out[a] + out[b]) / 2, rtol=1e-9, atol=1e-12, equal_nan=True)),
                 '%s/%s: %s vs %s' % (a, b, out['unpolarized'][:3], ((out[a] + out[b]) / 2)[:3]), inputs)
        fin = np.isfinite(out['unpolarized'])
        note('C17.runtime.coated_lens_never_gains_intensity', bool(np.all(out['unpolarized'][fin] <= 1 + 1e-12)) and all(
            bool(np.all(out[k][np.isfinite(out[k])] <= 1 + 1e-12)) for k in out), '', inputs)
    return {'contract': ct.name, 'functions': ct.functions, 'props': ct.props,
            'symbolic': {'clauses': clauses, 'paths': 0, 'errors': [], 'solver_s': 0.0, 'samples': [], 'wd_assumed': [], 'assumed': []},
            'numeric': {'accepted': cases, 'rejected': 0, 'failures': fails[:10], 'concolic_agree': 0, 'encoder_mismatches': [],
                        'samples': [{'lenses': used[:8]}]}, 'wall_s': time.time() - t0}


contract('C17.runtime', [PR + ':PolarizedRays.update', PR + ':PolarizedRays.update_intensity', 'optiland/coatings.py:BaseCoatingPolarized.transmit',
                         'optiland/coatings.py:BaseCoating._compute_aoi', 'optiland/optic.py:Optic.trace'], ['C17'], custom=_runtime)(lambda c: None)


# concrete inputs found by the defect-hunting sub-agents (bounded replay, see contracts/hunt.py)
from . import hunt as _hunt  # noqa: E402
_hunt.register('C17')
