"""run-time (bounded) tier helpers: real lenses built through the public API"""
import math
import random

SAMPLE_CLASSES = [
    ('optiland.samples.objectives', ['TripletTelescopeObjective', 'CookeTriplet', 'DoubleGauss', 'ReverseTelephoto',
                                     'ObjectiveUS008879901', 'TelescopeObjective48Inch', 'HeliarLens', 'TessarLens',
                                     'LensWithFieldCorrector', 'PetzvalLens', 'Telephoto']),
    ('optiland.samples.simple', ['Edmund_49_847', 'SingletStopSurf2', 'TelescopeDoublet', 'CementedAchromat', 'AsphericSinglet']),
    ('optiland.samples.eyepieces', ['EyepieceErfle']),
    ('optiland.samples.infrared', ['InfraredTriplet', 'InfraredTripletF4']),
    ('optiland.samples.lithography', ['UVProjectionLens']),
    ('optiland.samples.microscopes', ['Objective60x', 'Microscope20x', 'UVReflectingMicroscope']),
    ('optiland.samples.telescopes', ['HubbleTelescope']),
]


def sample_names():
    return [(m, n) for m, names in SAMPLE_CLASSES for n in names]


def make_sample(modname, clsname):
    import importlib
    return getattr(importlib.import_module(modname), clsname)()


def random_lens(rng, n_elements=None, finite=None, vignetting=False, apertures=False, asphere=False, mirror=False):
    """a plausible axial lens built with the public API: positive/negative singlets in air"""
    from optiland.optic import Optic
    from optiland.physical_apertures import RadialAperture
    lens = Optic()
    finite = rng.random() < 0.3 if finite is None else finite
    n_elements = n_elements or rng.choice([1, 2, 3])
    lens.add_surface(index=0, thickness=(rng.uniform(60, 200) if finite else math.inf))
    idx = 1
    stop_at = rng.randrange(1, 2 * n_elements + 1)
    for e in range(n_elements):
        R1 = rng.choice([-1, 1]) * rng.uniform(25, 120)
        R2 = rng.choice([-1, 1]) * rng.uniform(25, 120)
        nd = rng.uniform(1.45, 1.85)
        from optiland.materials import IdealMaterial
        kw = {}
        if apertures and rng.random() < 0.5:
            kw['aperture'] = RadialAperture(r_max=rng.uniform(4, 9))
        if asphere and e == 0:
            lens.add_surface(index=idx, surface_type='even_asphere', radius=R1, conic=rng.uniform(-1, 0.5),
                             coefficients=[rng.uniform(-1e-5, 1e-5), rng.uniform(-1e-7, 1e-7)],
                             thickness=rng.uniform(2, 6), material=IdealMaterial(nd), is_stop=(idx == stop_at), **kw)
        else:
            lens.add_surface(index=idx, radius=R1, conic=rng.choice([0.0, rng.uniform(-1, 0.5)]), thickness=rng.uniform(2, 6),
                             material=IdealMaterial(nd), is_stop=(idx == stop_at), **kw)
        idx += 1
        lens.add_surface(index=idx, radius=R2, thickness=rng.uniform(3, 15), is_stop=(idx == stop_at))
        idx += 1
    lens.add_surface(index=idx)
    lens.set_aperture('EPD', rng.uniform(4, 8))
    if finite:
        lens.set_field_type('object_height')
        fmax = rng.uniform(2, 8)
    else:
        lens.set_field_type('angle')
        fmax = rng.uniform(2, 10)
    fl = [(0.0, 0.0, 0.0), (0.7 * fmax, rng.uniform(0, 0.1), rng.uniform(0, 0.1)), (fmax, rng.uniform(0, 0.2), rng.uniform(0, 0.2))]
    rng.shuffle(fl)                      # fields are not necessarily entered in ascending order
    for (fy, vx, vy) in fl:
        if vignetting:
            lens.add_field(y=fy, vx=vx, vy=vy)
        else:
            lens.add_field(y=fy)
    lens.add_wavelength(0.4861)
    lens.add_wavelength(0.5876, is_primary=True)
    lens.add_wavelength(0.6563)
    try:
        lens.image_solve()
    except Exception:
        pass
    return lens


# ---- edit-then-ask on whole lenses (bounded): an analysis of an edited lens equals the analysis of a lens built with the edits ----
def _rng_from(state):
    r = random.Random()
    r.setstate(state)
    return r


def edit(lens, rng):
    """a few public-API edits, the same for every lens built from the same state"""
    sg = lens.surface_group
    n = sg.num_surfaces
    k = rng.randrange(1, n - 1)
    R = float(sg.radii[k])
    if math.isfinite(R):
        lens.set_radius(R * rng.uniform(1.05, 1.2), k)
    lens.set_conic(rng.uniform(-0.5, 0.3), rng.randrange(1, n - 1))
    j = rng.randrange(1, n - 2)
    lens.set_thickness(float(sg.get_thickness(j)[0] if hasattr(sg.get_thickness(j), '__len__') else sg.get_thickness(j)) + rng.uniform(0.2, 1.0), j)
    lens.set_index(rng.uniform(1.45, 1.8), 1)
    lens.update_paraxial() if hasattr(lens, 'update_paraxial') else None


def requery_custom(measure, clause, n_quick=3, n_thorough=20, lens_kw=None):
    """custom contract body: measure(lens) -> dict name -> ndarray.  Lens A is measured, edited, measured again; lens B (identical
    construction, never measured before) gets the same edits and is measured once: the two must agree bit for bit (nan = nan)."""
    import time
    import numpy as np

    def run(ct, tier, seed):
        import warnings
        warnings.simplefilter('ignore')
        np.seterr(all='ignore')
        t0 = time.time()
        rng = random.Random(seed * 17 + 3)
        clauses, fails, cases, used = {}, [], 0, []
        c_ = clauses.setdefault(clause, {'paths': 0, 'proved': 0, 'backends': {}, 'failed': [], 'seconds': 0.0, 'bounded': True})
        for i in range(n_quick if tier == 'quick' else n_thorough):
            st = rng.getstate()
            est = random.Random(seed * 31 + i).getstate()
            try:
                A = random_lens(_rng_from(st), **(lens_kw or {'finite': False}))
                B = random_lens(_rng_from(st), **(lens_kw or {'finite': False}))
                measure(A)
                edit(A, _rng_from(est))
                edit(B, _rng_from(est))
                ma, mb = measure(A), measure(B)
            except Exception:
                continue
            cases += 1
            used.append('random#%d' % i)
            for name in sorted(set(ma) | set(mb)):
                c_['paths'] += 1
                if name not in ma or name not in mb:
                    ok = False
                else:
                    a_, b_ = np.asarray(ma[name], dtype=float), np.asarray(mb[name], dtype=float)
                    ok = a_.shape == b_.shape and bool(np.allclose(a_, b_, rtol=0, atol=0, equal_nan=True))
                if ok:
                    c_['proved'] += 1
                    c_['backends']['runtime'] = c_['backends'].get('runtime', 0) + 1
                else:
                    fails.append({'clause': clause, 'draws': {'lens': 'random#%d' % i, 'quantity': name},
                                  'note': '%s differs between the edited lens and a lens built with the edits' % name})
        return {'contract': ct.name, 'functions': ct.functions, 'props': ct.props,
                'symbolic': {'clauses': clauses, 'paths': 0, 'errors': [], 'solver_s': 0.0, 'samples': [], 'wd_assumed': [], 'assumed': []},
                'numeric': {'accepted': cases, 'rejected': 0, 'failures': fails[:10], 'concolic_agree': 0, 'encoder_mismatches': [],
                            'samples': [{'lenses': used[:8]}]}, 'wall_s': time.time() - t0}
    return run
