"""run-time (bounded) tier helpers: real lenses built through the public API"""
import math
import random

SAMPLE_CLASSES = [
    ('optiland.samples.objectives', ['TripletTelescopeObjective', 'CookeTriplet', 'DoubleGauss', 'ReverseTelephoto',
                                     'ObjectiveUS008879901', 'TelescopeObjective48Inch', 'HeliarLens', 'TessarLens',
                                     'LensWithFieldCorrector', 'PetzvalLens', 'Telephoto']),
    ('optiland.samples.simple', ['Edmund_49_847', 'SingletStopSurf2', 'TelescopeDoublet', 'CementedAchromat', 'AsphericSinglet']),
    ('optiland.samples.eyepieces', ['EyepieceErfle']),
    ('optiland.samples.infrared', ['InfraredTriplet', 'InfraredTripletF4']),
    ('optiland.samples.lithography', ['UVProjectionLens']),
    ('optiland.samples.microscopes', ['Objective60x', 'Microscope20x', 'UVReflectingMicroscope']),
    ('optiland.samples.telescopes', ['HubbleTelescope']),
]


def sample_names():
    return [(m, n) for m, names in SAMPLE_CLASSES for n in names]


def make_sample(modname, clsname):
    import importlib
    return getattr(importlib.import_module(modname), clsname)()


def random_lens(rng, n_elements=None, finite=None, vignetting=False, apertures=False, asphere=False, mirror=False):
    """a plausible axial lens built with the public API: positive/negative singlets in air"""
    from optiland.optic import Optic
    from optiland.physical_apertures import RadialAperture
    lens = Optic()
    finite = rng.random() < 0.3 if finite is None else finite
    n_elements = n_elements or rng.choice([1, 2, 3])
    lens.add_surface(index=0, thickness=(rng.uniform(60, 200) if finite else math.inf))
    idx = 1
    stop_at = rng.randrange(1, 2 * n_elements + 1)
    for e in range(n_elements):
        R1 = rng.choice([-1, 1]) * rng.uniform(25, 120)
        R2 = rng.choice([-1, 1]) * rng.uniform(25, 120)
        nd = rng.uniform(1.45, 1.85)
        from optiland.materials import IdealMaterial
        kw = {}
        if apertures and rng.random() < 0.5:
            kw['aperture'] = RadialAperture(r_max=rng.uniform(4, 9))
        if asphere and e == 0:
            lens.add_surface(index=idx, surface_type='even_asphere', radius=R1, conic=rng.uniform(-1, 0.5),
                             coefficients=[rng.uniform(-1e-5, 1e-5), rng.uniform(-1e-7, 1e-7)],
                             thickness=rng.uniform(2, 6), material=IdealMaterial(nd), is_stop=(idx == stop_at), **kw)
        else:
            lens.add_surface(index=idx, radius=R1, conic=rng.choice([0.0, rng.uniform(-1, 0.5)]), thickness=rng.uniform(2, 6),
                             material=IdealMaterial(nd), is_stop=(idx == stop_at), **kw)
        idx += 1
        lens.add_surface(index=idx, radius=R2, thickness=rng.uniform(3, 15), is_stop=(idx == stop_at))
        idx += 1
    lens.add_surface(index=idx)
    lens.set_aperture('EPD', rng.uniform(4, 8))
    if finite:
        lens.set_field_type('object_height')
        fmax = rng.uniform(2, 8)
    else:
        lens.set_field_type('angle')
        fmax = rng.uniform(2, 10)
    fl = [(0.0, 0.0, 0.0), (0.7 * fmax, rng.uniform(0, 0.1), rng.uniform(0, 0.1)), (fmax, rng.uniform(0, 0.2), rng.uniform(0, 0.2))]
    rng.shuffle(fl)                      # fields are not necessarily entered in ascending order
    for (fy, vx, vy) in fl:
        if vignetting:
            lens.add_field(y=fy, vx=vx, vy=vy)
        else:
            lens.add_field(y=fy)
    lens.add_wavelength(0.4861)
    lens.add_wavelength(0.5876, is_primary=True)
    lens.add_wavelength(0.6563)
    try:
        lens.image_solve()
    except Exception:
        pass
    return lens
