"""construction of lenses in an *arbitrary well-formed state* (the pre-state of history
invariants) and through the public API; works in symbolic and concrete mode"""
import math

SG = 'optiland/surfaces/surface_group.py'
SF = 'optiland/surfaces/surface_factory.py'
OP = 'optiland/optic.py'


def arbitrary_lens(c, n, stop=None, plane=(), finite_object=True, tilts=False, prefix='', special=None, mirrors=(), mat_factory=None):
    """Optic with n surfaces whose vertices, radii, conics, indices are free symbols, satisfying
    WF: surface 0 is the ObjectSurface, z[1] = 0, material_pre[k] is material_post[k-1],
    at most one stop.  Built with the constructors directly, *not* through add_surface, so that it
    is an arbitrary well-formed state and not only a reachable one."""
    Optic = c.mod('optiland.optic').Optic
    CoordinateSystem = c.mod('optiland.coordinate_system').CoordinateSystem
    geos = c.mod('optiland.geometries')
    mats = c.mod('optiland.materials')
    surfs = c.mod('optiland.surfaces')
    lens = Optic()
    view = {'z': [], 'R': [], 'k': [], 'n': [], 'mat': []}
    for j in range(n):
        if j == 0:
            z = -c.real(prefix + 'T0', 0.5, 30.0, positive=True) if finite_object else -math.inf
        elif j == 1:
            z = 0.0
        else:
            z = c.real(prefix + 'z%d' % j, -30.0, 60.0)
        if j in mirrors and j >= 1:
            # a mirror: the medium behind it *is* the medium in front of it (same object)
            nj = view['n'][j - 1]
            mat = view['mat'][j - 1]
        else:
            nj = c.real(prefix + 'n%d' % j, 1.0, 2.5, positive=True)
            mat = mats.IdealMaterial(n=nj, k=0.0) if mat_factory is None else mat_factory(c, j, nj)
        kw = {}
        if tilts and j >= 1:
            kw = dict(x=c.real(prefix + 'dx%d' % j, -1, 1), y=c.real(prefix + 'dy%d' % j, -1, 1),
                      rx=c.real(prefix + 'rx%d' % j, -0.3, 0.3), ry=c.real(prefix + 'ry%d' % j, -0.3, 0.3))
        cs = CoordinateSystem(z=z, **kw)
        if j in plane or j == 0:
            geo = geos.Plane(cs)
            R, k = math.inf, 0.0
        else:
            R = c.real(prefix + 'R%d' % j, -80.0, 80.0, nonzero=True)
            k = c.real(prefix + 'k%d' % j, -2.0, 1.0)
            kind = (special or {}).get(j)
            if kind == 'even_asphere':
                co = [c.real(prefix + 'a%d_%d' % (j, i), -1e-3, 1e-3) for i in range(3)]
                geo = geos.EvenAsphere(cs, R, k, 1e-10, 100, co)
            elif kind in ('polynomial', 'chebyshev'):
                co = [[c.real(prefix + 'p%d_%d%d' % (j, a, b), -1e-3, 1e-3) for b in range(2)] for a in range(2)]
                if kind == 'polynomial':
                    geo = geos.PolynomialGeometry(cs, R, k, 1e-10, 100, c.np.array(co))
                else:
                    geo = geos.ChebyshevPolynomialGeometry(cs, R, k, 1e-10, 100, c.np.array(co), 10.0, 10.0)
            else:
                geo = geos.StandardGeometry(cs, R, k)
        if j == 0:
            s = surfs.ObjectSurface(geo, mat)
        else:
            s = surfs.Surface(geo, view['mat'][j - 1], mat, is_stop=(j == stop), is_reflective=(j in mirrors))
        lens.surface_group.surfaces.append(s)
        view['z'].append(z)
        view['R'].append(R)
        view['k'].append(k)
        view['n'].append(nj)
        view['mat'].append(mat)
    return lens, view


def zs(c, lens):
    return [c.val(s.geometry.cs.z) for s in lens.surface_group.surfaces]


def stops(lens):
    return sum(1 for s in lens.surface_group.surfaces if s.is_stop)
