"""C11 -- PSF, Strehl ratio and MTF are correctly normalised transforms of the pupil."""
import math
import random
import time

import numpy as np

from pyvc.vc import contract
from pyvc import twin
from .common import *  # noqa
from . import rt

PROPERTY = 'C11'
K_QUICK = 8
K_THOROUGH = 60
PS = 'optiland/psf.py'
MTF = 'optiland/mtf.py'
TRUSTED = ['np.fft.fft2 is the discrete Fourier transform by definition; np.fft.fftshift moves index 0 to N//2 (both executed by '
           'NumPy itself on object arrays / probed)']
ASSUMPTIONS = ['symbolic PSF obligations are proved for all pupil phases and intensities at small concrete sizes (4 samples across, '
               'grids 4 and 8); other sizes, odd sizes and whole lenses are checked at run time with the real FFT (bounded)',
               '"MTF equals the analytic disk MTF within sampling error / never exceeds the diffraction limit" are discretisation-error '
               'statements: bounded numeric only']
KNOWN = {}


def _psf_object(c, grid, W, I, wl=0.55):
    P = c.mod('optiland.psf')
    o = object.__new__(P.FFTPSF)
    o.num_rays, o.grid_size, o.wavelengths = 4, grid, [wl]
    o.data = [[(c.arr(*W), c.arr(*I))]]
    o.pupils = o._generate_pupils()
    o.psf = o._compute_psf()
    return o


def _dft2_spec(c, A):
    """|DFT|^2 of a complex array given as [[(re, im)]] by the definition, centred like fftshift"""
    n = len(A)
    out = [[None] * n for _ in range(n)]
    for u in range(n):
        for v in range(n):
            re = im = 0
            for j in range(n):
                for k in range(n):
                    ang = -2 * ((u * j + v * k) % n)
                    cs_, sn_ = c.cos(c.pi * S.sp.Rational(ang, n) if c.symbolic else math.pi * ang / n), \
                        c.sin(c.pi * S.sp.Rational(ang, n) if c.symbolic else math.pi * ang / n)
                    a, b = A[j][k]
                    re = re + a * cs_ - b * sn_
                    im = im + a * sn_ + b * cs_
            out[(u + n // 2) % n][(v + n // 2) % n] = re * re + im * im
    return out


def _psf_contract(grid):
    @contract('C11.FFTPSF.grid%d' % grid, [PS + ':FFTPSF._generate_pupils', PS + ':FFTPSF._compute_psf', PS + ':FFTPSF._pad_pupils',
                                          PS + ':FFTPSF._get_normalization', PS + ':FFTPSF.strehl_ratio'], ['C11'], max_paths=16,
              groebner_s=60, concolic=False)
    def psf(c):
        W = [c.real('W%d' % i, -2, 2) for i in range(4)]              # OPD in waves at the 4 samples inside the unit pupil
        i0 = c.real('I', 0.2, 1.0, positive=True)                      # uniform illumination (non-uniform: bounded tier)
        I = [i0] * 4
        o = _psf_object(c, grid, W, I)
        n = grid
        c.ensure('C11.psf.shape_is_grid_size', tuple(o.psf.shape) == (n, n))
        # the sampled complex pupil: amplitude I/mean(I), phase 2 pi W, on the 4 inner nodes of the 4x4 grid, zero elsewhere
        mean = (I[0] + I[1] + I[2] + I[3]) / 4
        inner = [(1, 1), (1, 2), (2, 1), (2, 2)]
        A = [[(0, 0)] * n for _ in range(n)]
        off = (n - 4) // 2
        for (r_, c_), w_, i_ in zip(inner, W, I):
            ph = 2 * c.pi * w_
            A[r_ + off][c_ + off] = (i_ / mean * c.cos(ph), i_ / mean * c.sin(ph))
        spec = _dft2_spec(c, A)
        norm = 16          # peak of the unaberrated pupil of the same support: (number of samples)^2
        tot = 0
        for u in range(n):
            for v in range(n):
                px = c.val(o.psf[u, v])
                c.ensure_eq('C11.psf.is_squared_modulus_of_dft_of_padded_pupil', px * norm, 100 * spec[u][v])
                tot = tot + px
        # same total energy whatever the aberration (Parseval): sum psf = 100/norm * n^2 * sum |P|^2
        energy = sum((i_ / mean) ** 2 for i_ in I)
        c.ensure_eq('C11.psf.total_energy_independent_of_aberration', tot * norm, 100 * n * n * energy)
    return psf


_psf_contract(4)
_psf_contract(8)


@contract('C11.FFTPSF.unaberrated', [PS + ':FFTPSF._compute_psf', PS + ':FFTPSF._get_normalization', PS + ':FFTPSF.strehl_ratio'],
          ['C11'], max_paths=16, concolic=False)
def unaberrated(c):
    i0 = c.real('I', 0.2, 1.0, positive=True)
    w0 = c.real('piston', -2, 2)
    for grid in (4, 8):
        o = _psf_object(c, grid, [w0] * 4, [i0] * 4)
        c.ensure_eq('C11.psf.unaberrated_pupil_peaks_at_100', c.val(o.psf[grid // 2, grid // 2]), 100)
        c.ensure_eq('C11.strehl.unaberrated_is_one', c.val(o.strehl_ratio()), 1)


@contract('C11.FFTPSF.strehl', [PS + ':FFTPSF._compute_psf', PS + ':FFTPSF._get_normalization', PS + ':FFTPSF.strehl_ratio'],
          ['C11'], max_paths=16, concolic=False, z3_ms=60000)
def strehl(c):
    W = [c.real('W%d' % i, -2, 2) for i in range(4)]
    i0 = c.real('I', 0.2, 1.0, positive=True)
    I = [i0] * 4
    o = _psf_object(c, 4, W, I)
    s = c.val(o.strehl_ratio())
    # central value = |sum a_j e^{i phi_j}|^2 / (sum a_j)^2 with a_j >= 0: triangle inequality
    mean = (I[0] + I[1] + I[2] + I[3]) / 4
    a = [i_ / mean for i_ in I]
    re = sum(a[j] * c.cos(2 * c.pi * W[j]) for j in range(4))
    im = sum(a[j] * c.sin(2 * c.pi * W[j]) for j in range(4))
    tot = sum(a)
    c.ensure_eq('C11.strehl.is_coherent_sum_over_incoherent_sum', s * tot * tot, re * re + im * im)
    if c.mode == 'num':
        c.ensure('C11.strehl.never_exceeds_one', s <= 1 + 1e-12)
    else:
        # triangle inequality with an explicit sum-of-squares certificate:
        #   (sum a_j)^2 - |sum a_j u_j|^2 = sum_{j<k} a_j a_k |u_j - u_k|^2     for unit vectors u_j
        cs_ = [(c.cos(2 * c.pi * W[j]), c.sin(2 * c.pi * W[j])) for j in range(4)]
        Q = 0
        Qa = 0
        for j in range(4):
            for k in range(j + 1, 4):
                dc, ds = cs_[j][0] - cs_[k][0], cs_[j][1] - cs_[k][1]
                Q = Q + a[j] * a[k] * (dc * dc + ds * ds)
                DC, DS = c.abstract('dc%d%d' % (j, k), dc), c.abstract('ds%d%d' % (j, k), ds)
                AJK = c.abstract('a%d%d' % (j, k), a[j] * a[k])
                Qa = Qa + AJK * (DC * DC + DS * DS)
        c.ensure_eq('C11.strehl.sum_of_squares_certificate', tot * tot - re * re - im * im, Q)
        S_, RE, IM, T, QQ = c.abstract('S_', s), c.abstract('RE', re), c.abstract('IM', im), c.abstract('T', tot), c.abstract('QQ', Q)
        c.ensure('C11.strehl.never_exceeds_one', S_ <= 1,
                 using=[S_ * T * T == RE * RE + IM * IM, T > 0, T * T - RE * RE - IM * IM == QQ, QQ == Qa, Qa >= 0])


@contract('C11.FFTMTF.units', [MTF + ':FFTMTF._get_mtf_units'], ['C11'], max_paths=8)
def mtf_units(c):
    M = c.mod('optiland.mtf')
    wl = c.real('wavelength', 0.4, 1.0, positive=True)
    fno = c.real('FNO', 1.0, 12.0, positive=True)
    for (nr, g) in ((128, 1024), (64, 512), (32, 100), (16, 64)):
        o = object.__new__(M.FFTMTF)
        o.grid_size, o.num_rays, o.wavelength, o.FNO = g, nr, wl, fno
        dx = c.val(o._get_mtf_units())
        # frequency step of the DFT of a PSF sampled at dx_psf = wl*FNO/Q micron: 1/(grid*dx_psf) cycles/micron = 1000/(...) cycles/mm;
        # the cut-off 1/(wl[mm] * FNO) then falls on sample number num_rays (the pupil width in grid steps)
        c.ensure_eq('C11.mtf.frequency_axis_puts_cutoff_at_pupil_width', dx * nr, 1 / (wl * c.const(1e-3) * fno))


# ---- bounded tier ---------------------------------------------------------------------------------------------
def _direct_psf(pupil, grid):
    n = pupil.shape[0]
    pad_lo = (grid - n) // 2
    P = np.zeros((grid, grid), dtype=complex)
    P[pad_lo:pad_lo + n, pad_lo:pad_lo + n] = pupil
    idx = np.arange(grid)
    Wm = np.exp(-2j * np.pi * np.outer(idx, idx) / grid)
    A = Wm @ P @ Wm
    A = np.roll(np.roll(A, grid // 2, axis=0), grid // 2, axis=1)
    return np.abs(A) ** 2


def _bounded(ct, tier, seed):
    import warnings
    from optiland import psf as psfm, mtf as mtfm
    from optiland.physical_apertures import RadialAperture
    warnings.simplefilter('ignore')
    np.seterr(all='ignore')
    t0 = time.time()
    rng = random.Random(seed * 17 + 1)
    clauses, fails = {}, []
    cases = 0

    def note(cid, ok, detail, inputs):
        c_ = clauses.setdefault(cid, {'paths': 0, 'proved': 0, 'backends': {}, 'failed': [], 'seconds': 0.0, 'bounded': True})
        c_['paths'] += 1
        if ok:
            c_['proved'] += 1
            c_['backends']['runtime'] = c_['backends'].get('runtime', 0) + 1
        else:
            fails.append({'clause': cid, 'draws': inputs, 'note': detail})
    lenses = [('CookeTriplet', lambda: rt.make_sample('optiland.samples.objectives', 'CookeTriplet'))]
    for i in range(2 if tier == 'quick' else 12):
        st = rng.getstate()
        lenses.append(('random#%d' % i, lambda st=st: rt.random_lens(_rng(st), finite=(i % 2 == 1))))
    sizes = [(16, 32), (17, 33), (16, 33), (17, 32), (31, 64), (24, 64)] if tier == 'quick' else \
        [(16, 32), (17, 33), (16, 33), (17, 32), (31, 64), (24, 64), (32, 64), (33, 65), (48, 128), (63, 128), (64, 257)]
    for lname, mk in lenses:
        try:
            L = mk()
            wl = L.primary_wavelength
            L.trace(0.0, 0.0, wl, 2, 'hexapolar')
        except Exception:
            continue
        for clip in (False, True):
            if clip:
                try:
                    ya, _ = L.paraxial.marginal_ray()
                    L.surface_group.surfaces[1].aperture = RadialAperture(r_max=0.8 * abs(float(np.ravel(ya)[1])))
                except Exception:
                    continue
            for (nr, g) in sizes:
                inputs = {'lens': lname, 'num_rays': nr, 'grid_size': g, 'clipped': clip}
                try:
                    p = psfm.FFTPSF(L, (0.0, 0.7 if not clip else 0.0), wl, num_rays=nr, grid_size=g)
                except Exception as ex:
                    note('C11.runtime.psf_constructs_for_every_sampling', False, '%s: %s' % (type(ex).__name__, str(ex)[:120]), inputs)
                    continue
                if not np.all(np.isfinite(p.psf)):
                    continue            # some rays of this lens fail (non-finite OPD): not a PSF question
                cases += 1
                note('C11.runtime.psf_constructs_for_every_sampling', True, '', inputs)
                note('C11.runtime.psf_shape_is_grid_size', p.psf.shape == (g, g), str(p.psf.shape), inputs)
                note('C11.runtime.psf_non_negative', bool(np.all(p.psf >= 0)), '', inputs)
                if p.psf.shape == (g, g):
                    direct = _direct_psf(p.pupils[0], g)
                    nz = np.abs(p.pupils[0])
                    ref = _direct_psf(nz, g)
                    want = direct / ref.max() * 100
                    note('C11.runtime.psf_is_squared_modulus_of_dft_scaled_to_unaberrated_peak_100',
                         np.allclose(p.psf, want, rtol=1e-8, atol=1e-8), 'max dev %.3e' % np.max(np.abs(p.psf - want)), inputs)
                    note('C11.runtime.strehl_is_central_value', abs(p.strehl_ratio() - want[g // 2, g // 2] / 100) < 1e-9,
                         '%s vs %s' % (p.strehl_ratio(), want[g // 2, g // 2] / 100), inputs)
                note('C11.runtime.strehl_never_exceeds_one', p.strehl_ratio() <= 1 + 1e-9, 'Strehl %.6f' % p.strehl_ratio(), inputs)
        # MTF: every curve normalised by its own zero-frequency value, within [0, 1]
        try:
            L2 = mk()
            L2.surface_group.surfaces[1].aperture = RadialAperture(r_max=1.05 * abs(float(np.ravel(L2.paraxial.marginal_ray()[0])[1])))
            m = mtfm.FFTMTF(L2, num_rays=24, grid_size=64)
            for k, (tan_, sag_) in enumerate(m.mtf):
                for nm, cur in (('tangential', tan_), ('sagittal', sag_)):
                    if not np.all(np.isfinite(cur)):
                        continue        # failing rays
                    cases += 1
                    inputs = {'lens': lname, 'field': k, 'curve': nm}
                    note('C11.runtime.mtf_starts_at_one', abs(cur[0] - 1) < 1e-9, 'MTF(0) = %s' % cur[0], inputs)
                    note('C11.runtime.mtf_within_unit_interval', bool(np.all(cur >= -1e-12) and np.all(cur <= 1 + 1e-9)), '', inputs)
            g = mtfm.GeometricMTF(L2, num_rays=12, num_points=24, scale=False)
            for k, fd in enumerate(g.mtf):
                yi = g.data[k][0][1]
                A, edges = np.histogram(yi, bins=g.num_points + 1)
                x = (edges[1:] + edges[:-1]) / 2
                want = np.abs(np.array([np.sum(A * np.exp(2j * np.pi * v * x)) for v in g.freq])) / np.sum(A)
                note('C11.runtime.geometric_mtf_is_modulus_of_line_spread_transform', np.allclose(fd[0], want, rtol=1e-9, atol=1e-12), '', {'lens': lname, 'field': k})
        except Exception as ex:
            pass
    return {'contract': ct.name, 'functions': ct.functions, 'props': ct.props,
            'symbolic': {'clauses': clauses, 'paths': 0, 'errors': [], 'solver_s': 0.0, 'samples': [], 'wd_assumed': [], 'assumed': []},
            'numeric': {'accepted': cases, 'rejected': 0, 'failures': fails[:10], 'concolic_agree': 0, 'encoder_mismatches': [],
                        'samples': [{'sizes': sizes}]}, 'wall_s': time.time() - t0}


def _rng(state):
    r = random.Random()
    r.setstate(state)
    return r


contract('C11.runtime', [PS + ':FFTPSF.__init__', MTF + ':FFTMTF.__init__', MTF + ':FFTMTF._generate_mtf_data',
                         MTF + ':GeometricMTF._compute_field_data'], ['C11'], custom=_bounded)(lambda c: None)


def _measure_c11(L):
    from optiland import psf, mtf
    pw = L.primary_wavelength
    f0 = (0.0, 0.4)
    out = {}

    def q(name, fn):
        try:
            out[name] = np.array(fn(), dtype=float)
        except Exception as ex:                      # the same failure must then occur on the twin lens
            out[name] = np.array([float('nan')])
            out[name + '.raised_' + type(ex).__name__] = np.array([1.0])
    p = psf.FFTPSF(L, f0, pw, num_rays=32, grid_size=64)
    out['psf'] = np.array(p.psf, dtype=float)
    q('strehl', lambda: [p.strehl_ratio()])
    q('fft_mtf_tangential', lambda: mtf.FFTMTF(L, fields=[f0], wavelength=pw, num_rays=32, grid_size=64).mtf[0][0])
    q('geometric_mtf', lambda: mtf.GeometricMTF(L, fields=[f0], wavelength=pw, num_rays=20, num_points=16).mtf[0])
    return out


contract('C11.runtime.requery', [PS + ':FFTPSF.__init__', MTF + ':FFTMTF.__init__', MTF + ':GeometricMTF.__init__'], ['C11', 'C13'],
         custom=rt.requery_custom(_measure_c11, 'C11.runtime.psf_and_mtf_of_an_edited_lens_equal_those_of_a_lens_built_with_the_edits'))(lambda c: None)


def _diffraction_limit(ct, tier, seed):
    """bounded: the diffraction-limited curve (2/pi)(phi - cos phi sin phi), phi = arccos(f / f_cutoff)"""
    import warnings
    from optiland import mtf as mtfm
    from optiland.optic import Optic
    from optiland.materials import IdealMaterial
    warnings.simplefilter('ignore')
    np.seterr(all='ignore')
    t0 = time.time()
    rng = random.Random(seed * 23 + 2)
    clauses, fails, cases = {}, [], 0

    def note(cid, ok, detail, inputs):
        c_ = clauses.setdefault(cid, {'paths': 0, 'proved': 0, 'backends': {}, 'failed': [], 'seconds': 0.0, 'bounded': True})
        c_['paths'] += 1
        if ok:
            c_['proved'] += 1
            c_['backends']['runtime'] = c_['backends'].get('runtime', 0) + 1
        else:
            fails.append({'clause': cid, 'draws': inputs, 'note': detail})

    def dl(f, fc):
        phi = np.arccos(np.clip(f / fc, -1, 1))
        return 2 / np.pi * (phi - np.cos(phi) * np.sin(phi))
    # (a) a slow positive singlet (F/60 .. F/200): aberrations far below a wave, the pupil is a uniform disc
    for i in range(2 if tier == 'quick' else 8):
        L = Optic()
        L.add_surface(index=0, thickness=np.inf)
        L.add_surface(index=1, radius=rng.uniform(40, 90), thickness=4, material=IdealMaterial(rng.uniform(1.45, 1.8)), is_stop=True)
        L.add_surface(index=2, radius=-rng.uniform(40, 90), thickness=50)
        L.add_surface(index=3)
        L.set_aperture('EPD', rng.uniform(0.4, 0.8))
        L.set_field_type('angle')
        L.add_field(y=0)
        L.add_wavelength(0.55, is_primary=True)
        L.image_solve()
        for (nr, g) in (((32, 128), (64, 256)) if tier == 'quick' else ((32, 128), (64, 256), (128, 512), (48, 256))):
            inputs = {'lens': 'slow singlet #%d' % i, 'num_rays': nr, 'grid_size': g}
            m = mtfm.FFTMTF(L, fields=[(0.0, 0.0)], wavelength=0.55, num_rays=nr, grid_size=g)
            f = np.arange(g // 2) * m._get_mtf_units()
            ref = dl(f, m.max_freq)
            cases += 1
            for which, arr in (('tangential', m.mtf[0][0]), ('sagittal', m.mtf[0][1])):
                arr = np.asarray(arr, dtype=float)
                n_ = min(len(arr), len(ref))
                dev = float(np.max(np.abs(arr[:n_] - ref[:n_])))
                note('C11.runtime.unaberrated_fft_mtf_is_circular_pupil_formula_within_sampling_error', dev <= 1.0 / nr,
                     '%s: max deviation %.4f > 1/num_rays' % (which, dev), inputs)
    # (b) aberrated lenses: never above the diffraction-limited curve (beyond the sampling error)
    for i in range(2 if tier == 'quick' else 10):
        st = rng.getstate()
        try:
            L = rt.random_lens(_rng(st), finite=False)
            wl = L.primary_wavelength
            nr, g = 32, 128
            m = mtfm.FFTMTF(L, fields=[(0.0, 0.0), (0.0, 0.7)], wavelength=wl, num_rays=nr, grid_size=g)
        except Exception:
            continue
        f = np.arange(g // 2) * m._get_mtf_units()
        ref = dl(f, m.max_freq)
        for k_ in range(2):
            for arr in m.mtf[k_]:
                arr = np.asarray(arr, dtype=float)
                if not np.all(np.isfinite(arr)):
                    continue
                n_ = min(len(arr), len(ref))
                cases += 1
                note('C11.runtime.fft_mtf_never_exceeds_the_diffraction_limited_curve', bool(np.all(arr[:n_] <= ref[:n_] + 1.0 / nr)),
                     'random#%d: excess %.4f' % (i, float(np.max(arr[:n_] - ref[:n_]))), {'lens': 'random#%d' % i})
        try:
            gm = mtfm.GeometricMTF(L, fields=[(0.0, 0.0), (0.0, 0.7)], wavelength=wl, num_rays=20, num_points=32)
        except Exception:
            continue
        note('C11.runtime.geometric_mtf_reference_is_circular_pupil_formula', bool(np.allclose(gm.diff_limited_mtf, dl(gm.freq, gm.max_freq), rtol=0, atol=1e-12)),
             '', {'lens': 'random#%d' % i})
        for k_ in range(2):
            for arr in gm.mtf[k_]:
                arr = np.asarray(arr, dtype=float)
                if np.all(np.isfinite(arr)):
                    note('C11.runtime.geometric_mtf_never_exceeds_its_reference', bool(np.all(arr <= gm.diff_limited_mtf + 1e-12)), '', {'lens': 'random#%d' % i})
    return {'contract': ct.name, 'functions': ct.functions, 'props': ct.props,
            'symbolic': {'clauses': clauses, 'paths': 0, 'errors': [], 'solver_s': 0.0, 'samples': [], 'wd_assumed': [], 'assumed': []},
            'numeric': {'accepted': cases, 'rejected': 0, 'failures': fails[:10], 'concolic_agree': 0, 'encoder_mismatches': [],
                        'samples': [{'sampling_error_bound': '1/num_rays'}]}, 'wall_s': time.time() - t0}


contract('C11.runtime.diffraction_limit', [MTF + ':FFTMTF._generate_mtf_data', MTF + ':FFTMTF._get_mtf_units', MTF + ':GeometricMTF._generate_mtf_data',
                                           MTF + ':GeometricMTF._compute_field_data'], ['C11'], custom=_diffraction_limit)(lambda c: None)


def _working_fno(finite):
    @contract('C11.FFTMTF.working_fno.' + ('finite' if finite else 'infinite'), [MTF + ':FFTMTF._get_fno', MTF + ':FFTMTF.__init__'], ['C11'], max_paths=16)
    def wf(c):
        """the F-number behind the reported cut-off is the *working* F-number N (1 + |m| / p) with the signed pupil magnification
        p = XPD / EPD for a finite object, and N itself for an object at infinity"""
        M = c.mod('optiland.mtf')
        N = c.real('FNO', 1.0, 12.0, positive=True)
        m = c.real('magnification', -3, 3)
        xpd, epd = c.real('XPD', -20, 20, nonzero=True), c.real('EPD', 1, 20, positive=True)

        class Px:
            def FNO(self_):
                return N

            def XPD(self_):
                return xpd

            def EPD(self_):
                return epd

            def magnification(self_):
                return m

        class Obj:
            is_infinite = not finite

        class Opt(StubBase):
            paraxial = Px()
            object_surface = Obj()
        o = object.__new__(M.FFTMTF)
        o.optic = Opt()
        got = c.val(o._get_fno())
        if finite:
            c.ensure_eq('C11.mtf.cutoff_uses_the_working_f_number_with_signed_pupil_magnification', got, N * (1 + c.abs(m) * epd / xpd))
        else:
            c.ensure_eq('C11.mtf.cutoff_uses_the_f_number_for_an_object_at_infinity', got, N)
    return wf


_working_fno(True)
_working_fno(False)


# concrete inputs found by the defect-hunting sub-agents (bounded replay, see contracts/hunt.py)
from . import hunt as _hunt  # noqa: E402
_hunt.register('C11')
