"""C15 -- tolerancing reports true perturbed performance and restores the nominal lens."""
import math
from pyvc.vc import contract
from .common import *  # noqa
from .lens import arbitrary_lens
from . import variables as _variables
from .c14 import _register_metrics

PROPERTY = 'C15'
K_QUICK = 10
K_THOROUGH = 150
TC = 'optiland/tolerancing/core.py'
TP = 'optiland/tolerancing/perturbation.py'
TS = 'optiland/tolerancing/sensitivity_analysis.py'
TM = 'optiland/tolerancing/monte_carlo.py'
ASSUMPTIONS = ['seeded reproducibility rests on the contract of the NumPy global RNG (np.random.seed): assumed; checked at run time only',
               'compensation runs SciPy: rows with compensators are checked at run time only (bounded)']

_variables.register('C15', ['C15'], n=4, s=2)


def _tol(c, special=None, tiny=False):
    lens, v = arbitrary_lens(c, 4, stop=1, finite_object=False, special=special)
    lens.add_wavelength(0.55, is_primary=True)
    lens.set_aperture('EPD', c.real('EPD', 0.5, 6.0, positive=True))
    _register_metrics(c)
    T = c.mod('optiland.tolerancing.core').Tolerancing(lens)
    return lens, v, T


def _state(c, lens):
    """abstract view that the operands depend on"""
    sg = lens.surface_group
    return [c.val(sg.radii[1]), c.val(sg.radii[2]), c.val(sg.get_thickness(1)), c.val(sg.get_thickness(2))]


@contract('C15.perturbation', [TP + ':Perturbation.apply', TP + ':Perturbation.reset', TP + ':ScalarSampler.sample',
                               'optiland/optimization/variable/variable.py:Variable.reset'], ['C15'], max_paths=32)
def perturbation(c):
    lens, v, T = _tol(c)
    P = c.mod('optiland.tolerancing.perturbation')
    val = c.real('perturbed_radius', 5, 90, positive=True)
    T.add_perturbation('radius', P.ScalarSampler(val), surface_number=2)
    p = T.perturbations[0]
    s0 = _state(c, lens)
    before = c.snapshot(lens=lens.surface_group)
    p.apply()
    c.ensure_eq('C15.perturbation.apply_sets_sampled_value', c.val(lens.surface_group.radii[2]), val)
    c.ensure_eq('C15.perturbation.records_value', c.val(p.value), val)
    c.ensure_frame('C15.perturbation.apply_frame', before, c.snapshot(lens=lens.surface_group), ['lens.surfaces[2].geometry.radius'])
    p.reset()
    s1 = _state(c, lens)
    for a, b in zip(s0, s1):
        c.ensure_eq('C15.perturbation.reset_restores_nominal', b, a)
    c.ensure_frame('C15.perturbation.reset_frame', before, c.snapshot(lens=lens.surface_group), [])


@contract('C15.perturbation.tiny_coefficient', [TP + ':Perturbation.apply', TP + ':Perturbation.reset'], ['C15'], max_paths=32)
def perturbation_tiny(c):
    """nominal values and perturbations of any magnitude (aspheric coefficients are ~1e-8 and smaller)"""
    lens, v, T = _tol(c, special={2: 'even_asphere'})
    P = c.mod('optiland.tolerancing.perturbation')
    tiny = lambda rng: rng.choice([-1, 1]) * 10 ** rng.uniform(-13, -5)       # noqa: E731
    nominal = c.real('nominal_coeff', -1e-5, 1e-5, sample=tiny)
    lens.surface_group.surfaces[2].geometry.c[1] = nominal
    val = c.real('perturbed_coeff', -1e-5, 1e-5, sample=tiny)
    T.add_perturbation('asphere_coeff', P.ScalarSampler(val), surface_number=2, coeff_number=1)
    p = T.perturbations[0]
    p.apply()
    c.ensure_eq('C15.perturbation.apply_sets_sampled_value', c.val(lens.surface_group.surfaces[2].geometry.c[1]), val, tol=1e-12)
    p.reset()
    got = c.val(lens.surface_group.surfaces[2].geometry.c[1])
    if c.mode == 'num':
        c.ensure('C15.perturbation.reset_restores_nominal', got == nominal)
    else:
        c.ensure_eq('C15.perturbation.reset_restores_nominal', got, nominal)


@contract('C15.RangeSampler', [TP + ':RangeSampler.sample', TP + ':RangeSampler.__init__'], ['C15'], max_paths=16)
def range_sampler(c):
    P = c.mod('optiland.tolerancing.perturbation')
    a, b = c.real('start', -5, 5), c.real('end', 6, 20)
    for steps in (2, 3, 5):
        s = P.RangeSampler(a, b, steps)
        got = [c.val(s.sample()) for _ in range(2 * steps)]
        for i in range(2 * steps):
            j = i % steps
            c.ensure_eq('C15.range_sampler.linspace_with_wraparound', got[i], a + (b - a) * j / (steps - 1))
        c.ensure('C15.range_sampler.size', s.size == steps)


@contract('C15.Tolerancing', [TC + ':Tolerancing.reset', TC + ':Tolerancing.add_operand', TC + ':Tolerancing.evaluate',
                              TC + ':Tolerancing.add_perturbation', TC + ':Tolerancing.add_compensator'], ['C15'], max_paths=32)
def tolerancing(c):
    lens, v, T = _tol(c)
    P = c.mod('optiland.tolerancing.perturbation')
    T.add_operand('verif_radius', {'optic': lens, 'surface_number': 2})
    c.ensure_eq('C15.add_operand.default_target_is_current_value', c.val(T.operands[0].target), c.val(lens.surface_group.radii[2]))
    T.add_perturbation('radius', P.ScalarSampler(c.real('pr', 5, 90, positive=True)), surface_number=2)
    T.add_perturbation('thickness', P.ScalarSampler(c.real('pt', 1, 9, positive=True)), surface_number=1)
    T.add_compensator('thickness', surface_number=2)
    s0 = _state(c, lens)
    for p in T.perturbations:
        p.apply()
    T.compensator.variables[0].update(c.real('comp', 1, 9, positive=True))
    T.reset()
    for a, b in zip(s0, _state(c, lens)):
        c.ensure_eq('C15.reset.lens_back_at_nominal', b, a)
    c.ensure_eq('C15.evaluate.reads_current_lens', c.val(T.evaluate()[0]), c.val(lens.surface_group.radii[2]))


def _run_contract(kind):
    @contract('C15.run.' + kind, [TS + ':SensitivityAnalysis.run', TM + ':MonteCarlo.run', TC + ':Tolerancing.reset',
                                  TC + ':Tolerancing.apply_compensators', TC + ':Tolerancing.evaluate'], ['C15'], max_paths=32)
    def run(c):
        lens, v, T = _tol(c)
        P = c.mod('optiland.tolerancing.perturbation')
        T.add_operand('verif_radius', {'optic': lens, 'surface_number': 2})
        T.add_operand('verif_gap', {'optic': lens, 'surface_number': 1})
        nominal = [c.val(x) for x in T.evaluate()]
        s0 = _state(c, lens)
        r_lo, r_hi = c.real('r_lo', 5, 40, positive=True), c.real('r_hi', 45, 90, positive=True)
        t_lo, t_hi = c.real('t_lo', 1, 4, positive=True), c.real('t_hi', 5, 9, positive=True)
        if kind == 'sensitivity':
            T.add_perturbation('radius', P.RangeSampler(r_lo, r_hi, 2), surface_number=2)
            T.add_perturbation('thickness', P.RangeSampler(t_lo, t_hi, 2), surface_number=1)
            A = c.mod('optiland.tolerancing.sensitivity_analysis').SensitivityAnalysis(T)
            A.run()
            df = A.get_results()
            rows = [df.iloc[i] for i in range(4)]
            names = A.operand_names
            expect = [(r_lo, s0[2]), (r_hi, s0[2]), (s0[1], t_lo), (s0[1], t_hi)]     # (radius 2, gap 1): one perturbation at a time
            pv = [r_lo, r_hi, t_lo, t_hi]
            for i in range(4):
                c.ensure_eq('C15.run.row_is_operands_of_the_recorded_perturbation', c.val(rows[i][names[0]]), expect[i][0])
                c.ensure_eq('C15.run.row_is_operands_of_the_recorded_perturbation', c.val(rows[i][names[1]]), expect[i][1])
                c.ensure_eq('C15.run.recorded_perturbation_value', c.val(rows[i]['perturbation_value']), pv[i])
        else:
            T.add_perturbation('radius', P.ScalarSampler(r_lo), surface_number=2)
            T.add_perturbation('thickness', P.ScalarSampler(t_lo), surface_number=1)
            A = c.mod('optiland.tolerancing.monte_carlo').MonteCarlo(T)
            A.run(2)
            df = A.get_results()
            names = A.operand_names
            for i in range(2):
                c.ensure_eq('C15.run.row_is_operands_of_the_recorded_perturbation', c.val(df.iloc[i][names[0]]), r_lo)
                c.ensure_eq('C15.run.row_is_operands_of_the_recorded_perturbation', c.val(df.iloc[i][names[1]]), t_lo)
        for a, b in zip(s0, _state(c, lens)):
            c.ensure_eq('C15.run.lens_back_at_nominal_when_run_completes', b, a)
        # a perturbation equal to the nominal value reproduces the nominal operand values
        T.perturbations[0].sampler = P.ScalarSampler(s0[1])
        T.perturbations[1].sampler = P.ScalarSampler(s0[2])
        for p in T.perturbations:
            p.apply()
        for a, b in zip(nominal, T.evaluate()):
            c.ensure_eq('C15.nominal_perturbation_reproduces_nominal_operands', c.val(b), a)
    return run


_run_contract('sensitivity')
_run_contract('monte_carlo')
