"""C15 -- tolerancing reports true perturbed performance and restores the nominal lens."""
import math
from pyvc.vc import contract
from .common import *  # noqa
from .lens import arbitrary_lens
from . import variables as _variables
from .c14 import _register_metrics

PROPERTY = 'C15'
K_QUICK = 10
K_THOROUGH = 150
TC = 'optiland/tolerancing/core.py'
TP = 'optiland/tolerancing/perturbation.py'
TS = 'optiland/tolerancing/sensitivity_analysis.py'
TM = 'optiland/tolerancing/monte_carlo.py'
ASSUMPTIONS = ['seeded reproducibility rests on the contract of the NumPy global RNG (np.random.seed): assumed; checked at run time only',
               'compensation runs SciPy: rows with compensators are checked at run time only (bounded)']

_variables.register('C15', ['C15'], n=4, s=2)


def _tol(c, special=None, tiny=False):
    lens, v = arbitrary_lens(c, 4, stop=1, finite_object=False, special=special)
    lens.add_wavelength(0.55, is_primary=True)
    lens.set_aperture('EPD', c.real('EPD', 0.5, 6.0, positive=True))
    _register_metrics(c)
    T = c.mod('optiland.tolerancing.core').Tolerancing(lens)
    return lens, v, T


def _state(c, lens):
    """abstract view that the operands depend on"""
    sg = lens.surface_group
    return [c.val(sg.radii[1]), c.val(sg.radii[2]), c.val(sg.get_thickness(1)), c.val(sg.get_thickness(2))]


@contract('C15.perturbation', [TP + ':Perturbation.apply', TP + ':Perturbation.reset', TP + ':ScalarSampler.sample',
                               'optiland/optimization/variable/variable.py:Variable.reset'], ['C15'], max_paths=32)
def perturbation(c):
    lens, v, T = _tol(c)
    P = c.mod('optiland.tolerancing.perturbation')
    val = c.real('perturbed_radius', 5, 90, positive=True)
    T.add_perturbation('radius', P.ScalarSampler(val), surface_number=2)
    p = T.perturbations[0]
    s0 = _state(c, lens)
    before = c.snapshot(lens=lens.surface_group)
    p.apply()
    c.ensure_eq('C15.perturbation.apply_sets_sampled_value', c.val(lens.surface_group.radii[2]), val)
    c.ensure_eq('C15.perturbation.records_value', c.val(p.value), val)
    c.ensure_frame('C15.perturbation.apply_frame', before, c.snapshot(lens=lens.surface_group), ['lens.surfaces[2].geometry.radius'])
    p.reset()
    s1 = _state(c, lens)
    for a, b in zip(s0, s1):
        c.ensure_eq('C15.perturbation.reset_restores_nominal', b, a)
    c.ensure_frame('C15.perturbation.reset_frame', before, c.snapshot(lens=lens.surface_group), [])


@contract('C15.perturbation.tiny_coefficient', [TP + ':Perturbation.apply', TP + ':Perturbation.reset'], ['C15'], max_paths=32)
def perturbation_tiny(c):
    """nominal values and perturbations of any magnitude (aspheric coefficients are ~1e-8 and smaller)"""
    lens, v, T = _tol(c, special={2: 'even_asphere'})
    P = c.mod('optiland.tolerancing.perturbation')
    tiny = lambda rng: rng.choice([-1, 1]) * 10 ** rng.uniform(-13, -5)       # noqa: E731
    nominal = c.real('nominal_coeff', -1e-5, 1e-5, sample=tiny)
    lens.surface_group.surfaces[2].geometry.c[1] = nominal
    val = c.real('perturbed_coeff', -1e-5, 1e-5, sample=tiny)
    T.add_perturbation('asphere_coeff', P.ScalarSampler(val), surface_number=2, coeff_number=1)
    p = T.perturbations[0]
    p.apply()
    c.ensure_eq('C15.perturbation.apply_sets_sampled_value', c.val(lens.surface_group.surfaces[2].geometry.c[1]), val, tol=1e-12)
    p.reset()
    got = c.val(lens.surface_group.surfaces[2].geometry.c[1])
    if c.mode == 'num':
        c.ensure('C15.perturbation.reset_restores_nominal', got == nominal)
    else:
        c.ensure_eq('C15.perturbation.reset_restores_nominal', got, nominal)


@contract('C15.RangeSampler', [TP + ':RangeSampler.sample', TP + ':RangeSampler.__init__'], ['C15'], max_paths=16)
def range_sampler(c):
    P = c.mod('optiland.tolerancing.perturbation')
    a, b = c.real('start', -5, 5), c.real('end', 6, 20)
    for steps in (2, 3, 5):
        s = P.RangeSampler(a, b, steps)
        got = [c.val(s.sample()) for _ in range(2 * steps)]
        for i in range(2 * steps):
            j = i % steps
            c.ensure_eq('C15.range_sampler.linspace_with_wraparound', got[i], a + (b - a) * j / (steps - 1))
        c.ensure('C15.range_sampler.size', s.size == steps)


@contract('C15.Tolerancing', [TC + ':Tolerancing.reset', TC + ':Tolerancing.add_operand', TC + ':Tolerancing.evaluate',
                              TC + ':Tolerancing.add_perturbation', TC + ':Tolerancing.add_compensator'], ['C15'], max_paths=32)
def tolerancing(c):
    lens, v, T = _tol(c)
    P = c.mod('optiland.tolerancing.perturbation')
    T.add_operand('verif_radius', {'optic': lens, 'surface_number': 2})
    c.ensure_eq('C15.add_operand.default_target_is_current_value', c.val(T.operands[0].target), c.val(lens.surface_group.radii[2]))
    T.add_perturbation('radius', P.ScalarSampler(c.real('pr', 5, 90, positive=True)), surface_number=2)
    T.add_perturbation('thickness', P.ScalarSampler(c.real('pt', 1, 9, positive=True)), surface_number=1)
    T.add_compensator('thickness', surface_number=2)
    s0 = _state(c, lens)
    for p in T.perturbations:
        p.apply()
    T.compensator.variables[0].update(c.real('comp', 1, 9, positive=True))
    T.reset()
    for a, b in zip(s0, _state(c, lens)):
        c.ensure_eq('C15.reset.lens_back_at_nominal', b, a)
    c.ensure_eq('C15.evaluate.reads_current_lens', c.val(T.evaluate()[0]), c.val(lens.surface_group.radii[2]))


def _run_contract(kind):
    @contract('C15.run.' + kind, [TS + ':SensitivityAnalysis.run', TM + ':MonteCarlo.run', TC + ':Tolerancing.reset',
                                  TC + ':Tolerancing.apply_compensators', TC + ':Tolerancing.evaluate'], ['C15'], max_paths=32)
    def run(c):
        lens, v, T = _tol(c)
        P = c.mod('optiland.tolerancing.perturbation')
        T.add_operand('verif_radius', {'optic': lens, 'surface_number': 2})
        T.add_operand('verif_gap', {'optic': lens, 'surface_number': 1})
        nominal = [c.val(x) for x in T.evaluate()]
        s0 = _state(c, lens)
        r_lo, r_hi = c.real('r_lo', 5, 40, positive=True), c.real('r_hi', 45, 90, positive=True)
        t_lo, t_hi = c.real('t_lo', 1, 4, positive=True), c.real('t_hi', 5, 9, positive=True)
        if kind == 'sensitivity':
            T.add_perturbation('radius', P.RangeSampler(r_lo, r_hi, 2), surface_number=2)
            T.add_perturbation('thickness', P.RangeSampler(t_lo, t_hi, 2), surface_number=1)
            A = c.mod('optiland.tolerancing.sensitivity_analysis').SensitivityAnalysis(T)
            A.run()
            df = A.get_results()
            rows = [df.iloc[i] for i in range(4)]
            names = A.operand_names
            expect = [(r_lo, s0[2]), (r_hi, s0[2]), (s0[1], t_lo), (s0[1], t_hi)]     # (radius 2, gap 1): one perturbation at a time
            pv = [r_lo, r_hi, t_lo, t_hi]
            for i in range(4):
                c.ensure_eq('C15.run.row_is_operands_of_the_recorded_perturbation', c.val(rows[i][names[0]]), expect[i][0])
                c.ensure_eq('C15.run.row_is_operands_of_the_recorded_perturbation', c.val(rows[i][names[1]]), expect[i][1])
                c.ensure_eq('C15.run.recorded_perturbation_value', c.val(rows[i]['perturbation_value']), pv[i])
        else:
            T.add_perturbation('radius', P.ScalarSampler(r_lo), surface_number=2)
            T.add_perturbation('thickness', P.ScalarSampler(t_lo), surface_number=1)
            A = c.mod('optiland.tolerancing.monte_carlo').MonteCarlo(T)
            A.run(2)
            df = A.get_results()
            names = A.operand_names
            for i in range(2):
                c.ensure_eq('C15.run.row_is_operands_of_the_recorded_perturbation', c.val(df.iloc[i][names[0]]), r_lo)
                c.ensure_eq('C15.run.row_is_operands_of_the_recorded_perturbation', c.val(df.iloc[i][names[1]]), t_lo)
        for a, b in zip(s0, _state(c, lens)):
            c.ensure_eq('C15.run.lens_back_at_nominal_when_run_completes', b, a)
        # a perturbation equal to the nominal value reproduces the nominal operand values
        T.perturbations[0].sampler = P.ScalarSampler(s0[1])
        T.perturbations[1].sampler = P.ScalarSampler(s0[2])
        for p in T.perturbations:
            p.apply()
        for a, b in zip(nominal, T.evaluate()):
            c.ensure_eq('C15.nominal_perturbation_reproduces_nominal_operands', c.val(b), a)
    return run


_run_contract('sensitivity')
_run_contract('monte_carlo')


# ---- bounded: runs with a compensator (real SciPy), every recorded row reproduced on a fresh copy of the nominal lens ----------------
def _compensated(ct, tier, seed):
    """a sensitivity sweep and a Monte-Carlo run with a compensator: the operand and compensator values recorded for each trial
    equal those obtained by applying the recorded perturbation value to a *fresh* nominal lens followed by the same compensation
    -- in particular they do not depend on which trials came before (several orders of the same perturbations are run)"""
    import random
    import time
    import warnings
    import numpy as np
    from optiland.optic import Optic
    from optiland.materials import IdealMaterial
    from optiland.tolerancing.core import Tolerancing
    from optiland.tolerancing.perturbation import RangeSampler, ScalarSampler
    from optiland.tolerancing.sensitivity_analysis import SensitivityAnalysis
    from optiland.tolerancing.monte_carlo import MonteCarlo
    warnings.simplefilter('ignore')
    np.seterr(all='ignore')
    t0 = time.time()
    rng = random.Random(seed * 43 + 9)
    clauses, fails, cases = {}, [], 0

    def note(cid, ok, detail, inputs):
        c_ = clauses.setdefault(cid, {'paths': 0, 'proved': 0, 'backends': {}, 'failed': [], 'seconds': 0.0, 'bounded': True})
        c_['paths'] += 1
        if ok:
            c_['proved'] += 1
            c_['backends']['runtime'] = c_['backends'].get('runtime', 0) + 1
        else:
            fails.append({'clause': cid, 'draws': inputs, 'note': detail})

    def build(par):
        L = Optic()
        L.add_surface(index=0, thickness=np.inf)
        L.add_surface(index=1, radius=par['R1'], thickness=par['t1'], material=IdealMaterial(par['n']), is_stop=True)
        L.add_surface(index=2, radius=-par['R2'], thickness=par['bfl'])
        L.add_surface(index=3)
        L.set_aperture('EPD', par['epd'])
        L.set_field_type('angle')
        L.add_field(y=0.0)
        L.add_field(y=3.0)
        L.add_wavelength(0.55, is_primary=True)
        return L

    def tol_for(L):
        T = Tolerancing(L, method='generic', tol=1e-5)
        for Hy in (0.0, 1.0):
            T.add_operand('rms_spot_size', {'optic': L, 'surface_number': -1, 'Hx': 0.0, 'Hy': Hy, 'num_rays': 3, 'wavelength': 0.55,
                                            'distribution': 'hexapolar'})            # target = the nominal value (the documented default)
        T.add_compensator('thickness', surface_number=2)
        return T
    PERT = {'decenter': dict(variable_type='decenter', surface_number=1, axis='y'), 'radius': dict(variable_type='radius', surface_number=1),
            'thickness': dict(variable_type='thickness', surface_number=1)}
    for trial in range(1 if tier == 'quick' else 4):
        par = {'R1': rng.uniform(40, 70), 'R2': rng.uniform(40, 70), 't1': rng.uniform(3, 6), 'n': rng.uniform(1.5, 1.7), 'epd': rng.uniform(8, 12)}
        par['bfl'] = 0.9 * (1.0 / ((par['n'] - 1) * (1 / par['R1'] + 1 / par['R2'])))          # near (not at) the paraxial focus
        ranges = {'decenter': (-0.002, 0.002), 'radius': (par['R1'] - 2.0, par['R1'] + 2.0), 'thickness': (par['t1'] - 0.5, par['t1'] + 0.5)}
        orders = [('decenter', 'radius', 'thickness'), ('radius', 'thickness', 'decenter')] if tier == 'quick' else \
            [('decenter', 'radius', 'thickness'), ('radius', 'thickness', 'decenter'), ('thickness', 'decenter', 'radius')]
        for order in orders:
            L = build(par)
            T = tol_for(L)
            for nm in order:
                kw = dict(PERT[nm])
                T.add_perturbation(kw.pop('variable_type'), RangeSampler(ranges[nm][0], ranges[nm][1], 2), **kw)
            A = SensitivityAnalysis(T)
            try:
                A.run()
            except Exception as ex:
                note('C15.runtime.compensated_run_completes', False, '%s: %s' % (type(ex).__name__, ex), {'order': order, 'lens': par})
                continue
            df = A.get_results()
            names = A.operand_names
            comp_cols = [c_ for c_ in df.columns if str(c_).startswith('C0:')]
            row = 0
            for nm in order:
                for _ in range(2):
                    r = df.iloc[row]
                    row += 1
                    # fresh nominal lens, the recorded perturbation value, the same compensation
                    L2 = build(par)
                    T2 = tol_for(L2)
                    kw = dict(PERT[nm])
                    T2.add_perturbation(kw.pop('variable_type'), ScalarSampler(float(r['perturbation_value'])), **kw)
                    T2.perturbations[0].apply()
                    comp = T2.apply_compensators()
                    vals = T2.evaluate()
                    inputs = {'lens': par, 'order': list(order), 'perturbation': nm, 'value': float(r['perturbation_value'])}
                    cases += 1
                    got = [float(r[n_]) for n_ in names]
                    note('C15.runtime.compensated_row_equals_fresh_lens_with_same_perturbation_and_compensation',
                         bool(np.allclose(got, [float(v_) for v_ in vals], rtol=1e-6, atol=1e-9)), '%s vs fresh %s' % (got, [float(v_) for v_ in vals]), inputs)
                    if comp_cols:
                        note('C15.runtime.recorded_compensator_value_equals_fresh_compensation',
                             bool(np.allclose(float(r[comp_cols[0]]), float(list(comp.values())[0]), rtol=1e-6, atol=1e-9)),
                             '%s vs fresh %s' % (float(r[comp_cols[0]]), list(comp.values())[0]), inputs)
            back = build(par)
            note('C15.runtime.nominal_restored_after_compensated_run', bool(np.allclose(L.surface_group.positions, back.surface_group.positions, rtol=0, atol=1e-12))
                 and bool(np.allclose(L.surface_group.radii, back.surface_group.radii, rtol=0, atol=1e-12, equal_nan=True)), '', {'lens': par, 'order': list(order)})
        # Monte Carlo with the compensator: reproducible row by row on a fresh lens
        L = build(par)
        T = tol_for(L)
        T.add_perturbation('radius', RangeSampler(par['R1'] - 1.0, par['R1'] + 1.0, 3), surface_number=1)
        M = MonteCarlo(T)
        try:
            M.run(3)
            df = M.get_results()
            names = M.operand_names
            for i in range(3):
                r = df.iloc[i]
                pcol = [c_ for c_ in df.columns if 'Radius' in str(c_) or 'radius' in str(c_)]
                if not pcol:
                    break
                L2 = build(par)
                T2 = tol_for(L2)
                T2.add_perturbation('radius', ScalarSampler(float(r[pcol[0]])), surface_number=1)
                T2.perturbations[0].apply()
                T2.apply_compensators()
                vals = [float(v_) for v_ in T2.evaluate()]
                cases += 1
                note('C15.runtime.compensated_row_equals_fresh_lens_with_same_perturbation_and_compensation',
                     bool(np.allclose([float(r[n_]) for n_ in names], vals, rtol=1e-6, atol=1e-9)), 'monte carlo row %d' % i, {'lens': par, 'row': i})
        except Exception as ex:
            note('C15.runtime.compensated_run_completes', False, 'MonteCarlo: %s: %s' % (type(ex).__name__, ex), {'lens': par})
    return {'contract': ct.name, 'functions': ct.functions, 'props': ct.props,
            'symbolic': {'clauses': clauses, 'paths': 0, 'errors': [], 'solver_s': 0.0, 'samples': [], 'wd_assumed': [], 'assumed': []},
            'numeric': {'accepted': cases, 'rejected': 0, 'failures': fails[:10], 'concolic_agree': 0, 'encoder_mismatches': [],
                        'samples': [{'orders': 'decenter/radius/thickness permutations'}]}, 'wall_s': time.time() - t0}


contract('C15.runtime.compensated', [TS + ':SensitivityAnalysis.run', TM + ':MonteCarlo.run', TC + ':Tolerancing.apply_compensators',
                                     'optiland/tolerancing/compensator.py:CompensatorOptimizer.run'], ['C15'], custom=_compensated)(lambda c: None)


def _undefined(ct, tier, seed):
    """bounded: runs in which some trials cannot be traced (the perturbed front radius is smaller than the beam, the operands are
    undefined): there is one row per trial, in trial order, carrying the perturbation value of that trial; the row of an untraceable
    trial reports the operands as undefined (NaN) exactly where a fresh lens with that perturbation has them undefined; the rows of
    the other trials equal the fresh-lens values; the lens is back at nominal afterwards"""
    import time
    import warnings
    import numpy as np
    from optiland.optic import Optic
    from optiland.materials import IdealMaterial
    from optiland.tolerancing.core import Tolerancing
    from optiland.tolerancing.perturbation import RangeSampler, ScalarSampler
    from optiland.tolerancing.sensitivity_analysis import SensitivityAnalysis
    from optiland.tolerancing.monte_carlo import MonteCarlo
    warnings.simplefilter('ignore')
    np.seterr(all='ignore')
    t0 = time.time()
    clauses, fails, cases = {}, [], 0

    def note(cid, ok, detail, inputs):
        c_ = clauses.setdefault(cid, {'paths': 0, 'proved': 0, 'backends': {}, 'failed': [], 'seconds': 0.0, 'bounded': True})
        c_['paths'] += 1
        if ok:
            c_['proved'] += 1
            c_['backends']['runtime'] = c_['backends'].get('runtime', 0) + 1
        else:
            fails.append({'clause': cid, 'draws': inputs, 'note': detail})

    def build():
        L = Optic()
        L.add_surface(index=0, thickness=np.inf)
        L.add_surface(index=1, radius=20.0, thickness=6.0, material=IdealMaterial(1.7), is_stop=True)
        L.add_surface(index=2, radius=-250.0, thickness=24.0)
        L.add_surface(index=3)
        L.set_aperture('EPD', 8.0)
        L.set_field_type('angle')
        L.add_field(y=0.0)
        L.add_field(y=3.0)
        L.add_wavelength(0.55, is_primary=True)
        return L

    def tol_for(L):
        T = Tolerancing(L)
        for Hy in (0.0, 1.0):
            T.add_operand('rms_spot_size', {'optic': L, 'surface_number': -1, 'Hx': 0.0, 'Hy': Hy, 'num_rays': 3, 'wavelength': 0.55,
                                            'distribution': 'hexapolar'})
        return T

    def fresh(value):
        L2 = build()
        T2 = tol_for(L2)
        T2.add_perturbation('radius', ScalarSampler(float(value)), surface_number=1)
        T2.perturbations[0].apply()
        return [float(v_) for v_ in T2.evaluate()]
    for (lo, hi, n) in ((3.0, 36.0, 4), (30.0, 3.0, 3)) + (() if tier == 'quick' else ((2.0, 3.5, 3), (3.0, 40.0, 6))):
        want_values = [float(v_) for v_ in np.linspace(lo, hi, n)]
        for kind in ('monte_carlo', 'sensitivity'):
            L = build()
            T = tol_for(L)
            T.add_perturbation('radius', RangeSampler(lo, hi, n), surface_number=1)
            A = MonteCarlo(T) if kind == 'monte_carlo' else SensitivityAnalysis(T)
            inputs = {'analysis': kind, 'radius_values': want_values}
            try:
                A.run(n) if kind == 'monte_carlo' else A.run()
                df = A.get_results()
            except Exception as ex:
                note('C15.runtime.run_with_untraceable_trials_completes', False, '%s: %s' % (type(ex).__name__, ex), inputs)
                continue
            note('C15.runtime.run_with_untraceable_trials_completes', True, '', inputs)
            names = A.operand_names
            pcol = 'perturbation_value' if kind == 'sensitivity' else [c_ for c_ in df.columns if 'adius' in str(c_)][0]
            cases += 1
            ok_rows = len(df) == n and bool(np.allclose([float(v_) for v_ in df[pcol]], want_values, rtol=1e-12, atol=0))
            note('C15.runtime.one_row_per_trial_in_trial_order_with_its_perturbation_value', ok_rows,
                 '%d rows for %d trials; recorded %s' % (len(df), n, [float(v_) for v_ in df[pcol]]), inputs)
            if not ok_rows:
                continue
            for i in range(n):
                got = [float(df.iloc[i][n_]) for n_ in names]
                want = fresh(want_values[i])
                note('C15.runtime.undefined_operands_are_recorded_as_undefined_and_defined_ones_as_their_value',
                     bool(np.allclose(got, want, rtol=1e-9, atol=1e-12, equal_nan=True)), 'trial %d (radius %s): %s vs fresh %s' % (i, want_values[i], got, want),
                     dict(inputs, trial=i))
            back = build()
            note('C15.runtime.nominal_restored_after_a_run_with_untraceable_trials',
                 bool(np.allclose(L.surface_group.radii, back.surface_group.radii, rtol=0, atol=1e-12, equal_nan=True))
                 and bool(np.allclose(L.surface_group.positions, back.surface_group.positions, rtol=0, atol=1e-12)), '', inputs)
    return {'contract': ct.name, 'functions': ct.functions, 'props': ct.props,
            'symbolic': {'clauses': clauses, 'paths': 0, 'errors': [], 'solver_s': 0.0, 'samples': [], 'wd_assumed': [], 'assumed': []},
            'numeric': {'accepted': cases, 'rejected': 0, 'failures': fails[:10], 'concolic_agree': 0, 'encoder_mismatches': [],
                        'samples': [{'lens': 'singlet EPD 8, front radius perturbed down to 3'}]}, 'wall_s': time.time() - t0}


contract('C15.runtime.undefined', [TS + ':SensitivityAnalysis.run', TM + ':MonteCarlo.run', TC + ':Tolerancing.evaluate'], ['C15'],
         custom=_undefined)(lambda c: None)


def _constrained(ct, tier, seed):
    """bounded: a lens that carries a pickup (R2 = -R1) and a marginal-ray-height solve on the image surface, toleranced without
    compensators: every recorded row equals the operands of a fresh nominal lens (built the same way) to which exactly the recorded
    perturbation value was applied, and after the run -- and after reset() -- radii and vertex positions are the nominal ones
    (whatever a trial does to satisfy the lens's constraints must be undone with the trial)"""
    import time
    import warnings
    import numpy as np
    from optiland.optic import Optic
    from optiland.materials import IdealMaterial
    from optiland.tolerancing.core import Tolerancing
    from optiland.tolerancing.perturbation import RangeSampler, ScalarSampler
    from optiland.tolerancing.sensitivity_analysis import SensitivityAnalysis
    from optiland.tolerancing.monte_carlo import MonteCarlo
    warnings.simplefilter('ignore')
    np.seterr(all='ignore')
    t0 = time.time()
    clauses, fails, cases = {}, [], 0

    def note(cid, ok, detail, inputs):
        c_ = clauses.setdefault(cid, {'paths': 0, 'proved': 0, 'backends': {}, 'failed': [], 'seconds': 0.0, 'bounded': True})
        c_['paths'] += 1
        if ok:
            c_['proved'] += 1
            c_['backends']['runtime'] = c_['backends'].get('runtime', 0) + 1
        else:
            fails.append({'clause': cid, 'draws': inputs, 'note': detail})

    def build():
        L = Optic()
        L.add_surface(index=0, thickness=np.inf)
        L.add_surface(index=1, radius=50.0, thickness=5.0, material=IdealMaterial(1.5168), is_stop=True)
        L.add_surface(index=2, radius=-50.0, thickness=45.0)
        L.add_surface(index=3)
        L.set_aperture('EPD', 8.0)
        L.set_field_type('angle')
        L.add_field(y=0.0)
        L.add_field(y=2.0)
        L.add_wavelength(0.55, is_primary=True)
        L.pickups.add(1, 'radius', 2, scale=-1, offset=0)
        L.solves.add('marginal_ray_height', 3, 0.0)
        L.update()
        return L

    def tol_for(L):
        T = Tolerancing(L)
        for Hy in (0.0, 1.0):
            T.add_operand('rms_spot_size', {'optic': L, 'surface_number': -1, 'Hx': 0.0, 'Hy': Hy, 'num_rays': 3, 'wavelength': 0.55,
                                            'distribution': 'hexapolar'})
        return T

    def state(L):
        return [float(v_) for v_ in np.ravel(L.surface_group.radii)[1:3]] + [float(v_) for v_ in np.ravel(L.surface_group.positions)]
    PERT = {'radius': (dict(surface_number=1), (48.0, 52.0)), 'thickness': (dict(surface_number=1), (4.5, 5.5)),
            'index': (dict(surface_number=1, wavelength=0.55), (1.50, 1.53))}

    def fresh(kind, value):
        L2 = build()
        T2 = tol_for(L2)
        T2.add_perturbation(kind, ScalarSampler(float(value)), **PERT[kind][0])
        T2.perturbations[0].apply()
        return [float(v_) for v_ in T2.evaluate()]
    nominal = state(build())
    for mode in ('sensitivity', 'monte_carlo'):
        for kind in PERT:
            L = build()
            T = tol_for(L)
            lo, hi = PERT[kind][1]
            T.add_perturbation(kind, RangeSampler(lo, hi, 3), **PERT[kind][0])
            inputs = {'analysis': mode, 'perturbation': kind}
            try:
                A = SensitivityAnalysis(T) if mode == 'sensitivity' else MonteCarlo(T)
                A.run() if mode == 'sensitivity' else A.run(3)
                df = A.get_results()
            except Exception as ex:
                note('C15.runtime.constrained_lens_run_completes', False, '%s: %s' % (type(ex).__name__, ex), inputs)
                continue
            note('C15.runtime.constrained_lens_run_completes', True, '', inputs)
            names = A.operand_names
            pcol = 'perturbation_value' if mode == 'sensitivity' else [c_ for c_ in df.columns if c_ not in names][0]
            for i in range(len(df)):
                val = float(df.iloc[i][pcol])
                got, want = [float(df.iloc[i][n_]) for n_ in names], fresh(kind, val)
                cases += 1
                note('C15.runtime.constrained_lens_row_equals_fresh_lens_with_the_recorded_perturbation',
                     bool(np.allclose(got, want, rtol=1e-9, atol=1e-12, equal_nan=True)), 'trial %d (%s = %s): %s vs fresh %s' % (i, kind, val, got, want),
                     dict(inputs, trial=i))
            note('C15.runtime.constrained_lens_back_at_nominal_after_the_run', bool(np.allclose(state(L), nominal, rtol=0, atol=1e-10)),
                 '%s vs nominal %s' % (state(L), nominal), inputs)
            T.reset()
            note('C15.runtime.constrained_lens_back_at_nominal_after_reset', bool(np.allclose(state(L), nominal, rtol=0, atol=1e-10)),
                 '%s vs nominal %s' % (state(L), nominal), inputs)
    return {'contract': ct.name, 'functions': ct.functions, 'props': ct.props,
            'symbolic': {'clauses': clauses, 'paths': 0, 'errors': [], 'solver_s': 0.0, 'samples': [], 'wd_assumed': [], 'assumed': []},
            'numeric': {'accepted': cases, 'rejected': 0, 'failures': fails[:10], 'concolic_agree': 0, 'encoder_mismatches': [],
                        'samples': [{'lens': 'equi-convex singlet, pickup R2 = -R1, image solve'}]}, 'wall_s': time.time() - t0}


contract('C15.runtime.constrained', [TS + ':SensitivityAnalysis.run', TM + ':MonteCarlo.run', TC + ':Tolerancing.apply_compensators', TC + ':Tolerancing.reset'],
         ['C15'], custom=_constrained)(lambda c: None)


def _seeded(ct, tier, seed):
    """bounded: a sampler built with a seed -- any integer, 0 included -- makes the sample sequence (and a Monte-Carlo table built on
    it) reproducible whatever the state of NumPy's global generator was before"""
    import time
    import warnings
    import numpy as np
    from optiland.tolerancing.perturbation import DistributionSampler
    warnings.simplefilter('ignore')
    t0 = time.time()
    clauses, fails, cases = {}, [], 0
    cid = 'C15.runtime.seeded_sampler_is_reproducible_for_every_seed'
    c_ = clauses.setdefault(cid, {'paths': 0, 'proved': 0, 'backends': {}, 'failed': [], 'seconds': 0.0, 'bounded': True})
    for sd in (0, 1, 42, 2 ** 32 - 1, np.int64(0), 7 + seed):
        for dist, params in (('normal', {'loc': 1.0, 'scale': 0.2}), ('uniform', {'low': -1.0, 'high': 2.0})):
            seqs = []
            for pre in (123, 987654):
                np.random.seed(pre)                  # whatever happened before
                np.random.random(pre % 7 + 1)
                s_ = DistributionSampler(dist, seed=sd, **params)
                seqs.append([float(s_.sample()) for _ in range(4)])
            cases += 1
            c_['paths'] += 1
            if seqs[0] == seqs[1]:
                c_['proved'] += 1
                c_['backends']['runtime'] = c_['backends'].get('runtime', 0) + 1
            else:
                fails.append({'clause': cid, 'draws': {'seed': int(sd), 'distribution': dist}, 'note': '%s vs %s' % (seqs[0][:2], seqs[1][:2])})
    return {'contract': ct.name, 'functions': ct.functions, 'props': ct.props,
            'symbolic': {'clauses': clauses, 'paths': 0, 'errors': [], 'solver_s': 0.0, 'samples': [], 'wd_assumed': [], 'assumed': []},
            'numeric': {'accepted': cases, 'rejected': 0, 'failures': fails[:10], 'concolic_agree': 0, 'encoder_mismatches': [],
                        'samples': [{'seeds': [0, 1, 42, 2 ** 32 - 1]}]}, 'wall_s': time.time() - t0}


contract('C15.runtime.seeded', [TP + ':DistributionSampler.__init__', TP + ':DistributionSampler.sample'], ['C15'], custom=_seeded)(lambda c: None)


# concrete inputs found by the defect-hunting sub-agents (bounded replay, see contracts/hunt.py)
from . import hunt as _hunt  # noqa: E402
_hunt.register('C15')
