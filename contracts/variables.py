"""optimisation-variable handles: PutGet / GetPut / frame for all nine behaviours (shared by C01, C14, C15)"""
from pyvc.vc import contract
from .lens import arbitrary_lens

VAR = 'optiland/optimization/variable/'
KINDS = {
    # name: (file, class, extra kwargs, special surface kind, frame pattern for surface s)
    'radius': ('radius.py', 'RadiusVariable', {}, None, ['lens.surfaces[{s}].geometry.radius']),
    'conic': ('conic.py', 'ConicVariable', {}, None, ['lens.surfaces[{s}].geometry.k']),
    'thickness': ('thickness.py', 'ThicknessVariable', {}, None, ['lens.surfaces[*].geometry.cs.z']),
    'index': ('index.py', 'IndexVariable', {'wavelength': 0.55}, None,
              ['lens.surfaces[{s}].material_post*', 'lens.surfaces[{s1}].material_pre*']),
    'tilt_x': ('tilt.py', 'TiltVariable', {'axis': 'x'}, None, ['lens.surfaces[{s}].geometry.cs.rx']),
    'tilt_y': ('tilt.py', 'TiltVariable', {'axis': 'y'}, None, ['lens.surfaces[{s}].geometry.cs.ry']),
    'decenter_x': ('decenter.py', 'DecenterVariable', {'axis': 'x'}, None, ['lens.surfaces[{s}].geometry.cs.x']),
    'decenter_y': ('decenter.py', 'DecenterVariable', {'axis': 'y'}, None, ['lens.surfaces[{s}].geometry.cs.y']),
    'asphere_coeff': ('asphere_coeff.py', 'AsphereCoeffVariable', {'coeff_number': 1}, 'even_asphere',
                      ['lens.surfaces[{s}].geometry.c[1]']),
    'polynomial_coeff': ('polynomial_coeff.py', 'PolynomialCoeffVariable', {'coeff_index': (1, 0)}, 'polynomial',
                         ['lens.surfaces[{s}].geometry.c']),
    'chebyshev_coeff': ('chebyshev_coeff.py', 'ChebyshevCoeffVariable', {'coeff_index': (0, 1)}, 'chebyshev',
                        ['lens.surfaces[{s}].geometry.c']),
}


def type_name(kind):
    return kind.split('_')[0] if kind.startswith(('tilt', 'decenter')) else kind


def make_variable(c, lens, kind, s, scaling, **bounds):
    Variable = c.mod('optiland.optimization.variable.variable').Variable
    f, cls, kw, special, frame = KINDS[kind]
    return Variable(lens, type_name(kind), apply_scaling=scaling, surface_number=s, **kw, **bounds)


def register(prefix, props, n=4, s=2):
    for kind in KINDS:
        for scaling in (True, False):
            _one(prefix, props, kind, scaling, n, s)
    # the object distance of a finite-conjugate lens (gap 0) is a thickness handle like any other
    for scaling in (True, False):
        _one(prefix, props, 'thickness', scaling, n, 0, tag='.object_gap')
        _shared_medium(prefix, props, scaling)


def _shared_medium(prefix, props, scaling):
    @contract('%s.var.index.shared_medium_object.%s' % (prefix, 'scaled' if scaling else 'raw'),
              [VAR + 'index.py:IndexVariable.get_value', VAR + 'index.py:IndexVariable.update_value', VAR + 'variable.py:Variable.update',
               'optiland/optic.py:Optic.set_index'], props)
    def shared(c):
        """two elements declared with one and the same material object (public API: add_surface(material=instance)): their two index
        handles are independent -- writing one leaves the other at the value last written to it"""
        Optic = c.mod('optiland.optic').Optic
        IdealMaterial = c.mod('optiland.materials').IdealMaterial
        glass = IdealMaterial(n=c.real('n_glass', 1.3, 1.9, positive=True), k=0)
        o = Optic()
        o.add_surface(index=0, thickness=c.np.inf)
        o.add_surface(index=1, radius=40.0, thickness=4.0, material=glass, is_stop=True)
        o.add_surface(index=2, radius=-60.0, thickness=3.0)
        o.add_surface(index=3, radius=35.0, thickness=4.0, material=glass)
        o.add_surface(index=4, radius=-80.0, thickness=50.0)
        o.add_surface(index=5)
        o.add_wavelength(0.55, is_primary=True)
        Variable = c.mod('optiland.optimization.variable.variable').Variable
        v1 = Variable(o, 'index', apply_scaling=scaling, surface_number=1, wavelength=0.55)
        v2 = Variable(o, 'index', apply_scaling=scaling, surface_number=3, wavelength=0.55)
        x1, x2 = c.real('x1', 0.2, 3.0, positive=True), c.real('x2', 0.2, 3.0, positive=True)
        v1.update(x1)
        v2.update(x2)
        c.ensure_eq(prefix + '.var.index_handles_on_one_material_object_are_independent', c.val(v1.value), x1)
        c.ensure_eq(prefix + '.var.index_handles_on_one_material_object_are_independent', c.val(v2.value), x2)
        n_after = [c.val(o.surface_group.surfaces[k].material_post.n(0.55)) for k in (1, 3)]
        n_front = [c.val(o.surface_group.surfaces[k].material_pre.n(0.55)) for k in (2, 4)]
        for a, b in zip(n_after, n_front):
            c.ensure_eq(prefix + '.var.index_written_is_the_medium_in_front_of_the_next_surface', a, b)
    return shared


def _one(prefix, props, kind, scaling, n, s, tag=''):
    f, cls, kw, special, frame = KINDS[kind]

    @contract('%s.var.%s%s.%s' % (prefix, kind, tag, 'scaled' if scaling else 'raw'),
              [VAR + f + ':' + cls + '.get_value', VAR + f + ':' + cls + '.update_value',
               VAR + 'variable.py:Variable.update', VAR + 'variable.py:Variable.value'], props)
    def var(c):
        lens, v = arbitrary_lens(c, n, stop=1, tilts=True, special=({s: special} if special else None))
        lens.add_wavelength(0.55, is_primary=True)
        sg = lens.surface_group
        var = make_variable(c, lens, kind, s, scaling)
        x = c.real('x', 0.2, 3.0, positive=True) if kind in ('index', 'radius') else c.real('x', -2.0, 2.0)
        if kind == 'radius' and scaling:
            c.require(x != -1)
        v0 = c.val(var.value)
        before = c.snapshot(lens=sg)
        # GetPut: writing back the value just read changes nothing (value level)
        var.update(v0)
        pats = [p.format(s=s, s1=s + 1) for p in frame]
        c.ensure_frame(prefix + '.var.getput', before, c.snapshot(lens=sg),
                       [p for p in pats if 'material' in p])
        c.ensure_eq(prefix + '.var.getput_value', c.val(var.value), v0)
        # PutGet
        var.update(x)
        c.ensure_eq(prefix + '.var.putget', c.val(var.value), x)
        c.ensure_frame(prefix + '.var.frame', before, c.snapshot(lens=sg), pats)
        # a second variable of another kind on another surface is not disturbed
        other = make_variable(c, lens, 'conic' if kind != 'conic' else 'radius', 1, scaling)
        o0 = c.val(other.value)
        var.update(v0)
        c.ensure_eq(prefix + '.var.mutual_frame', c.val(other.value), o0)
        # reset(): back to the value at construction
        var.update(x)
        var.reset()
        c.ensure_eq(prefix + '.var.reset', c.val(var.value), v0)
    return var
