"""C20 -- Zemax import reproduces the prescription written in the file."""
import math
import os
import random
import tempfile
import time

import numpy as np

from pyvc.vc import contract
from pyvc import twin
from .common import *  # noqa

PROPERTY = 'C20'
K_QUICK = 12
K_THOROUGH = 120
ZH = 'optiland/fileio/zemax_handler.py'
CV = 'optiland/fileio/converters.py'
ASSUMPTIONS = ['the file-reading loop (keyword dispatch over a text of unknown length, codecs) is string / I-O code: decided by '
               'generated well-formed .zmx texts (bounded), the token readers and the converter are under symbolic contracts']


def _reader(c):
    """a ZemaxFileReader that has read nothing yet (the constructor opens a file)"""
    ZHm = c.mod('optiland.fileio.zemax_handler')
    r = object.__new__(ZHm.ZemaxFileReader)
    r.data = {'aperture': {}, 'fields': {}, 'wavelengths': {'data': []}, 'surfaces': {}}
    r._current_surf_data = {}
    r._current_surf = -1
    return r


@contract('C20.tokens.surface', [ZH + ':ZemaxFileReader._read_radius', ZH + ':ZemaxFileReader._read_thickness',
                                 ZH + ':ZemaxFileReader._read_conic', ZH + ':ZemaxFileReader._read_surface_parameter',
                                 ZH + ':ZemaxFileReader._read_surface', ZH + ':ZemaxFileReader._read_stop',
                                 ZH + ':ZemaxFileReader._read_surf_type'], ['C20'], max_paths=16)
def tokens_surface(c):
    r = _reader(c)
    curv = c.real('curvature', -0.2, 0.2, nonzero=True)
    t = c.real('thickness', -20, 50)
    k = c.real('conic', -3, 2)
    p = c.real('parm', -1e-3, 1e-3)
    r._read_surface(['SURF', '0'])
    c.ensure('C20.tokens.surface_defaults', r._current_surf_data == {'type': 'standard', 'is_stop': False, 'conic': 0.0, 'material': 'air'}
             and r._current_surf == 0 and r.data['surfaces'] == {})
    r._read_radius(['CURV', curv, '0', '0', '0', '0'])
    c.ensure_eq('C20.tokens.radius_is_reciprocal_curvature', r._current_surf_data['radius'], 1 / curv)
    r._read_thickness(['DISZ', t])
    c.ensure_eq('C20.tokens.thickness', r._current_surf_data['thickness'], t)
    r._read_conic(['CONI', k])
    c.ensure_eq('C20.tokens.conic', r._current_surf_data['conic'], k)
    for n in range(1, 9):
        r._read_surface_parameter(['PARM', str(n), p * n])
        c.ensure_eq('C20.tokens.parameter_n_is_coefficient_n_minus_1', r._current_surf_data['param_%d' % (n - 1)], p * n)
    r._read_stop(['STOP'])
    r._read_surf_type(['TYPE', 'EVENASPH'])
    c.ensure('C20.tokens.stop_and_type', r._current_surf_data['is_stop'] is True and r._current_surf_data['type'] == 'even_asphere')
    r._read_surf_type(['TYPE', 'STANDARD'])
    c.ensure('C20.tokens.stop_and_type', r._current_surf_data['type'] == 'standard')
    r._read_surf_type(['TYPE', 'TOROIDAL'])
    c.ensure('C20.tokens.unknown_type_is_unsupported', r._current_surf_data['type'] == 'unsupported')
    before = dict(r._current_surf_data)
    r._read_surface(['SURF', '1'])
    c.ensure('C20.tokens.next_surface_commits_previous', r.data['surfaces'].get(0) == before and r._current_surf == 1)
    # zero curvature and INFINITY
    r._read_radius(['CURV', '0.0'])
    c.ensure('C20.tokens.zero_curvature_is_plane', r._current_surf_data['radius'] == math.inf)
    r._read_thickness(['DISZ', 'INFINITY'])
    c.ensure('C20.tokens.infinity_thickness', r._current_surf_data['thickness'] == math.inf)


@contract('C20.tokens.system', [ZH + ':ZemaxFileReader._read_epd', ZH + ':ZemaxFileReader._read_fno', ZH + ':ZemaxFileReader._read_object_na',
                                ZH + ':ZemaxFileReader._read_config_data', ZH + ':ZemaxFileReader._read_x_fields',
                                ZH + ':ZemaxFileReader._read_y_fields', ZH + ':ZemaxFileReader._read_wavelength',
                                ZH + ':ZemaxFileReader._read_primary_wave', ZH + ':ZemaxFileReader._read_mode'], ['C20'], max_paths=16)
def tokens_system(c):
    v = c.real('value', 0.1, 20, positive=True)
    r = _reader(c)
    r._read_epd(['ENPD', v])
    c.ensure('C20.tokens.aperture_type', list(r.data['aperture']) == ['EPD'])
    c.ensure_eq('C20.tokens.aperture_value', r.data['aperture']['EPD'], v)
    r = _reader(c)
    r._read_fno(['FNUM', v, '0'])
    c.ensure('C20.tokens.aperture_type', list(r.data['aperture']) == ['imageFNO'])
    c.ensure_eq('C20.tokens.aperture_value', r.data['aperture']['imageFNO'], v)
    r = _reader(c)
    r._read_object_na(['OBNA', v, '0'])
    c.ensure('C20.tokens.aperture_type', list(r.data['aperture']) == ['objectNA'])
    c.ensure_eq('C20.tokens.aperture_value', r.data['aperture']['objectNA'], v)
    for ft, name in ((0, 'angle'), (1, 'object_height')):
        for tele in (0, 1):
            r = _reader(c)
            r._read_config_data(['FTYP', str(ft), str(tele), '3', '2', '0', '0', '0'])
            c.ensure('C20.tokens.field_type_and_counts', r.data['fields']['type'] == name and r.data['fields']['num_fields'] == 3
                     and r.data['wavelengths']['num_wavelengths'] == 2 and r.data['fields']['object_space_telecentric'] == bool(tele))
    fx = [c.real('fx%d' % i, -5, 5) for i in range(4)]
    fy = [c.real('fy%d' % i, -20, 20) for i in range(4)]
    r._read_x_fields(['XFLN'] + fx)
    r._read_y_fields(['YFLN'] + fy)
    for i in range(3):
        c.ensure_eq('C20.tokens.field_values', r.data['fields']['x'][i], fx[i])
        c.ensure_eq('C20.tokens.field_values', r.data['fields']['y'][i], fy[i])
    c.ensure('C20.tokens.only_declared_number_of_fields', len(r.data['fields']['x']) == 3 and len(r.data['fields']['y']) == 3)
    w = [c.real('w%d' % i, 0.3, 2, positive=True) for i in range(3)]
    for i in range(3):
        r._read_wavelength(['WAVM', str(i + 1), w[i], '1'])
    c.ensure('C20.tokens.only_declared_number_of_wavelengths', len(r.data['wavelengths']['data']) == 2)
    for i in range(2):
        c.ensure_eq('C20.tokens.wavelength_values', r.data['wavelengths']['data'][i], w[i])
    for n in (1, 2, 7):
        r._read_primary_wave(['PWAV', str(n)])
        c.ensure('C20.tokens.primary_wave_is_zero_based', r.data['wavelengths']['primary_index'] == n - 1)
    r._read_mode(['MODE', 'SEQ'])
    with c.raises('C20.tokens.non_sequential_rejected', ValueError):
        r._read_mode(['MODE', 'NSC'])


def _converter_contract(ap, ftype):
    @contract('C20.converter.%s.%s' % (ap, ftype), [CV + ':ZemaxToOpticConverter.convert', CV + ':ZemaxToOpticConverter._configure_surfaces',
                                                   CV + ':ZemaxToOpticConverter._configure_surface',
                                                   CV + ':ZemaxToOpticConverter._configure_surface_coefficients',
                                                   CV + ':ZemaxToOpticConverter._configure_aperture', CV + ':ZemaxToOpticConverter._configure_fields',
                                                   CV + ':ZemaxToOpticConverter._configure_wavelengths'], ['C20'], max_paths=32)
    def conv(c):
        CVm = c.mod('optiland.fileio.converters')
        mats = c.mod('optiland.materials')
        glass = mats.IdealMaterial(c.real('nglass', 1.4, 1.9, positive=True), 0.0)
        R = [math.inf, c.real('R1', 20, 90, positive=True), c.real('R2', -90, -20), c.real('R3', 20, 90, positive=True)]
        T = [math.inf if ftype == 'angle' else c.real('T0', 20, 100, positive=True), c.real('T1', 1, 9, positive=True),
             c.real('T2', 1, 9, positive=True), c.real('T3', 10, 60, positive=True)]
        K = [0.0, c.real('K1', -2, 1), c.real('K2', -2, 1), 0.0]
        co = [c.real('A%d' % i, -1e-5, 1e-5) for i in range(8)]
        surfaces = {}
        for i in range(4):
            surfaces[i] = {'type': 'standard', 'is_stop': i == 2, 'conic': K[i], 'material': glass if i == 1 else 'air',
                           'radius': R[i], 'thickness': T[i]}
        surfaces[3]['type'] = 'even_asphere'
        # the reader hands over the image surface block too (since fix e253808; before it, the last SURF block of a file was dropped
        # and the converter appended a default plane): its radius and conic are part of the written prescription
        R.append(c.real('R_image', -300, -50))
        K.append(c.real('K_image', -2, 1))
        surfaces[4] = {'type': 'standard', 'is_stop': False, 'conic': K[4], 'material': 'air', 'radius': R[4], 'thickness': 0.0}
        for i in range(8):
            surfaces[3]['param_%d' % i] = co[i]
        apv = c.real('ap_value', 0.05, 0.3, positive=True) if ap == 'objectNA' else c.real('ap_value', 1, 8, positive=True)
        fy = [0.0, c.real('fy1', 1, 9, positive=True), c.real('fy2', 10, 20, positive=True)]
        w = [c.real('w0', 0.4, 0.5, positive=True), c.real('w1', 0.5, 0.6, positive=True), c.real('w2', 0.6, 0.7, positive=True)]
        pidx = 1
        data = {'aperture': {ap: apv}, 'fields': {'type': ftype, 'x': (0.0, 0.0, 0.0), 'y': tuple(fy)},
                'wavelengths': {'data': list(w), 'primary_index': pidx}, 'surfaces': surfaces}
        lens = CVm.ZemaxToOpticConverter(data).convert()
        sg = lens.surface_group
        c.ensure('C20.converter.surface_count', sg.num_surfaces == 5)
        for i in range(4):
            c.ensure_eq('C20.converter.radius', c.val(sg.radii[i]), R[i])
            if i >= 1:
                c.ensure_eq('C20.converter.thickness', c.val(sg.get_thickness(i)), T[i])
                c.ensure_eq('C20.converter.conic', c.val(sg.conic[i]), K[i])
        c.ensure_eq('C20.converter.image_surface_radius_and_conic', c.val(sg.radii[4]), R[4])
        c.ensure_eq('C20.converter.image_surface_radius_and_conic', c.val(sg.conic[4]), K[4])
        if ftype != 'angle':
            c.ensure_eq('C20.converter.thickness', c.val(sg.get_thickness(0)), T[0])
        else:
            c.ensure('C20.converter.object_at_infinity', lens.object_surface.is_infinite)
        got_c = list(sg.surfaces[3].geometry.c)
        c.ensure('C20.converter.every_written_aspheric_coefficient_is_imported', len(got_c) == 8)
        for i in range(min(8, len(got_c))):
            c.ensure_eq('C20.converter.aspheric_coefficients', got_c[i], co[i])
        c.ensure('C20.converter.media', c.same(sg.surfaces[1].material_post, glass) and c.same(sg.surfaces[2].material_pre, glass))
        c.ensure('C20.converter.stop_surface', sg.stop_index == 2)
        c.ensure('C20.converter.aperture', lens.aperture.ap_type == ap)
        c.ensure_eq('C20.converter.aperture_value', lens.aperture.value, apv)
        c.ensure('C20.converter.field_type', lens.field_type == ftype and lens.fields.num_fields == 3)
        for i in range(3):
            c.ensure_eq('C20.converter.field_values', lens.fields.fields[i].y, fy[i])
            c.ensure_eq('C20.converter.wavelength_values', lens.wavelengths.wavelengths[i].value, w[i])
        c.ensure('C20.converter.primary_wavelength', lens.wavelengths.primary_index == pidx)
    return conv


for _ap in ('EPD', 'imageFNO', 'objectNA'):
    for _ft in ('angle', 'object_height'):
        if _ap == 'objectNA' and _ft == 'angle':
            continue
        _converter_contract(_ap, _ft)


# ---- whole files (bounded): generated well-formed .zmx texts ---------------------------------------------------
CATALOG_GLASSES = ['N-BK7', 'N-SF11', 'N-SK16', 'N-SF2', 'F2', 'N-LAK9', 'SF6']


def make_prescription(rng):
    n = rng.randint(1, 8) if rng.random() < 0.8 else rng.randint(9, 30)
    finite = rng.random() < 0.4
    surfs = []
    stop = rng.randint(1, n) if n >= 1 else 1
    model_glasses = [(round(rng.uniform(1.45, 1.85), 6), round(rng.uniform(25, 70), 4)) for _ in range(3)]
    for i in range(n + 2):        # object, n surfaces, image
        s = {'type': 'STANDARD', 'curv': 0.0, 'thick': 0.0, 'conic': None, 'glass': None, 'stop': False, 'parm': None}
        if i == 0:
            s['thick'] = rng.uniform(30, 500) if finite else math.inf
        elif i <= n:
            s['curv'] = rng.choice([0.0, rng.uniform(-0.08, 0.08), rng.uniform(-0.08, 0.08)])
            s['thick'] = rng.uniform(0.5, 20)
            s['stop'] = (i == stop)
            if rng.random() < 0.5:
                s['conic'] = rng.uniform(-2, 1)
            if rng.random() < 0.5:
                if rng.random() < 0.5:
                    s['glass'] = ('cat', rng.choice(CATALOG_GLASSES))
                else:
                    s['glass'] = ('model', rng.choice(model_glasses))
            if rng.random() < 0.25:
                s['type'] = 'EVENASPH'
                s['parm'] = [rng.uniform(-1e-5, 1e-5) * 10 ** (-2 * k) for k in range(8)]
        surfs.append(s)
    # the image surface block carries a prescription of its own (curved image surfaces)
    if rng.random() < 0.5:
        surfs[-1]['curv'] = rng.uniform(-0.02, 0.02)
        if rng.random() < 0.5:
            surfs[-1]['conic'] = rng.uniform(-2, 1)
    ap = rng.choice(['ENPD', 'FNUM', 'OBNA'] if finite else ['ENPD', 'FNUM'])
    apv = {'ENPD': rng.uniform(1, 20), 'FNUM': rng.uniform(1.5, 12), 'OBNA': rng.uniform(0.02, 0.3)}[ap]
    ftype = rng.choice([0, 1]) if finite else 0
    nf = rng.randint(1, 5)
    fy = sorted(set([0.0] + [round(rng.uniform(0.5, 25), 6) for _ in range(nf - 1)]))
    nw = rng.randint(1, 12)
    wl = [round(rng.uniform(0.4, 1.6), 6) for _ in range(nw)]
    pw = rng.randint(1, nw)
    # field points off the meridional plane as well: several points may share a y value (x-only field lists, x/y grids)
    fx = [0.0] * len(fy)
    if rng.random() < 0.5:
        kind = rng.choice(['x_only', 'grid', 'free'])
        if kind == 'x_only':
            fx, fy = list(fy), [0.0] * len(fy)
        elif kind == 'grid':
            ys = fy[:2]
            xs = sorted(set([0.0, round(rng.uniform(0.5, 20), 6), -round(rng.uniform(0.5, 20), 6)]))
            pts = [(x_, y_) for y_ in ys for x_ in xs][:12]
            fx, fy = [q[0] for q in pts], [q[1] for q in pts]
        else:
            fx = [round(rng.uniform(-20, 20), 6) for _ in fy]
    return {'surfs': surfs, 'ap': ap, 'apv': apv, 'ftype': ftype, 'fx': fx, 'fy': fy, 'wl': wl, 'pw': pw, 'finite': finite}


def render(p, mode='SEQ'):
    L = ['MODE %s' % mode, 'UNIT MM X W X CM MR CPMM', '%s %r%s' % (p['ap'], p['apv'], ' 0' if p['ap'] != 'ENPD' else ''), 'GCAT SCHOTT',
         'FTYP %d 0 %d %d 0 0 0' % (p['ftype'], len(p['fy']), len(p['wl'])),
         'XFLN ' + ' '.join(repr(v) for v in p.get('fx', [0.0] * len(p['fy']))), 'YFLN ' + ' '.join(repr(v) for v in p['fy']), 'PWAV %d' % p['pw']]
    for i, w in enumerate(p['wl']):
        L.append('WAVM %d %r 1' % (i + 1, w))
    for i, s in enumerate(p['surfs']):
        L.append('SURF %d' % i)
        if s['stop']:
            L.append('  STOP')
        L.append('  TYPE %s' % s['type'])
        L.append('  CURV %r 0 0 0 0' % s['curv'])
        if s['parm']:
            for k, v in enumerate(s['parm']):
                L.append('  PARM %d %r' % (k + 1, v))
        L.append('  DISZ %s' % ('INFINITY' if s['thick'] == math.inf else repr(s['thick'])))
        if s['glass']:
            if s['glass'][0] == 'cat':
                L.append('  GLAS %s 1 0 1.5 60.0 0 0 0 0 0 0' % s['glass'][1])
            else:
                L.append('  GLAS ___BLANK 1 0 %r %r 0 0 0 0 0 0' % s['glass'][1])
        if s['conic'] is not None:
            L.append('  CONI %r' % s['conic'])
    return '\n'.join(L) + '\n'


def check_lens(lens, p, note):
    sg = lens.surface_group
    n = len(p['surfs'])
    note('C20.file.surface_count', sg.num_surfaces == n, 'got %d want %d' % (sg.num_surfaces, n))
    if sg.num_surfaces != n:
        return
    for i, s in enumerate(p['surfs'][:-1]):
        geo = sg.surfaces[i].geometry
        want_R = math.inf if s['curv'] == 0 else 1 / s['curv']
        note('C20.file.radius', float(np.ravel(geo.radius)[0]) == want_R, 'surface %d: %r vs %r' % (i, geo.radius, want_R))
        th = float(np.ravel(sg.get_thickness(i))[0])
        ok = (th == s['thick']) or (math.isfinite(s['thick']) and abs(th - s['thick']) <= 1e-9 * (1 + abs(s['thick'])))
        note('C20.file.thickness', ok, 'surface %d: %r vs %r' % (i, th, s['thick']))
        if i >= 1:
            if s['curv'] != 0 or s['type'] == 'EVENASPH':      # a conic constant on a flat STANDARD surface has no meaning
                note('C20.file.conic', float(getattr(geo, 'k', 0.0)) == (s['conic'] or 0.0), 'surface %d' % i)
            note('C20.file.stop', bool(sg.surfaces[i].is_stop) == bool(s['stop']), 'surface %d' % i)
            if s['parm']:
                note('C20.file.aspheric_coefficients', list(map(float, geo.c)) == [float(v) for v in s['parm']], 'surface %d' % i)
            m = sg.surfaces[i].material_post
            if s['glass'] is None:
                note('C20.file.media', type(m).__name__ == 'IdealMaterial' and m.n(0.55) == 1.0, 'surface %d air' % i)
            elif s['glass'][0] == 'cat':
                note('C20.file.media', type(m).__name__ == 'Material' and m.name == s['glass'][1], 'surface %d: %r' % (i, getattr(m, 'name', m)))
            else:
                nd, vd = s['glass'][1]
                note('C20.file.media', type(m).__name__ == 'AbbeMaterial' and m.index == nd and m.abbe == vd,
                     'surface %d: model glass (%r, %r) vs file (%r, %r)' % (i, getattr(m, 'index', None), getattr(m, 'abbe', None), nd, vd))
    img, gi = p['surfs'][-1], sg.surfaces[-1].geometry
    want_Ri = math.inf if img['curv'] == 0 else 1 / img['curv']
    note('C20.file.image_surface_radius_and_conic', float(np.ravel(gi.radius)[0]) == want_Ri and
         (img['curv'] == 0 or float(getattr(gi, 'k', 0.0)) == (img['conic'] or 0.0)), 'image surface: radius %r conic %r vs file %r %r'
         % (gi.radius, getattr(gi, 'k', None), want_Ri, img['conic']))
    ap_name = {'ENPD': 'EPD', 'FNUM': 'imageFNO', 'OBNA': 'objectNA'}[p['ap']]
    note('C20.file.aperture', lens.aperture.ap_type == ap_name and lens.aperture.value == p['apv'], '%s %r' % (lens.aperture.ap_type, lens.aperture.value))
    note('C20.file.field_type', lens.field_type == ('angle' if p['ftype'] == 0 else 'object_height'), str(lens.field_type))
    note('C20.file.field_values', sorted(float(f.y) for f in lens.fields.fields) == sorted(p['fy']), str([f.y for f in lens.fields.fields]))
    note('C20.file.field_points_are_the_xy_pairs_of_the_file', sorted((float(f.x), float(f.y)) for f in lens.fields.fields) ==
         sorted(zip(p.get('fx', [0.0] * len(p['fy'])), p['fy'])), str([(f.x, f.y) for f in lens.fields.fields]))
    note('C20.file.wavelengths', [float(w.value) for w in lens.wavelengths.wavelengths] == p['wl'], '')
    note('C20.file.primary_wavelength', lens.wavelengths.primary_index == p['pw'] - 1, str(lens.wavelengths.primary_index))


def _files(ct, tier, seed):
    t0 = time.time()
    zh = twin.real('optiland.fileio.zemax_handler')
    rng = random.Random(seed * 31 + 7)
    clauses = {}
    fails = []
    cases = 0
    import io
    import contextlib

    def mknote(inputs):
        def note(cid, ok, detail):
            c_ = clauses.setdefault(cid, {'paths': 0, 'proved': 0, 'backends': {}, 'failed': [], 'seconds': 0.0, 'bounded': True})
            c_['paths'] += 1
            if ok:
                c_['proved'] += 1
                c_['backends']['runtime'] = c_['backends'].get('runtime', 0) + 1
            else:
                fails.append({'clause': cid, 'draws': inputs, 'note': detail})
        return note
    nfiles = 30 if tier == 'quick' else 400
    tmp = tempfile.mkdtemp(prefix='optiland-verif-zmx-')
    try:
        for i in range(nfiles):
            p = make_prescription(rng)
            txt = render(p)
            for enc in ('utf-8', 'utf-16'):
                fn = os.path.join(tmp, 'f%d_%s.zmx' % (i, enc.replace('-', '')))
                with open(fn, 'w', encoding=enc) as f:
                    f.write(txt)
                inputs = {'seed': seed, 'file_index': i, 'encoding': enc, 'text': txt[:3000]}
                note = mknote(inputs)
                cases += 1
                try:
                    with contextlib.redirect_stdout(io.StringIO()):
                        lens = zh.load_zemax_file(fn)
                except Exception as ex:
                    note('C20.file.loads', False, '%s: %s' % (type(ex).__name__, ex))
                    continue
                note('C20.file.loads', True, '')
                check_lens(lens, p, note)
                # non-sequential files are rejected, in either encoding
                fn2 = fn + '.nsc'
                with open(fn2, 'w', encoding=enc) as f:
                    f.write(render(p, mode='NSC'))
                try:
                    with contextlib.redirect_stdout(io.StringIO()):
                        zh.load_zemax_file(fn2)
                    note('C20.file.non_sequential_rejected', False, 'MODE NSC accepted (%s)' % enc)
                except ValueError:
                    note('C20.file.non_sequential_rejected', True, '')
                except Exception as ex:
                    note('C20.file.non_sequential_rejected', False, '%s: %s' % (type(ex).__name__, ex))
    finally:
        import shutil
        shutil.rmtree(tmp, ignore_errors=True)
    return {'contract': ct.name, 'functions': ct.functions, 'props': ct.props,
            'symbolic': {'clauses': clauses, 'paths': 0, 'errors': [], 'solver_s': 0.0, 'samples': [], 'wd_assumed': [], 'assumed': []},
            'numeric': {'accepted': cases, 'rejected': 0, 'failures': fails[:10], 'concolic_agree': 0, 'encoder_mismatches': [],
                        'samples': [{'files': nfiles, 'encodings': ['utf-8', 'utf-16']}]}, 'wall_s': time.time() - t0}


contract('C20.files', [ZH + ':ZemaxFileReader._read_file', ZH + ':ZemaxFileReader._read_glass', ZH + ':load_zemax_file',
                       ZH + ':ZemaxFileReader.generate_lens'], ['C20'], custom=_files)(lambda c: None)


# concrete inputs found by the defect-hunting sub-agents (bounded replay, see contracts/hunt.py)
from . import hunt as _hunt  # noqa: E402
_hunt.register('C20')
