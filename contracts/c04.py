"""C04 -- paraxial properties equal matrix optics."""
import math
from pyvc.vc import contract
from .common import *  # noqa
from .lens import arbitrary_lens, SG, zs

PROPERTY = 'C04'
K_QUICK = 12
K_THOROUGH = 200
TIMEOUT_QUICK = 400
PX = 'optiland/paraxial.py'
SS = 'optiland/surfaces/standard_surface.py'
PRX = 'optiland/rays/paraxial_rays.py'


# ---- spec: ray-transfer (ABCD) recurrences in the signed-index convention --------------------
def spec_trace(view, y, u, z, first=1, last=None, mirrors=()):
    """independent paraxial trace: transfer to each vertex, then refraction with signed indices
    (a mirror reverses the sign of the index).  Returns lists of (y, u) after each surface."""
    n = len(view['z'])
    last = n - 1 if last is None else last
    sgn = 1
    out = []
    nprev = view['n'][first - 1] * sgn
    for k in range(first, last + 1):
        t = view['z'][k] - z
        y = y + t * u
        z = view['z'][k]
        R = view['R'][k]
        if k in mirrors:
            ncur = -nprev
        else:
            ncur = view['n'][k] * (1 if nprev * 1 == nprev and _pos(nprev) else -1)
        phi = 0 if R == math.inf else (ncur - nprev) / R
        u = (nprev * u - y * phi) / ncur
        nprev = ncur
        out.append((y, u))
    return out


def _pos(x):
    # sign bookkeeping of the signed index is concrete: indices are positive reals, the sign is a python int
    return not getattr(x, '_neg', False)


def abcd(view, first, last, include_last_refraction=True):
    """system matrix on (y, n u) from the vertex plane of `first` (before its refraction) to the vertex plane
    of `last` (after its refraction if include_last_refraction); refracting surfaces only"""
    A, B, C, D = 1, 0, 0, 1
    for k in range(first, last + 1):
        if k > first:
            t = (view['z'][k] - view['z'][k - 1]) / view['n'][k - 1]
            A, B, C, D = A + t * C, B + t * D, C, D
        if k < last or include_last_refraction:
            R = view['R'][k]
            phi = 0 if R == math.inf else (view['n'][k] - view['n'][k - 1]) / R
            A, B, C, D = A, B, C - phi * A, D - phi * B
    return A, B, C, D


# ---- single surface step ------------------------------------------------------------------------
def _step_contract(kind):
    @contract('C04.Surface._trace_paraxial.' + kind, [SS + ':Surface._trace_paraxial', PRX + ':ParaxialRays.propagate',
                                                      PRX + ':ParaxialRays.__init__', SS + ':Surface._record'], ['C04', 'C05'])
    def step(c):
        surfs = c.mod('optiland.surfaces')
        mats = c.mod('optiland.materials')
        geos = c.mod('optiland.geometries')
        CoordinateSystem = c.mod('optiland.coordinate_system').CoordinateSystem
        PRm = c.mod('optiland.rays.paraxial_rays')
        zs_ = c.real('z_surface', -5, 30)
        n1 = c.real('n1', 1.0, 2.5, positive=True)
        n2 = c.real('n2', 1.0, 2.5, positive=True)
        cs = CoordinateSystem(z=zs_)
        if kind in ('plane', 'plane_mirror'):
            geo, R = geos.Plane(cs), math.inf
        elif kind in ('flat_conic', 'flat_conic_mirror'):
            R = math.inf                                     # a StandardGeometry of infinite radius is a plane too
            geo = geos.StandardGeometry(cs, math.inf, c.real('k', -2, 1))
        else:
            R = c.real('R', -80, 80, nonzero=True)
            geo = geos.StandardGeometry(cs, R, c.real('k', -2, 1))
        surf = surfs.Surface(geo, mats.IdealMaterial(n1, 0.0), mats.IdealMaterial(n2, 0.0), is_reflective=kind.endswith('mirror'))
        y0, u0, z0 = c.real('y0', -3, 3), c.real('u0', -0.3, 0.3), c.real('z0', -10, 10)
        rays = PRm.ParaxialRays(y0, u0, z0, 0.55)
        surf.trace(rays)
        t = zs_ - z0
        ya = y0 + t * u0                                   # transfer [[1, t/n],[0,1]] on (y, n u)
        if kind.endswith('mirror'):
            n2s = -n1                                        # index sign reversal
        else:
            n2s = n2
        phi = 0 if R == math.inf else (n2s - n1) / R
        ub = (n1 * u0 - ya * phi) / n2s                    # refraction [[1,0],[-phi,1]]
        c.ensure_eq('C04.step.height', c.val(surf.y), ya)
        c.ensure_eq('C04.step.slope', c.val(surf.u), ub)
        c.ensure_eq('C04.step.rays_carry_state', c.val(rays.y), ya)
        c.ensure_eq('C04.step.rays_carry_state', c.val(rays.u), ub)
        c.ensure_eq('C04.step.rays_left_at_vertex', c.val(rays.z), zs_)
        # the record is a copy: later in-place changes of the bundle (the next surfaces) do not reach back into it
        rec = (c.val(surf.y), c.val(surf.u))
        for a in ('y', 'u', 'z'):
            arr_ = getattr(rays, a)
            arr_ += 1
            arr_ *= 3
        c.ensure_eq('C04.step.record_is_untouched_by_later_in_place_changes_of_the_bundle', c.val(surf.y), rec[0])
        c.ensure_eq('C04.step.record_is_untouched_by_later_in_place_changes_of_the_bundle', c.val(surf.u), rec[1])
    return step


for _k in ('sphere', 'plane', 'mirror', 'plane_mirror', 'flat_conic', 'flat_conic_mirror'):
    _step_contract(_k)


# ---- whole-system quantities on symbolic lenses ---------------------------------------------------
def _setup(c, n, stop, finite, ap='EPD', field='angle', negative=False):
    lens, v = arbitrary_lens(c, n, stop=stop, finite_object=finite)
    lens.add_wavelength(0.55, is_primary=True)
    apv = c.real('ap_value', 0.05, 0.3, positive=True) if ap == 'objectNA' else c.real('ap_value', 0.5, 8.0, positive=True)
    lens.set_aperture(ap, apv)
    lens.set_field_type(field)
    fy = c.real('max_field', 1.0, 20.0, positive=True)
    lens.add_field(y=0.0)
    # negative: the field of largest magnitude is negative (the unit field Hy = 1 is still +fy: fields are normalised by magnitude)
    lens.add_field(y=-fy if negative else fy)
    if negative:
        lens.add_field(y=fy * 0.4)
    return lens, v, apv, fy


def _system_contract(n, stop, finite):
    tag = 'n%d.s%d.%s' % (n, stop, 'fin' if finite else 'inf')

    @contract('C04.system.' + tag, [PX + ':Paraxial.f2', PX + ':Paraxial.F2', PX + ':Paraxial.P2', PX + ':Paraxial.f1',
                                    PX + ':Paraxial.F1', PX + ':Paraxial.P1', PX + ':Paraxial.N1', PX + ':Paraxial.N2',
                                    PX + ':Paraxial.EPL', PX + ':Paraxial.XPL', PX + ':Paraxial._trace_generic',
                                    SG + ':SurfaceGroup.trace', SG + ':SurfaceGroup.inverted', SG + ':SurfaceGroup.y',
                                    SG + ':SurfaceGroup.u'], ['C04'], max_paths=64, groebner_s=40)
    def sysq(c):
        lens, v, apv, fy = _setup(c, n, stop, finite)
        px = lens.paraxial
        A, B, C, D = abcd(v, 1, n - 1)
        n0, nl = v['n'][0], v['n'][n - 1]
        c.require(C != 0)                                 # focal system
        # the library's convention: f2 = -n'/C ... but see clause sign below
        c.ensure_eq('C04.f2.magnitude', c.val(px.f2()) ** 2, (nl / C) ** 2)
        c.ensure_eq('C04.f2.signed', c.val(px.f2()), -nl / C)
        c.ensure_eq('C04.F2', c.val(px.F2()), -nl * A / C)
        c.ensure_eq('C04.f1', c.val(px.f1()), n0 / C)
        c.ensure_eq('C04.F1', c.val(px.F1()), n0 * D / C)
        # pupils: image of the stop centre through the front / rear group
        if stop == 1:
            c.ensure_eq('C04.EPL', c.val(px.EPL()), 0)
        else:
            Af, Bf, Cf, Df = abcd(v, 1, stop, include_last_refraction=False)
            c.require(Af != 0)
            c.ensure_eq('C04.EPL', c.val(px.EPL()), n0 * Bf / Af)
        # rear group: from the stop (after its refraction) to the last surface (with its refraction) -- the same matrix statement for
        # every stop position, the stop on the last surface in front of the image included (the library used to return the stop's
        # vertex distance there, ignoring an index step at the last surface: fixed in /repo, see known_findings.json -> fixed)
        Ar, Br, Cr, Dr = 1, 0, 0, 1
        for k in range(stop + 1, n):
            t = (v['z'][k] - v['z'][k - 1]) / v['n'][k - 1]
            Ar, Br = Ar + t * Cr, Br + t * Dr
            phi = (v['n'][k] - v['n'][k - 1]) / v['R'][k]
            Cr, Dr = Cr - phi * Ar, Dr - phi * Br
        c.require(Dr != 0)
        c.ensure_eq('C04.XPL', c.val(px.XPL()), -nl * Br / Dr)
    return sysq


for (_n, _s, _f) in ((3, 1, False), (4, 1, False), (4, 2, False), (4, 2, True), (5, 2, False), (5, 3, False), (5, 1, True)):
    _system_contract(_n, _s, _f)


def _rays_contract(n, stop, finite, ap, field, negative=False):
    tag = 'n%d.s%d.%s.%s.%s' % (n, stop, 'fin' if finite else 'inf', ap, field) + ('.negative_largest_field' if negative else '')

    @contract('C04.rays.' + tag, [PX + ':Paraxial.marginal_ray', PX + ':Paraxial.chief_ray', PX + ':Paraxial.EPD',
                                  PX + ':Paraxial.FNO', PX + ':Paraxial.XPD', PX + ':Paraxial.magnification',
                                  PX + ':Paraxial.invariant'], ['C04'], max_paths=64, groebner_s=40)
    def rays(c):
        lens, v, apv, fy = _setup(c, n, stop, finite, ap, field, negative)
        px = lens.paraxial
        n0, nl = v['n'][0], v['n'][n - 1]
        A, B, C, D = abcd(v, 1, n - 1)
        c.require(C != 0)
        if stop == 1:
            EPL = 0
        else:
            Af, Bf, Cf, Df = abcd(v, 1, stop, include_last_refraction=False)
            c.require(Af != 0)
            EPL = n0 * Bf / Af
        f2 = c.val(px.f2())
        if ap == 'EPD':
            EPD = apv
        elif ap == 'imageFNO':
            EPD = f2 / apv
        else:
            # object-space numerical aperture n0 sin(theta) of the marginal ray from the axial object point
            c.require(apv < n0)
            EPD = 2 * (EPL - v['z'][0]) * c.val(c.np.tan(c.np.arcsin(c.arr(apv / n0))))
        c.ensure_eq('C04.EPD', c.val(px.EPD()), EPD)
        c.ensure_eq('C04.FNO', c.val(px.FNO()), f2 / EPD)
        # marginal ray = the ABCD image of its launch data
        ya, ua = px.marginal_ray()
        if finite:
            zo = v['z'][0]
            c.require(EPL - zo != 0)
            y_in, u_in, z_in = 0, EPD / (2 * (EPL - zo)), zo
        else:
            y_in, u_in, z_in = EPD / 2, 0, v['z'][1] - 10
        sp_ = spec_trace(v, y_in, u_in, z_in)
        for k in range(1, n):
            c.ensure_eq('C04.marginal_ray.height', c.val(ya[k]), sp_[k - 1][0])
            c.ensure_eq('C04.marginal_ray.slope', c.val(ua[k]), sp_[k - 1][1])
        c.ensure_eq('C04.marginal_ray.launch', c.val(ua[0]), u_in)
        # chief ray: through the stop centre with the requested object-space field
        yb, ub = px.chief_ray()
        c.ensure_eq('C04.chief_ray.through_stop_centre', c.val(yb[stop]), 0)
        if field == 'angle':
            tanf = c.tan(fy * c.pi / 180)
            c.ensure_eq('C04.chief_ray.object_space_slope', c.val(ub[0]), tanf)
        if field == 'object_height':
            # ... or with the requested object height, on the side where the ray generator puts it (C05)
            c.ensure_eq('C04.chief_ray.object_height', c.val(yb[1]) - c.val(ub[0]) * (v['z'][1] - v['z'][0]), fy)
        spb = spec_trace(v, c.val(yb[1]) - 0 * 1, c.val(ub[0]), v['z'][1])
        for k in range(1, n):
            c.ensure_eq('C04.chief_ray.is_abcd_image_of_its_launch', c.val(yb[k]), spb[k - 1][0])
            c.ensure_eq('C04.chief_ray.is_abcd_image_of_its_launch', c.val(ub[k]), spb[k - 1][1])
        # Lagrange invariant: one value at every surface
        H = [v['n'][k] * (c.val(yb[k]) * c.val(ua[k]) - c.val(ya[k]) * c.val(ub[k])) for k in range(1, n)]
        for k in range(1, len(H)):
            c.ensure_eq('C04.lagrange_invariant.same_at_every_surface', H[k], H[0])
        c.ensure_eq('C04.invariant.api', c.val(px.invariant()), H[0])
        if finite:
            c.ensure_eq('C04.magnification', c.val(px.magnification()), n0 * c.val(ua[0]) / (nl * c.val(ua[n - 1])))
        # exit pupil diameter from the marginal ray at the exit pupil plane
        c.ensure_eq('C04.XPD', c.val(px.XPD()), 2 * (c.val(ya[n - 1]) + c.val(ua[n - 1]) * c.val(px.XPL())))
    return rays


for (_n, _s, _f, _a, _fl) in ((4, 1, False, 'EPD', 'angle'), (4, 2, False, 'EPD', 'angle'), (4, 2, False, 'imageFNO', 'angle'),
                              (4, 2, True, 'EPD', 'angle'), (4, 1, True, 'EPD', 'angle'), (5, 2, False, 'EPD', 'angle'),
                              (4, 2, True, 'EPD', 'object_height'), (4, 1, True, 'EPD', 'object_height'),
                              (4, 2, True, 'objectNA', 'object_height'), (4, 1, True, 'objectNA', 'angle')):
    _rays_contract(_n, _s, _f, _a, _fl)
_rays_contract(4, 2, False, 'EPD', 'angle', negative=True)
_rays_contract(4, 2, True, 'EPD', 'object_height', negative=True)


@contract('C04.linearity', [PX + ':Paraxial._trace_generic', SG + ':SurfaceGroup.trace'], ['C04'], max_paths=32)
def linearity(c):
    lens, v = arbitrary_lens(c, 4, stop=1, finite_object=False)
    px = lens.paraxial
    a, b = c.real('alpha', -2, 2), c.real('beta', -2, 2)
    y1, u1, y2, u2 = c.real('y1', -2, 2), c.real('u1', -0.2, 0.2), c.real('y2', -2, 2), c.real('u2', -0.2, 0.2)
    z0 = c.real('z0', -10, 0)
    Y1, U1 = px._trace_generic(y1, u1, z0, 0.55)
    Y2, U2 = px._trace_generic(y2, u2, z0, 0.55)
    Y3, U3 = px._trace_generic(a * y1 + b * y2, a * u1 + b * u2, z0, 0.55)
    for k in range(4):
        c.ensure_eq('C04.linearity.height', c.val(Y3[k]), a * c.val(Y1[k]) + b * c.val(Y2[k]))
        c.ensure_eq('C04.linearity.slope', c.val(U3[k]), a * c.val(U1[k]) + b * c.val(U2[k]))


# ---- no stale state: a query after an edit sees the edited prescription ---------------------------
def _requery_contract(edit):
    @contract('C04.requery_after.' + edit, [PX + ':Paraxial.f1', PX + ':Paraxial.f2', PX + ':Paraxial.EPL', PX + ':Paraxial.F1',
                                            PX + ':Paraxial.chief_ray', SG + ':SurfaceGroup.inverted'], ['C04', 'C13'],
              max_paths=64, groebner_s=40)
    def rq(c):
        n, stop = 4, 2
        lens, v, apv, fy = _setup(c, n, stop, False)
        px = lens.paraxial
        # first round of queries (results discarded: they must not be remembered)
        px.f1(), px.f2(), px.EPL(), px.F1(), px.XPL(), px.chief_ray(), px.marginal_ray()
        val = c.real('new_value', 1.1, 2.4, positive=True)
        if edit == 'set_index':
            lens.set_index(val, 1)
            v['n'][1] = val
        elif edit == 'set_radius':
            lens.set_radius(val * 20, 2)
            v['R'][2] = val * 20
        elif edit == 'set_thickness':
            lens.set_thickness(val, 1)
            shift = val - (v['z'][2] - v['z'][1])
            v['z'][2], v['z'][3] = v['z'][2] + shift, v['z'][3] + shift
        elif edit == 'move_stop':
            lens.surface_group.surfaces[2].is_stop = False
            lens.surface_group.surfaces[1].is_stop = True
            stop = 1
        A, B, C, D = abcd(v, 1, n - 1)
        n0, nl = v['n'][0], v['n'][n - 1]
        c.require(C != 0)
        c.ensure_eq('C04.requery.f1', c.val(px.f1()), n0 / C)
        c.ensure_eq('C04.requery.f2', c.val(px.f2()), -nl / C)
        c.ensure_eq('C04.requery.F1', c.val(px.F1()), n0 * D / C)
        if stop == 1:
            c.ensure_eq('C04.requery.EPL', c.val(px.EPL()), 0)
        else:
            Af, Bf, Cf, Df = abcd(v, 1, stop, include_last_refraction=False)
            c.require(Af != 0)
            c.ensure_eq('C04.requery.EPL', c.val(px.EPL()), n0 * Bf / Af)
        yb, ub = px.chief_ray()
        c.ensure_eq('C04.requery.chief_through_stop', c.val(yb[stop]), 0)
    return rq


for _e in ('set_index', 'set_radius', 'set_thickness', 'move_stop'):
    _requery_contract(_e)


def _requery_object_distance(ap):
    @contract('C04.requery_after.set_object_distance.' + ap, [PX + ':Paraxial.marginal_ray', PX + ':Paraxial.EPD', PX + ':Paraxial.EPL', PX + ':Paraxial.XPD',
                                                             'optiland/optic.py:Optic.set_thickness'], ['C04', 'C13'], max_paths=64, groebner_s=40)
    def rqo(c):
        """the object distance of a finite-conjugate lens is changed in place (set_thickness on gap 0): the marginal ray, EPD and XPD are
        the matrix-optics values for the *vertex separations* the lens now has (wherever the edit left the vertices in z)"""
        n, stop = 4, 2
        lens, v, apv, fy = _setup(c, n, stop, True, ap, 'object_height')
        px = lens.paraxial
        px.EPL(), px.EPD(), px.marginal_ray(), px.XPD()
        T0 = c.real('new_object_distance', 5.0, 60.0, positive=True)
        lens.set_thickness(T0, 0)
        z_now = zs(c, lens)
        v = dict(v)
        v['z'] = [z_now[k] - z_now[1] for k in range(n)]          # separations only: the spec does not care where the lens sits in z
        c.ensure_eq('C04.requery.object_distance_is_the_one_set', v['z'][0], -T0)
        n0 = v['n'][0]
        Af, Bf, Cf, Df = abcd(v, 1, stop, include_last_refraction=False)
        c.require(Af != 0)
        EPL = n0 * Bf / Af
        c.require(EPL + T0 != 0)
        if ap == 'EPD':
            EPD = apv
        else:
            c.require(apv < n0)
            EPD = 2 * (EPL + T0) * c.val(c.np.tan(c.np.arcsin(c.arr(apv / n0))))
        c.ensure_eq('C04.requery.EPD_after_the_object_distance_edit', c.val(px.EPD()), EPD)
        ya, ua = px.marginal_ray()
        sp_ = spec_trace(v, 0, EPD / (2 * (EPL + T0)), -T0)
        for k in range(1, n):
            c.ensure_eq('C04.requery.marginal_ray_after_the_object_distance_edit', c.val(ya[k]), sp_[k - 1][0])
            c.ensure_eq('C04.requery.marginal_ray_after_the_object_distance_edit', c.val(ua[k]), sp_[k - 1][1])
    return rqo


for _ap in ('EPD', 'objectNA'):
    _requery_object_distance(_ap)


# ---- reflecting systems: index sign reversal -------------------------------------------------------------------------------------
KNOWN = {
    'C04.mirror.magnification_with_index_sign_reversal': {'finding': 'C04-unsigned-index-behind-mirrors', 'role': 'full'},
    'C04.mirror.invariant_is_the_object_space_value': {'finding': 'C04-unsigned-index-behind-mirrors', 'role': 'full'},
    'C04.mirror.pin_magnification_has_the_opposite_sign': {'finding': 'C04-unsigned-index-behind-mirrors', 'role': 'pin'},
    'C04.mirror.pin_invariant_has_the_opposite_sign': {'finding': 'C04-unsigned-index-behind-mirrors', 'role': 'pin'},
}


@contract('C04.mirror.single', [PX + ':Paraxial.marginal_ray', PX + ':Paraxial.chief_ray', PX + ':Paraxial.f2', PX + ':Paraxial.magnification',
                                PX + ':Paraxial.invariant', 'optiland/optic.py:Optic.n'], ['C04'], max_paths=64)
def mirror_single(c):
    """finite object, one mirror (the stop), image plane in front of it: matrix optics with n' = -n behind the mirror.
    KNOWN FINDING: Optic.n() reports the unsigned index behind a mirror, so magnification() and invariant() come out with the
    opposite sign there."""
    Optic = c.mod('optiland.optic').Optic
    CoordinateSystem = c.mod('optiland.coordinate_system').CoordinateSystem
    geos, mats, surfs = c.mod('optiland.geometries'), c.mod('optiland.materials'), c.mod('optiland.surfaces')
    lens = Optic()
    T0 = c.real('object_distance', 20.0, 300.0, positive=True)
    R = c.real('R', -200, 200, nonzero=True)
    n0 = c.real('n0', 1.0, 1.6, positive=True)
    t = c.real('image_gap', 5.0, 100.0, positive=True)
    m0 = mats.IdealMaterial(n=n0, k=0.0)
    sg = lens.surface_group.surfaces
    sg.append(surfs.ObjectSurface(geos.Plane(CoordinateSystem(z=-T0)), m0))
    sg.append(surfs.Surface(geos.StandardGeometry(CoordinateSystem(z=0.0), R, 0.0), m0, m0, is_stop=True, is_reflective=True))
    sg.append(surfs.Surface(geos.Plane(CoordinateSystem(z=-t)), m0, m0))
    lens.add_wavelength(0.55, is_primary=True)
    epd = c.real('EPD', 1.0, 10.0, positive=True)
    lens.set_aperture('EPD', epd)
    lens.set_field_type('object_height')
    fy = c.real('max_field', 1.0, 5.0, positive=True)
    lens.add_field(y=0.0)
    lens.add_field(y=fy)
    px = lens.paraxial
    ya, ua = px.marginal_ray()
    yb, ub = px.chief_ray()
    u0 = epd / (2 * T0)                                  # the stop is the mirror: EPL = 0
    y1 = T0 * u0
    u1 = -u0 - 2 * y1 / R                                 # (n u)' = n u - y (n' - n)/R with n' = -n
    c.require(u1 != 0)
    c.ensure_eq('C04.mirror.marginal_ray_by_index_sign_reversal', c.val(ya[1]), y1)
    c.ensure_eq('C04.mirror.marginal_ray_by_index_sign_reversal', c.val(ua[1]), u1)
    c.ensure_eq('C04.mirror.marginal_ray_by_index_sign_reversal', c.val(ya[2]), y1 + (-t) * u1)
    c.ensure_eq('C04.mirror.chief_ray_by_index_sign_reversal', c.val(yb[1]), 0)
    c.ensure_eq('C04.mirror.chief_ray_by_index_sign_reversal', c.val(ub[0]), -fy / T0)
    c.ensure_eq('C04.mirror.chief_ray_by_index_sign_reversal', c.val(ub[1]), fy / T0)           # u' = -u - 2 y / R at y = 0
    c.ensure_eq('C04.mirror.focal_length_is_half_the_radius', c.val(px.f2()), R / 2)
    mag_true = n0 * u0 / (-n0 * u1)
    H0 = n0 * (0 * u0 - 0 * 0) if False else n0 * (fy * u0 - 0 * (-fy / T0))                   # object plane: yb = fy, ya = 0
    mag = c.val(px.magnification())
    inv = c.val(px.invariant())
    c.ensure_eq('C04.mirror.magnification_with_index_sign_reversal', mag, mag_true, sym_only=True)
    c.ensure_eq('C04.mirror.invariant_is_the_object_space_value', inv, H0, sym_only=True)
    c.ensure_eq('C04.mirror.pin_magnification_has_the_opposite_sign', mag, -mag_true)
    c.ensure_eq('C04.mirror.pin_invariant_has_the_opposite_sign', inv, -H0)


# concrete inputs found by the defect-hunting sub-agents (bounded replay, see contracts/hunt.py)
from . import hunt as _hunt  # noqa: E402
_hunt.register('C04')
