"""C18 -- catalogue materials return the index their data file defines.

Oracle: the refractiveindex.info dispersion formulas (database/doc/Dispersion formulas.pdf in the repository),
transcribed below as nine spec functions; tabulated data = linear interpolation."""
import math
import os
import re
import time

import numpy as np

from pyvc.vc import contract
from pyvc import twin
from .common import *  # noqa

PROPERTY = 'C18'
K_QUICK = 10
K_THOROUGH = 100
MF = 'optiland/materials/material_file.py'
MT = 'optiland/materials/material.py'
KNOWN = {'C18.rows.entries_with_two_dispersion_blocks_rejected_pin': {'finding': 'C18-two-dispersion-blocks', 'role': 'pin'}}


# ---- spec: dispersion formulas of refractiveindex.info (c[0] = C1, ...) ------------------------------
def spec_rhs(formula, c, w):
    """right-hand side of the defining relation; returns (kind, value) with kind in n2 | n | n2m1 | nm1 | retro"""
    m = len(c)
    if formula == 1:       # n^2 - 1 = C1 + sum C_{2i} w^2 / (w^2 - C_{2i+1}^2)
        return 'n2m1', c[0] + sum(c[k] * w ** 2 / (w ** 2 - c[k + 1] ** 2) for k in range(1, m, 2))
    if formula == 2:       # n^2 - 1 = C1 + sum C_{2i} w^2 / (w^2 - C_{2i+1})
        return 'n2m1', c[0] + sum(c[k] * w ** 2 / (w ** 2 - c[k + 1]) for k in range(1, m, 2))
    if formula == 3:       # n^2 = C1 + sum C_{2i} w^C_{2i+1}
        return 'n2', c[0] + sum(c[k] * w ** c[k + 1] for k in range(1, m, 2))
    if formula == 4:       # n^2 = C1 + C2 w^C3/(w^2 - C4^C5) + C6 w^C7/(w^2 - C8^C9) + sum_{k>=9} C_k w^C_{k+1}
        return 'n2', (c[0] + c[1] * w ** c[2] / (w ** 2 - c[3] ** c[4]) + c[5] * w ** c[6] / (w ** 2 - c[7] ** c[8])
                      + sum(c[k] * w ** c[k + 1] for k in range(9, m, 2)))
    if formula == 5:       # n = C1 + sum C_{2i} w^C_{2i+1}
        return 'n', c[0] + sum(c[k] * w ** c[k + 1] for k in range(1, m, 2))
    if formula == 6:       # n - 1 = C1 + sum C_{2i} / (C_{2i+1} - w^-2)
        return 'nm1', c[0] + sum(c[k] / (c[k + 1] - 1 / w ** 2) for k in range(1, m, 2))
    if formula == 7:       # n = C1 + C2/(w^2-0.028) + C3/(w^2-0.028)^2 + C4 w^2 + C5 w^4 + C6 w^6
        L = 1 / (w ** 2 - 0.028) if not hasattr(w, 'e') else 1 / (w ** 2 - S.Sym(S.sp.Rational(28, 1000)))
        return 'n', c[0] + c[1] * L + c[2] * L ** 2 + sum(c[k] * w ** (2 * (k - 2)) for k in range(3, m))
    if formula == 8:       # (n^2-1)/(n^2+2) = C1 + C2 w^2/(w^2 - C3) + C4 w^2
        return 'retro', c[0] + c[1] * w ** 2 / (w ** 2 - c[2]) + c[3] * w ** 2
    if formula == 9:       # n^2 = C1 + C2/(w^2 - C3) + C4 (w - C5)/((w - C5)^2 + C6)
        return 'n2', c[0] + c[1] / (w ** 2 - c[2]) + c[3] * (w - c[4]) / ((w - c[4]) ** 2 + c[5])
    raise KeyError(formula)


def spec_n_numeric(formula, c, w):
    kind, v = spec_rhs(formula, [float(x) for x in c], np.asarray(w, dtype=float))
    if kind == 'n2m1':
        return np.sqrt(1 + v)
    if kind == 'n2':
        return np.sqrt(v)
    if kind == 'n':
        return v
    if kind == 'nm1':
        return 1 + v
    return np.sqrt((1 + 2 * v) / (1 - v))


# ---- catalogue scan (independent, regex based) ---------------------------------------------------------
def _catalogue(repo):
    import csv
    rows = []
    with open(os.path.join(repo, 'database', 'catalog_nk.csv'), encoding='utf-8') as f:
        for r in csv.DictReader(f):
            rows.append(r)
    return rows


_RE_TYPE = re.compile(r'^\s*-\s*type:\s*(.+?)\s*$')
_RE_COEF = re.compile(r'^\s*coefficients:\s*(.+?)\s*$')
_RE_RANGE = re.compile(r'^\s*(?:wavelength_range|range):\s*(.+?)\s*$')


def independent_parse(path):
    """DATA blocks of a refractiveindex.info YAML file without a YAML library"""
    blocks = []
    cur = None
    indata = False
    with open(path, encoding='utf-8') as f:
        for line in f:
            m = _RE_TYPE.match(line)
            if m:
                cur = {'type': m.group(1).strip().strip('\'"'), 'coefficients': None, 'table': []}
                blocks.append(cur)
                indata = False
                continue
            if cur is None:
                continue
            m = _RE_COEF.match(line)
            if m:
                cur['coefficients'] = [float(x) for x in m.group(1).split()]
                continue
            if re.match(r'^\s*data:\s*\|', line):
                indata = True
                continue
            if indata:
                parts = line.split()
                try:
                    vals = [float(x) for x in parts]
                except ValueError:
                    indata = False
                    continue
                if vals:
                    cur['table'].append(vals)
                elif line.strip() and not line.startswith(' '):
                    indata = False
            if re.match(r'^[A-Z]+:', line):
                if not line.startswith('DATA'):
                    cur = None if blocks else cur
    return blocks


def shapes_in_catalogue(repo):
    shapes = set()
    for r in _catalogue(repo):
        p = os.path.join(repo, 'database', 'data-nk', r['filename'])
        try:
            for b in independent_parse(p):
                if b['type'].startswith('formula') and b['coefficients']:
                    shapes.add((int(b['type'].split()[1]), len(b['coefficients'])))
        except OSError:
            pass
    return sorted(shapes)


# ---- symbolic: every (formula, coefficient count) shape of the catalogue, for all coefficient values --------
ALL_SHAPES = [(1, n) for n in range(3, 18, 2)] + [(2, n) for n in range(3, 12, 2)] + [(3, n) for n in (3, 5, 7, 9, 11, 13, 15)] + \
             [(4, n) for n in (9, 11, 13, 15)] + [(5, n) for n in (1, 3, 5, 7, 9)] + [(6, n) for n in (3, 5, 7, 9, 11)] + \
             [(7, n) for n in (3, 4, 5, 6)] + [(8, 4), (9, 6)]


def _formula_contract(formula, ncoef):
    @contract('C18.formula_%d.coefficients_%d' % (formula, ncoef), [MF + ':MaterialFile._formula_%d' % formula, MF + ':MaterialFile.n'],
              ['C18'], max_paths=8)
    def fm(c):
        MFm = c.mod('optiland.materials.material_file')
        m = object.__new__(MFm.MaterialFile)
        coef = [c.real('C%d' % (i + 1), 0.1, 2.0, positive=True) for i in range(ncoef)]
        if formula in (1, 2, 6, 8, 9):
            coef = [c.real('C%d' % (i + 1), 0.01, 0.08, positive=True) for i in range(ncoef)]
        w = c.real('w', 0.4, 2.0, positive=True)
        m.coefficients = list(coef)
        m._n_formula = 'formula %d' % formula
        m.formula_map = {'formula %d' % formula: getattr(m, '_formula_%d' % formula)}
        from pyvc.vc import Reject
        try:
            kind, rhs = spec_rhs(formula, coef, w)
        except ZeroDivisionError:
            raise Reject()
        # inside the domain of the formula: the radicand is positive
        if kind == 'n2m1':
            c.require(1 + rhs > 0)
        elif kind == 'n2':
            c.require(rhs > 0)
        elif kind == 'retro':
            c.require(1 - rhs > 0)
            c.require(1 + 2 * rhs > 0)
        res = c.val(m.n(w))
        cid = 'C18.formula_%d.equals_refractiveindex_info_definition' % formula
        if kind == 'n2m1':
            c.ensure_eq(cid, res * res - 1, rhs)
        elif kind == 'n2':
            c.ensure_eq(cid, res * res, rhs)
        elif kind == 'n':
            c.ensure_eq(cid, res, rhs)
        elif kind == 'nm1':
            c.ensure_eq(cid, res - 1, rhs)
        else:
            c.ensure_eq(cid, (res * res - 1), rhs * (res * res + 2))
        # scalar and array arguments agree
        arr = m.n(c.arr(w))
        c.ensure_eq('C18.formula_%d.scalar_and_array_arguments_agree' % formula, c.val(arr), res)
    return fm


for (_f, _n) in ALL_SHAPES:
    _formula_contract(_f, _n)


@contract('C18.tabulated', [MF + ':MaterialFile._tabulated_n', MF + ':MaterialFile.k', MF + ':MaterialFile.n'], ['C18'], max_paths=32)
def tabulated(c):
    MFm = c.mod('optiland.materials.material_file')
    m = object.__new__(MFm.MaterialFile)
    xs = np.array([0.4, 0.5, 0.7, 1.0])
    ns = np.array([1.53, 1.52, 1.51, 1.505])
    ks = np.array([1e-3, 2e-3, 1.5e-3, 1e-4])
    m._n_wavelength, m._n, m._k_wavelength, m._k = xs, ns, xs, ks
    m._n_formula = 'tabulated nk'
    m.formula_map = {'tabulated nk': m._tabulated_n, 'tabulated n': m._tabulated_n}
    w = c.real('w', 0.4, 1.0, positive=True)
    c.require(w >= 0.4)
    c.require(w <= 1.0)
    n_, k_ = c.val(m.n(w)), c.val(m.k(w))
    X, Nn, Kk = [c.const(float(v)) for v in xs], [c.const(float(v)) for v in ns], [c.const(float(v)) for v in ks]
    for i in range(3):
        if c.decide(w >= X[i]) and c.decide(w <= X[i + 1]):
            t = (w - X[i]) / (X[i + 1] - X[i])
            c.ensure_eq('C18.tabulated.n_is_linear_interpolation', n_, Nn[i] + t * (Nn[i + 1] - Nn[i]), tol=1e-9)
            c.ensure_eq('C18.tabulated.k_is_linear_interpolation', k_, Kk[i] + t * (Kk[i + 1] - Kk[i]), tol=1e-9)
            break
    c.ensure_eq('C18.tabulated.scalar_and_array_arguments_agree', c.val(m.n(c.arr(w))), n_)


@contract('C18.abbe', ['optiland/materials/base.py:BaseMaterial.abbe'], ['C18'], max_paths=8)
def abbe(c):
    Base = c.mod('optiland.materials.base').BaseMaterial
    nd, nF, nC = c.real('nd', 1.4, 2.0, positive=True), c.real('nF', 1.4, 2.0, positive=True), c.real('nC', 1.3, 1.39, positive=True)

    class M(Base):
        def n(self, w):
            return {0.5875618: nd, 0.4861327: nF, 0.6562725: nC}[float(w)]

        def k(self, w):
            return 0.0
    c.ensure_eq('C18.abbe.definition', c.val(M().abbe()), (nd - 1) / (nF - nC))


# ---- closed evaluation over the whole catalogue -----------------------------------------------------------
def _rows(ct, tier, seed):
    t0 = time.time()
    repo = twin._STATE['repo']
    mf = twin.real('optiland.materials.material_file')
    rows = _catalogue(repo)
    clauses = {}
    fails = []
    known = []
    n_ok = 0
    shapes = set()

    def note(cid, ok, detail, inputs):
        c_ = clauses.setdefault(cid, {'paths': 0, 'proved': 0, 'backends': {}, 'failed': [], 'seconds': 0.0})
        c_['paths'] += 1
        if ok:
            c_['proved'] += 1
            c_['backends']['closed-evaluation'] = c_['backends'].get('closed-evaluation', 0) + 1
        else:
            if len(c_['failed']) < 3:
                c_['failed'].append({'status': 'refuted', 'back_end': 'closed-evaluation', 'detail': detail, 'goal': cid})
            fails.append({'clause': cid, 'draws': inputs, 'note': detail})
    nw = 8 if tier == 'quick' else 50
    for r in rows:
        path = os.path.join(repo, 'database', 'data-nk', r['filename'])
        blocks = independent_parse(path)
        disp = [b for b in blocks if b['type'].startswith('formula') or b['type'] in ('tabulated n', 'tabulated nk')]
        if not disp:
            continue            # the entry defines no dispersion relation (k only): outside the statement
        inputs = {'filename': r['filename']}
        if len(disp) > 1:
            known.append(r['filename'])
            try:
                mf.MaterialFile(path)
                note('C18.rows.entries_with_two_dispersion_blocks_rejected_pin', False, 'constructed although two blocks', inputs)
            except ValueError:
                note('C18.rows.entries_with_two_dispersion_blocks_rejected_pin', True, '', inputs)
            continue
        b = disp[0]
        try:
            m = mf.MaterialFile(path)
        except Exception as ex:
            note('C18.rows.file_loads', False, '%s: %s' % (type(ex).__name__, ex), inputs)
            continue
        note('C18.rows.file_loads', True, '', inputs)
        lo, hi = float(r['min_wavelength']), float(r['max_wavelength'])
        ws = np.linspace(lo, hi, nw)
        with np.errstate(all='ignore'):
            got = np.array(m.n(ws), dtype=float)
            if b['type'].startswith('formula'):
                fnum = int(b['type'].split()[1])
                shapes.add((fnum, len(b['coefficients'])))
                note('C18.rows.coefficients_are_those_of_the_file', list(m.coefficients) == list(b['coefficients']) and m._n_formula == b['type'],
                     'parsed %s' % (m.coefficients[:4],), inputs)
                want = spec_n_numeric(fnum, b['coefficients'], ws)
            else:
                t = np.array(b['table'], dtype=float)
                t = t[np.argsort(t[:, 0], kind='stable')]          # "the linear interpolation of the tabulated data": over increasing wavelength
                want = np.interp(ws, t[:, 0], t[:, 1])
            shape_ok = got.shape == ws.shape
            note('C18.rows.array_argument_gives_one_index_per_wavelength', shape_ok, '%s: n() of %d wavelengths has shape %s' % (r['filename'], nw, got.shape), inputs)
            if not shape_ok:
                note('C18.rows.index_equals_definition_on_the_stated_range', False, '%s: result has shape %s, values %s' % (r['filename'], got.shape, np.ravel(got)[:3]), inputs)
                continue
            ok = np.allclose(got, want, rtol=1e-9, atol=1e-12, equal_nan=True)
            note('C18.rows.index_equals_definition_on_the_stated_range', ok,
                 'max dev %.3e at %s' % (np.nanmax(np.abs(got - want)) if got.shape == want.shape else float('nan'), r['filename']), inputs)
            # a wavelength buffer refilled in place between two calls (band loops do that) is evaluated at its current contents
            buf = ws.copy()
            m.n(buf)
            buf[:] = buf[::-1].copy()
            again = np.array(m.n(buf), dtype=float)
            note('C18.rows.array_argument_is_read_at_call_time', bool(again.shape == got.shape and np.allclose(again, got[::-1], rtol=1e-10, atol=0, equal_nan=True)),
                 r['filename'], inputs)
            s = m.n(float(ws[nw // 2]))
            note('C18.rows.scalar_and_array_arguments_agree', np.allclose(float(np.ravel(s)[0]), got[nw // 2], rtol=1e-13, atol=0, equal_nan=True),
                 r['filename'], inputs)
            kt = [bb for bb in blocks if bb['type'] in ('tabulated k', 'tabulated nk')]
            if kt:
                t = np.array(kt[0]['table'], dtype=float)
                t = t[np.argsort(t[:, 0], kind='stable')]
                col = 1 if kt[0]['type'] == 'tabulated k' else 2
                wk = np.linspace(t[0, 0], t[-1, 0], nw)
                note('C18.rows.k_is_linear_interpolation_of_the_table', np.allclose(m.k(wk), np.interp(wk, t[:, 0], t[:, col]), rtol=1e-12, atol=0),
                     r['filename'], inputs)
        n_ok += 1
    # every shape met in the catalogue has its symbolic proof registered
    missing = [s_ for s_ in sorted(shapes) if s_ not in ALL_SHAPES]
    note('C18.rows.every_catalogue_shape_has_a_symbolic_proof', not missing, 'shapes without proof: %s' % missing, {'shapes': len(shapes)})
    return {'contract': ct.name, 'functions': ct.functions, 'props': ct.props,
            'symbolic': {'clauses': clauses, 'paths': n_ok, 'errors': [], 'solver_s': time.time() - t0,
                         'samples': [{'rows_checked': n_ok, 'shapes': sorted(shapes)[:40], 'rows_with_two_dispersion_blocks': known[:5]}],
                         'wd_assumed': [], 'assumed': []},
            'numeric': {'accepted': n_ok, 'rejected': 0, 'failures': fails[:10], 'concolic_agree': 0, 'encoder_mismatches': [], 'samples': []},
            'wall_s': time.time() - t0}


contract('C18.rows', [MF + ':MaterialFile.__init__', MF + ':MaterialFile._parse_file', MF + ':MaterialFile._read_file',
                      MF + ':MaterialFile._set_formula_type', MF + ':MaterialFile.n', MF + ':MaterialFile.k'], ['C18'], custom=_rows)(lambda c: None)


def _lookup(ct, tier, seed):
    t0 = time.time()
    repo = twin._STATE['repo']
    mt = twin.real('optiland.materials.material')
    import io
    import contextlib
    rows = _catalogue(repo)
    clauses = {}
    fails = []

    def note(cid, ok, detail, inputs):
        c_ = clauses.setdefault(cid, {'paths': 0, 'proved': 0, 'backends': {}, 'failed': [], 'seconds': 0.0})
        c_['paths'] += 1
        if ok:
            c_['proved'] += 1
            c_['backends']['closed-evaluation'] = c_['backends'].get('closed-evaluation', 0) + 1
        else:
            if len(c_['failed']) < 3:
                c_['failed'].append({'status': 'refuted', 'back_end': 'closed-evaluation', 'detail': detail, 'goal': cid})
            fails.append({'clause': cid, 'draws': inputs, 'note': detail})
    names = {}
    for r in rows:
        names.setdefault(r['category_name'], []).append(r)
    n = 0
    probe = object.__new__(mt.Material)
    df = mt.Material._load_dataframe()

    def code_of(row_name):
        return row_name.split(' (')[0].strip().lower()

    def query(nm, ref):
        probe.name, probe.reference, probe.min_wavelength, probe.max_wavelength = nm, ref, None, None
        with contextlib.redirect_stdout(io.StringIO()):
            res = probe._find_material_matches(df)
        if not len(res):
            return None, None
        return res.loc[0, 'category_name'], res.loc[0, 'name']
    for nm, rs in sorted(names.items()):
        # the lookup itself (no file parsing): exact-name query -> first match carries exactly that name
        n += 1
        got_c, got_n = query(nm, None)
        ok = got_c is not None and (got_c.lower() == nm.lower() or code_of(got_n) == nm.lower())
        note('C18.lookup.exact_name_returns_that_name', ok, 'query %r returned %r / %r' % (nm, got_c, got_n), {'name': nm})
        ref = rs[0]['reference']
        got_c, got_n = query(nm, ref)
        ok = got_c is not None and (got_c.lower() == nm.lower() or code_of(got_n) == nm.lower())
        note('C18.lookup.exact_name_with_reference_returns_that_name', ok, 'query (%r, %r) returned %r / %r' % (nm, ref, got_c, got_n),
             {'name': nm, 'reference': ref})
    # glass codes (catalogue name without the vendor suffix), with the vendor as reference
    for r in rows:
        if r['group'] != 'glass' or ' (' not in r['name']:
            continue
        code = r['name'].split(' (')[0].strip()
        vendor = r['name'].split(' (')[1].rstrip(')').strip()
        n += 1
        got_c, got_n = query(code, vendor)
        ok = got_n is not None and (code_of(got_n) == code.lower() or (got_c or '').lower() == code.lower())
        note('C18.lookup.glass_code_with_vendor_returns_that_glass', ok, 'query (%r, %r) returned %r' % (code, vendor, got_n),
             {'name': code, 'reference': vendor})
        got_c, got_n = query(code, None)
        ok = got_n is not None and (code_of(got_n) == code.lower() or (got_c or '').lower() == code.lower())
        note('C18.lookup.glass_code_returns_an_entry_with_that_code', ok, 'query %r returned %r' % (code, got_n), {'name': code})
    # Levenshtein: d(s, s) = 0 and d(s, t) > 0 for s != t on catalogue names (bounded sample of pairs)
    L = mt.Material._levenshtein_distance
    keys = sorted(names)[:: max(1, len(names) // 150)]
    okz = all(L(k.lower(), k.lower()) == 0 for k in keys)
    okp = all(L(a.lower(), b.lower()) > 0 for a in keys for b in keys if a.lower() != b.lower())
    note('C18.lookup.distance_zero_iff_equal_on_catalogue_names', okz and okp, '', {'pairs': len(keys) ** 2})
    return {'contract': ct.name, 'functions': ct.functions, 'props': ct.props,
            'symbolic': {'clauses': clauses, 'paths': n, 'errors': [], 'solver_s': time.time() - t0,
                         'samples': [{'distinct_names_queried': n}], 'wd_assumed': [], 'assumed': []},
            'numeric': {'accepted': n, 'rejected': 0, 'failures': fails[:10], 'concolic_agree': 0, 'encoder_mismatches': [], 'samples': []},
            'wall_s': time.time() - t0}


contract('C18.lookup', [MT + ':Material._find_material_matches', MT + ':Material._levenshtein_distance', MT + ':Material._retrieve_file'],
         ['C18'], custom=_lookup)(lambda c: None)


def _model_glass(ct, tier, seed):
    """bounded: AbbeMaterial(n_d, V_d) reproduces n_d at the d line and V_d = (n_d - 1)/(n_F - n_C) of its own dispersion to within the
    accuracy of the fit (|dn| <= 2e-3, |dV|/V <= 15 %: measured worst cases on Schott glasses are 5e-4 and 9 %)"""
    import time
    import warnings
    import numpy as np
    from optiland.materials import AbbeMaterial, Material
    from optiland.materials.base import BaseMaterial
    warnings.simplefilter('ignore')
    t0 = time.time()
    clauses, fails, cases = {}, [], 0

    def note(cid, ok, detail, inputs):
        c_ = clauses.setdefault(cid, {'paths': 0, 'proved': 0, 'backends': {}, 'failed': [], 'seconds': 0.0, 'bounded': True})
        c_['paths'] += 1
        if ok:
            c_['proved'] += 1
            c_['backends']['runtime'] = c_['backends'].get('runtime', 0) + 1
        else:
            fails.append({'clause': cid, 'draws': inputs, 'note': detail})
    names = ['N-BK7', 'N-SF11', 'F2', 'N-SK16', 'N-LAK9', 'N-FK51A', 'N-BAF10', 'N-SF5', 'N-KZFS4', 'N-LASF9', 'N-PSK53A', 'N-BAK4', 'SF10', 'N-LAK22']
    for nm in (names if tier == 'thorough' else names[:8]):
        try:
            m = Material(nm)
            nd, V = float(m.n(0.5875618)), float(BaseMaterial.abbe(m))
        except Exception:
            continue
        if not (1.4 < nd < 2.0 and 15 < V < 95):
            continue
        a = AbbeMaterial(nd, V)
        inputs = {'glass': nm, 'nd': nd, 'Vd': V}
        cases += 1
        dn = float(a.n(0.5875618)) - nd
        dV = float(BaseMaterial.abbe(a)) - V
        note('C18.model_glass.reproduces_the_d_line_index', abs(dn) <= 2e-3, 'dn = %.2e' % dn, inputs)
        note('C18.model_glass.reproduces_the_abbe_number', abs(dV) <= 0.15 * V, 'dV = %.3f of %.2f' % (dV, V), inputs)
        note('C18.model_glass.extinction_is_zero', a.k(0.55) == 0, '', inputs)
        ws = np.array([0.45, 0.55, 0.65])
        note('C18.model_glass.scalar_and_array_arguments_agree', bool(np.allclose([float(a.n(float(w))) for w in ws], a.n(ws), rtol=1e-13, atol=0)), '', inputs)
    return {'contract': ct.name, 'functions': ct.functions, 'props': ct.props,
            'symbolic': {'clauses': clauses, 'paths': 0, 'errors': [], 'solver_s': 0.0, 'samples': [], 'wd_assumed': [], 'assumed': []},
            'numeric': {'accepted': cases, 'rejected': 0, 'failures': fails[:10], 'concolic_agree': 0, 'encoder_mismatches': [],
                        'samples': [{'glasses': names[:8]}]}, 'wall_s': time.time() - t0}


contract('C18.model_glass', ['optiland/materials/abbe.py:AbbeMaterial.n', 'optiland/materials/abbe.py:AbbeMaterial._get_coefficients',
                             'optiland/materials/abbe.py:AbbeMaterial.k'], ['C18'], custom=_model_glass)(lambda c: None)


# concrete inputs found by the defect-hunting sub-agents (bounded replay, see contracts/hunt.py)
from . import hunt as _hunt  # noqa: E402
_hunt.register('C18')
