"""C16 -- ray intensity is never created and is removed exactly as specified."""
import math
from pyvc.vc import contract
from .common import *  # noqa
from .c02 import _abstract_geometry, _cs, SS

PROPERTY = 'C16'
K_QUICK = 20
K_THOROUGH = 400
PA = 'optiland/physical_apertures.py'
CO = 'optiland/coatings.py'
TRUSTED = ['exp is positive, monotone and exp(0) = 1 (only facts used about np.exp)']


@contract('C16.RadialAperture.clip', [PA + ':RadialAperture.clip', RR + ':RealRays.clip', PA + ':RadialAperture.scale'],
          ['C16'], bundle=True)
def clip(c):
    PAm = c.mod('optiland.physical_apertures')
    rmax = c.real('r_max', 0.5, 5.0, positive=True)
    rmin = c.real('r_min', 0.0, 2.0, nonneg=True)
    c.require(rmin < rmax)
    ap = PAm.RadialAperture(r_max=rmax, r_min=rmin)
    if c.decide(c.real('do_scale', 0, 1, integer=True) > 0):
        f = c.real('factor', 0.2, 3.0, positive=True)       # the limits in force are the *current* ones
        ap.scale(f)
        rmax, rmin = rmax * f, rmin * f
        c.ensure_eq('C16.aperture.scale', ap.r_max, rmax)
        c.ensure_eq('C16.aperture.scale', ap.r_min, rmin)
    p = free_point(c)
    d = c.unit3('L', 'M', 'N')
    i0 = c.real('i0', 0.0, 1.0, nonneg=True)
    rays = mk_rays(c, p, d, intensity=i0)
    before = c.snapshot(rays=rays)
    ap.clip(rays)
    r2 = p[0] ** 2 + p[1] ** 2
    outside = c.decide(r2 > rmax ** 2) or c.decide(r2 < rmin ** 2)
    if outside:
        c.ensure_eq('C16.clip.outside_zero', c.val(rays.i), 0)
    else:
        c.ensure_eq('C16.clip.inside_unchanged', c.val(rays.i), i0)
    c.ensure_frame('C16.clip.frame', before, c.snapshot(rays=rays), ['rays.i'])


@contract('C16.RealRays.propagate.absorption', [RR + ':RealRays.propagate', 'optiland/materials/ideal.py:IdealMaterial.k'],
          ['C16'], bundle=True)
def absorb(c):
    mats = c.mod('optiland.materials')
    k = c.real('k', 0.0, 1e-4, nonneg=True)
    w = c.real('w', 0.3, 2.0, positive=True)
    t = c.real('t', 0.0, 20.0, nonneg=True)
    i0 = c.real('i0', 0.0, 1.0, nonneg=True)
    d = c.unit3('L', 'M', 'N')
    rays = mk_rays(c, free_point(c), d, intensity=i0, w=w)
    before = c.snapshot(rays=rays)
    rays.propagate(c.arr(t), mats.IdealMaterial(n=1.5, k=k))
    i1 = c.val(rays.i)
    fac = c.exp(-(4 * c.pi * k / w) * t * c.const(1e3))    # exp(-4 pi k d / lambda), d in microns
    c.ensure_eq('C16.propagate.beer_lambert', i1, i0 * fac)
    I1 = c.abstract('I1', i1)
    Fa = c.abstract('Fa', fac)
    c.ensure('C16.propagate.never_increases', I1 <= i0, using=[I1 == i0 * Fa, Fa <= 1, Fa > 0])
    c.ensure('C16.propagate.stays_nonnegative', I1 >= 0, using=[I1 == i0 * Fa, Fa > 0])
    c.ensure_frame('C16.propagate.frame', before, c.snapshot(rays=rays), ['rays.x', 'rays.y', 'rays.z', 'rays.i'])


def _coating_contract(reflect):
    @contract('C16.SimpleCoating.%s' % ('reflect' if reflect else 'transmit'),
              [CO + ':SimpleCoating.transmit', CO + ':SimpleCoating.reflect', CO + ':BaseCoating.interact'], ['C16'],
              bundle=True)
    def coat(c):
        T = c.real('T', 0.0, 1.0, nonneg=True)
        Rf = c.real('Rf', 0.0, 1.0, nonneg=True)
        c.require(T <= 1)
        c.require(Rf <= 1)
        co = c.mod('optiland.coatings').SimpleCoating(T, Rf)
        i0 = c.real('i0', 0.0, 1.0, nonneg=True)
        rays = mk_rays(c, free_point(c), c.unit3('L', 'M', 'N'), intensity=i0)
        before = c.snapshot(rays=rays)
        out = co.interact(rays, reflect=reflect, nx=c.arr(0.0), ny=c.arr(0.0), nz=c.arr(1.0))
        c.ensure('C16.coating.same_bundle', c.same(out, rays))
        fac = Rf if reflect else T
        c.ensure_eq('C16.coating.multiplies_by_' + ('reflectance' if reflect else 'transmittance'), c.val(rays.i), i0 * fac)
        I1 = c.abstract('I1', c.val(rays.i))
        c.ensure('C16.coating.never_increases', I1 <= i0, using=[I1 == i0 * fac])
        c.ensure_frame('C16.coating.frame', before, c.snapshot(rays=rays), ['rays.i'])
    return coat


_coating_contract(False)
_coating_contract(True)


def _surface_contract(reflective, with_ap, with_coat, with_k):
    tag = '%s.%s%s%s' % ('mirror' if reflective else 'refract', 'A' if with_ap else '-', 'C' if with_coat else '-',
                         'K' if with_k else '-')

    @contract('C16.Surface._trace_real.' + tag, [SS + ':Surface._trace_real', SS + ':Surface._interact', SS + ':Surface._record'],
              ['C16'], bundle=True, max_paths=64)
    def tr(c):
        surfs = c.mod('optiland.surfaces')
        mats = c.mod('optiland.materials')
        cs = _cs(c, '')
        t = c.real('t', 0.0, 20.0, nonneg=True)
        n = c.unit3('nx', 'ny', 'nz')
        n1 = c.real('n1', 1.0, 2.5, positive=True)
        n2 = c.real('n2', 1.0, 2.5, positive=True)
        k = c.real('k', 0.0, 1e-4, nonneg=True) if with_k else 0.0
        w = c.real('w', 0.3, 2.0, positive=True)
        geo = _abstract_geometry(c, cs, t, n)
        ap = c.mod('optiland.physical_apertures').RadialAperture(c.real('r_max', 0.5, 5, positive=True)) if with_ap else None
        T = c.real('T', 0.0, 1.0, nonneg=True)
        Rf = c.real('Rf', 0.0, 1.0, nonneg=True)
        c.require(T <= 1)
        c.require(Rf <= 1)
        coat = c.mod('optiland.coatings').SimpleCoating(T, Rf) if with_coat else None
        surf = surfs.Surface(geo, mats.IdealMaterial(n1, k), mats.IdealMaterial(n2, 0.0), is_reflective=reflective,
                             aperture=ap, coating=coat)
        p = free_point(c)
        d = c.unit3('L', 'M', 'N')
        i0 = c.real('i0', 0.0, 1.0, nonneg=True)
        probe = mk_rays(c, p, d)
        cs.localize(probe)
        pl, dl = pos_of(c, probe), dir_of(c, probe)
        d0 = dot(dl, n)
        c.require(d0 != 0)
        if not reflective:
            c.require(1 - (n1 / n2) ** 2 * (1 - d0 * d0) > 0)
        rays = mk_rays(c, p, d, intensity=i0, w=w)
        surf.trace(rays)
        i1 = c.val(rays.i)
        fac = 1
        if with_k:
            fac = fac * c.exp(-(4 * c.pi * k / w) * t * c.const(1e3))
        if with_coat:
            fac = fac * (Rf if reflective else T)
        hit = tuple(pl[j] + t * dl[j] for j in range(3))
        clipped = with_ap and c.decide(hit[0] ** 2 + hit[1] ** 2 > ap.r_max ** 2)
        if clipped:
            c.ensure_eq('C16.surface.outside_aperture_zero', i1, 0)
        else:
            c.ensure_eq('C16.surface.exact_factor', i1, i0 * fac)
        c.ensure_eq('C16.surface.record_is_ray_intensity', c.val(surf.intensity), i1)
        I1 = c.abstract('I1', i1)
        if with_k:
            Fa = c.abstract('Fa', c.exp(-(4 * c.pi * k / w) * t * c.const(1e3)))
            Tc = (Rf if reflective else T) if with_coat else 1
            if not clipped:
                c.ensure('C16.surface.never_increases', I1 <= i0, using=[I1 == i0 * Fa * Tc, Fa <= 1, Fa > 0])
        elif not clipped:
            Tc = (Rf if reflective else T) if with_coat else 1
            c.ensure('C16.surface.never_increases', I1 <= i0, using=[I1 == i0 * Tc])
    return tr


for _r in (False, True):
    for _a in (False, True):
        for _c in (False, True):
            for _k in (False, True):
                _surface_contract(_r, _a, _c, _k)


@contract('C16.requery', [CO + ':SimpleCoating.transmit', CO + ':SimpleCoating.reflect', RR + ':RealRays.propagate', SS + ':Surface._trace_real'],
          ['C16', 'C13'], bundle=True, max_paths=64)
def requery(c):
    """edit-then-ask: coating factors, the extinction coefficient and the coating object of a surface are read when rays are
    traced, not remembered from an earlier trace"""
    co = c.mod('optiland.coatings').SimpleCoating(c.real('T_before', 0.0, 1.0, nonneg=True), c.real('R_before', 0.0, 1.0, nonneg=True))
    i0 = c.real('i0', 0.0, 1.0, nonneg=True)
    n = (c.arr(0.0), c.arr(0.0), c.arr(1.0))
    warm = mk_rays(c, free_point(c), c.unit3('L', 'M', 'N'), intensity=i0)
    co.interact(warm, reflect=False, nx=n[0], ny=n[1], nz=n[2]), co.interact(warm, reflect=True, nx=n[0], ny=n[1], nz=n[2])
    T, Rf = c.real('T', 0.0, 1.0, nonneg=True), c.real('Rf', 0.0, 1.0, nonneg=True)
    co.transmittance, co.reflectance = T, Rf
    r1 = mk_rays(c, free_point(c), c.unit3('L', 'M', 'N'), intensity=i0)
    co.interact(r1, reflect=False, nx=n[0], ny=n[1], nz=n[2])
    c.ensure_eq('C16.requery.coating_uses_current_transmittance', c.val(r1.i), i0 * T)
    r2 = mk_rays(c, free_point(c), c.unit3('L', 'M', 'N'), intensity=i0)
    co.interact(r2, reflect=True, nx=n[0], ny=n[1], nz=n[2])
    c.ensure_eq('C16.requery.coating_uses_current_reflectance', c.val(r2.i), i0 * Rf)
    # a surface whose coating / medium is replaced after a first trace
    surfs, mats, geos = c.mod('optiland.surfaces'), c.mod('optiland.materials'), c.mod('optiland.geometries')
    CoordinateSystem = c.mod('optiland.coordinate_system').CoordinateSystem
    zv = c.real('zv', 1, 5, positive=True)
    surf = surfs.Surface(geos.Plane(CoordinateSystem(z=zv)), mats.IdealMaterial(1.0, c.real('k_before', 0.0, 1e-4, nonneg=True)), mats.IdealMaterial(1.5, 0.0),
                         coating=c.mod('optiland.coatings').SimpleCoating(c.real('Ts_before', 0.0, 1.0, nonneg=True), 0.0))
    surf.trace(mk_rays(c, (0.0, 0.0, 0.0), (0.0, 0.0, 1.0), intensity=i0))
    k2 = c.real('k', 0.0, 1e-4, nonneg=True)
    surf.material_pre = mats.IdealMaterial(1.0, k2)
    surf.coating = c.mod('optiland.coatings').SimpleCoating(T, 0.0)
    w = 0.55
    r3 = mk_rays(c, (0.0, 0.0, 0.0), (0.0, 0.0, 1.0), intensity=i0, w=w)
    surf.trace(r3)
    c.ensure_eq('C16.requery.surface_uses_current_coating_and_extinction', c.val(r3.i),
                i0 * T * c.exp(-(4 * c.pi * k2 / w) * zv * 1e3))


@contract('C16.factory.coating_given_is_the_coating_that_acts',
          ['optiland/surfaces/surface_factory.py:SurfaceFactory.create_surface', 'optiland/surfaces/surface_factory.py:SurfaceFactory.configure_coating',
           'optiland/optic.py:Optic.add_surface', SS + ':Surface._trace_real', CO + ':SimpleCoating.reflect', CO + ':SimpleCoating.transmit'],
          ['C16'], bundle=True, max_paths=64)
def factory_coating(c):
    """a coating object handed to Optic.add_surface is the coating of that surface -- on a refracting surface, on a mirror, and on a
    surface whose two media are one and the same object (a coated dummy / filter plane): the axial ray leaves each of them with its
    intensity multiplied by the stated transmittance (reflectance at the mirror)"""
    Optic = c.mod('optiland.optic').Optic
    SimpleCoating = c.mod('optiland.coatings').SimpleCoating
    IdealMaterial = c.mod('optiland.materials').IdealMaterial
    T1, T2 = c.real('T_lens_face', 0.0, 1.0, nonneg=True), c.real('T_filter_plane', 0.0, 1.0, nonneg=True)
    Rm, Tm = c.real('R_mirror', 0.0, 1.0, nonneg=True), c.real('T_mirror_unused', 0.0, 1.0, nonneg=True)
    glass = IdealMaterial(n=1.5, k=0)
    coats = [SimpleCoating(T1, 0.0), SimpleCoating(T2, 0.0), SimpleCoating(Tm, Rm)]
    o = Optic()
    o.add_surface(index=0, thickness=c.np.inf)
    o.add_surface(index=1, radius=50.0, thickness=4.0, material=glass, is_stop=True, coating=coats[0])
    o.add_surface(index=2, thickness=3.0, material=glass, coating=coats[1])            # a plane inside the glass: same medium object on both sides
    o.add_surface(index=3, radius=-80.0, thickness=20.0)
    o.add_surface(index=4, radius=-200.0, thickness=-15.0, material='mirror', coating=coats[2])
    o.add_surface(index=5)
    sg = o.surface_group
    for k_, co in zip((1, 2, 4), coats):
        c.ensure('C16.factory.surface_carries_the_coating_object_it_was_given', sg.surfaces[k_].coating is co)
    i0 = c.real('i0', 0.0, 1.0, nonneg=True)
    rays = mk_rays(c, (0.0, 0.0, -5.0), (0.0, 0.0, 1.0), intensity=i0)
    sg.trace(rays)
    want = [i0, i0 * T1, i0 * T1 * T2, i0 * T1 * T2, i0 * T1 * T2 * Rm, i0 * T1 * T2 * Rm]
    for k_ in range(6):
        c.ensure_eq('C16.factory.recorded_intensity_is_the_running_product_of_the_given_coating_factors', c.val(sg.intensity[k_]), want[k_])
    c.ensure_eq('C16.factory.returned_intensity_is_the_product_of_the_given_coating_factors', c.val(rays.i), want[-1])


def _polarized_mode(ct, tier, seed):
    """bounded, whole lens: with polarization tracking switched on (any state) and no polarization-dependent element, the
    intensities returned by Optic.trace must be those of the scalar trace (apertures, absorption, simple coatings)
    (before fix c8f8b97 PolarizedRays.update_intensity's |P E|^2 replaced them: clipped rays came back at full intensity)."""
    import random
    import time
    import warnings
    import numpy as np
    from optiland.optic import Optic
    from optiland.materials import IdealMaterial
    from optiland.coatings import SimpleCoating
    from optiland.physical_apertures import RadialAperture
    from optiland.rays.polarization_state import create_polarization
    warnings.simplefilter('ignore')
    np.seterr(all='ignore')
    t0 = time.time()
    rng = random.Random(seed * 47 + 10)
    clauses, fails, cases = {}, [], 0

    def note(cid, ok, detail, inputs):
        c_ = clauses.setdefault(cid, {'paths': 0, 'proved': 0, 'backends': {}, 'failed': [], 'seconds': 0.0, 'bounded': True})
        c_['paths'] += 1
        if ok:
            c_['proved'] += 1
            c_['backends']['runtime'] = c_['backends'].get('runtime', 0) + 1
        else:
            fails.append({'clause': cid, 'draws': inputs, 'note': detail})
    for i in range(2 if tier == 'quick' else 10):
        par = {'r_max': rng.uniform(1.5, 3.0), 'k': rng.uniform(1e-6, 2e-5), 'T': rng.uniform(0.5, 0.95), 'n': rng.uniform(1.5, 1.7)}

        def mk():
            L = Optic()
            L.add_surface(index=0, thickness=np.inf)
            L.add_surface(index=1, radius=50, thickness=4, material=IdealMaterial(par['n'], par['k']), is_stop=True,
                          aperture=RadialAperture(r_max=par['r_max']), coating=SimpleCoating(par['T'], 0.0))
            L.add_surface(index=2, radius=-50, thickness=40)
            L.add_surface(index=3)
            L.set_aperture('EPD', 8)
            L.set_field_type('angle')
            L.add_field(y=0)
            L.add_wavelength(0.55, is_primary=True)
            return L
        L = mk()
        scalar = L.trace(0.0, 0.0, 0.55, 3, 'hexapolar').i.copy()
        rec = np.array(L.surface_group.intensity, dtype=float).copy()
        for st in ('unpolarized', 'H', 'RCP'):
            Lp = mk()
            Lp.set_polarization(create_polarization(st))
            r = Lp.trace(0.0, 0.0, 0.55, 3, 'hexapolar')
            cases += 1
            inputs = {'lens': par, 'state': st}
            note('C16.runtime.polarized_trace_keeps_aperture_absorption_and_simple_coating_losses',
                 bool(np.allclose(r.i, scalar, rtol=1e-9, atol=1e-12, equal_nan=True)), 'polarized %s vs scalar %s' % (np.round(r.i[:4], 4), np.round(scalar[:4], 4)), inputs)
            # the record of the image surface is the intensity of the rays as returned (analyses read it from there)
            Lf = mk()
            Lf.surface_group.set_fresnel_coatings()
            Lf.set_polarization(create_polarization(st))
            rf_ = Lf.trace(0.0, 0.0, 0.55, 3, 'hexapolar')
            note('C16.runtime.image_surface_record_is_the_returned_ray_intensity',
                 bool(np.allclose(np.array(Lf.surface_group.intensity, dtype=float)[-1], rf_.i, rtol=1e-12, atol=0, equal_nan=True)),
                 'record %s vs rays %s' % (np.round(np.array(Lf.surface_group.intensity, dtype=float)[-1][:3], 4), np.round(rf_.i[:3], 4)), inputs)
            note('C16.runtime.per_surface_records_carry_the_scalar_losses_in_polarized_mode',
                 bool(np.allclose(np.array(Lp.surface_group.intensity, dtype=float)[:-1], rec[:-1], rtol=1e-9, atol=1e-12, equal_nan=True)), '', inputs)
    return {'contract': ct.name, 'functions': ct.functions, 'props': ct.props,
            'symbolic': {'clauses': clauses, 'paths': 0, 'errors': [], 'solver_s': 0.0, 'samples': [], 'wd_assumed': [], 'assumed': []},
            'numeric': {'accepted': cases, 'rejected': 0, 'failures': fails[:10], 'concolic_agree': 0, 'encoder_mismatches': [],
                        'samples': [{'states': ['unpolarized', 'H', 'RCP']}]}, 'wall_s': time.time() - t0}


contract('C16.runtime.polarized_mode', ['optiland/rays/polarized_rays.py:PolarizedRays.update_intensity', 'optiland/optic.py:Optic.trace',
                                        SS + ':Surface._trace_real'], ['C16'], custom=_polarized_mode)(lambda c: None)


def _analysis_intensities(ct, tier, seed):
    """bounded: the intensities an analysis reports are those of the rays it traced, point for point -- checked on a lens whose
    x fan and y fan lose intensity differently (off-axis field, obscured and clipping apertures, absorbing glass, coatings)"""
    import random
    import time
    import warnings
    import numpy as np
    from optiland import analysis
    from optiland.optic import Optic
    from optiland.materials import IdealMaterial
    from optiland.coatings import SimpleCoating
    from optiland.physical_apertures import RadialAperture
    warnings.simplefilter('ignore')
    np.seterr(all='ignore')
    t0 = time.time()
    rng = random.Random(seed * 59 + 14)
    clauses, fails, cases = {}, [], 0

    def note(cid, ok, detail, inputs):
        c_ = clauses.setdefault(cid, {'paths': 0, 'proved': 0, 'backends': {}, 'failed': [], 'seconds': 0.0, 'bounded': True})
        c_['paths'] += 1
        if ok:
            c_['proved'] += 1
            c_['backends']['runtime'] = c_['backends'].get('runtime', 0) + 1
        else:
            fails.append({'clause': cid, 'draws': inputs, 'note': detail})
    for i in range(2 if tier == 'quick' else 8):
        par = {'rmin': rng.uniform(0.4, 0.8), 'rmax': rng.uniform(5.0, 5.8), 'k': rng.uniform(1e-6, 4e-6), 'T': rng.uniform(0.7, 0.95)}
        L = Optic()
        L.add_surface(index=0, thickness=np.inf)
        L.add_surface(index=1, radius=np.inf, thickness=3.0, is_stop=True)
        L.add_surface(index=2, radius=45.0, thickness=6.0, material=IdealMaterial(1.6, par['k']), aperture=RadialAperture(r_max=9.0, r_min=par['rmin']),
                      coating=SimpleCoating(par['T'], 0.0))
        L.add_surface(index=3, radius=-60.0, thickness=60.0, aperture=RadialAperture(r_max=par['rmax']))
        L.add_surface(index=4)
        L.set_aperture('EPD', 10.0)
        L.set_field_type('angle')
        L.add_field(y=0.0)
        L.add_field(y=12.0)
        # three wavelengths, the primary one in the middle: absorption exp(-4 pi k d / lambda) makes every wavelength's
        # intensities different, so an analysis that reuses one wavelength's intensities for another is seen (round 7)
        WL = (0.45, 0.55, 0.65)
        for w_ in WL:
            L.add_wavelength(w_, is_primary=(w_ == 0.55))
        npts = 7
        rf = analysis.RayFan(L, num_points=npts)
        P = np.linspace(-1, 1, npts)
        for f in L.fields.get_field_coords():
            for w_ in WL:
                d = rf.data[str(f)][str(w_)]
                ix = [float(L.trace_generic(float(f[0]), float(f[1]), float(p_), 0.0, w_).i[0]) for p_ in P]
                iy = [float(L.trace_generic(float(f[0]), float(f[1]), 0.0, float(p_), w_).i[0]) for p_ in P]
                cases += 1
                note('C16.runtime.ray_fan_intensities_are_those_of_its_rays', bool(np.allclose(d['intensity_x'], ix, rtol=1e-12, atol=0)) and bool(np.allclose(d['intensity_y'], iy, rtol=1e-12, atol=0)),
                     'field %s wavelength %s: x fan %s vs %s' % (f, w_, np.round(d['intensity_x'], 3), np.round(ix, 3)), {'lens': par, 'field': list(f), 'wavelength': w_})
        sd = analysis.SpotDiagram(L, num_rings=3, distribution='hexapolar')
        from optiland.distribution import create_distribution
        dist = create_distribution('hexapolar')
        dist.generate_points(3)
        for k_, f in enumerate(L.fields.get_field_coords()):
            for j_, w_ in enumerate(WL):
                ii = [float(L.trace_generic(float(f[0]), float(f[1]), float(px), float(py), w_).i[0]) for px, py in zip(dist.x, dist.y)]
                cases += 1
                note('C16.runtime.spot_diagram_intensities_are_those_of_its_rays', bool(np.allclose(sd.data[k_][j_][2], ii, rtol=1e-12, atol=0)),
                     'field %s wavelength %s: reported %s, traced %s' % (f, w_, np.round(sd.data[k_][j_][2][:4], 4), np.round(ii[:4], 4)), {'lens': par, 'field': list(f), 'wavelength': w_})
    return {'contract': ct.name, 'functions': ct.functions, 'props': ct.props,
            'symbolic': {'clauses': clauses, 'paths': 0, 'errors': [], 'solver_s': 0.0, 'samples': [], 'wd_assumed': [], 'assumed': []},
            'numeric': {'accepted': cases, 'rejected': 0, 'failures': fails[:10], 'concolic_agree': 0, 'encoder_mismatches': [],
                        'samples': [{'lens': 'front stop, obscured and clipped singlet, absorbing glass, coated'}]}, 'wall_s': time.time() - t0}


contract('C16.runtime.analysis_intensities', ['optiland/analysis/ray_fan.py:RayFan._generate_data', 'optiland/analysis/spot_diagram.py:SpotDiagram._generate_field_data'],
         ['C16', 'C12'], custom=_analysis_intensities)(lambda c: None)


# concrete inputs found by the defect-hunting sub-agents (bounded replay, see contracts/hunt.py)
from . import hunt as _hunt  # noqa: E402
_hunt.register('C16')
