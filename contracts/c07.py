"""C07 -- results transform correctly under symmetries and re-descriptions of the lens (relational contracts:
the real code is run twice on related inputs)."""
import math
from pyvc.vc import contract, sharded
from .common import *  # noqa
from .lens import arbitrary_lens, zs
from .c06 import _surface
from .c03 import _lens as _launch_lens

PROPERTY = 'C07'
K_QUICK = 12
K_THOROUGH = 150
SS = 'optiland/surfaces/standard_surface.py'
FUNCS = [SS + ':Surface._trace_real', SS + ':Surface._interact', 'optiland/geometries/standard.py:StandardGeometry.distance',
         'optiland/geometries/standard.py:StandardGeometry.surface_normal', 'optiland/rays/real_rays.py:RealRays.refract',
         'optiland/rays/real_rays.py:RealRays.reflect', 'optiland/coordinate_system.py:CoordinateSystem.localize',
         'optiland/coordinate_system.py:CoordinateSystem.globalize']


def _state(c, rays):
    return pos_of(c, rays) + dir_of(c, rays) + (c.val(rays.opd), c.val(rays.i))


def _mirror_contract(axis, mirror):
    sx, sy = (-1, 1) if axis == 'x' else ((1, -1) if axis == 'y' else (-1, -1))

    @contract('C07.mirror_%s.%s' % (axis, 'reflect' if mirror else 'refract'), FUNCS, ['C07'], bundle=True, numeric_only=True)
    def mir(c):
        R = c.real('R', -60, 60, nonzero=True)
        k = c.real('k', -2, 1)
        n1, n2 = c.real('n1', 1.0, 2.5, positive=True), c.real('n2', 1.0, 2.5, positive=True)
        zv = c.real('z_vertex', 1, 10)
        p = free_point(c)
        d = c.unit3('L', 'M', 'N')
        surf = _surface(c, R, k, n1, n2, z=zv, mirror=mirror)
        r1 = mk_rays(c, p, d)
        surf.trace(r1)
        s1 = _state(c, r1)
        r2 = mk_rays(c, (sx * p[0], sy * p[1], p[2]), (sx * d[0], sy * d[1], d[2]))
        surf.trace(r2)
        s2 = _state(c, r2)
        sig = (sx, sy, 1, sx, sy, 1, 1, 1)
        for a, b, sg in zip(s1, s2, sig):
            c.ensure_eq('C07.mirror.surface_step_is_equivariant', b, sg * a, tol=1e-12)
    return mir


for _ax in ('x', 'y', 'xy'):
    for _m in (False, True):
        _mirror_contract(_ax, _m)


def _kernel_mirror_contract(axis):
    sx, sy = (-1, 1) if axis == 'x' else ((1, -1) if axis == 'y' else (-1, -1))

    @sharded('C07.mirror_%s.kernels' % axis, FUNCS, ['C07'], bits=3, bundle=True, max_paths=800, ieee=True)
    def km(c):
        """every kernel of the surface step commutes with the mirror (x, L) -> (-x, -L) etc.: the step is their composition"""
        geos = c.mod('optiland.geometries')
        CoordinateSystem = c.mod('optiland.coordinate_system').CoordinateSystem
        R = c.real('R', -60, 60, nonzero=True)
        k = c.real('k', -2, 1)
        g = geos.StandardGeometry(CoordinateSystem(), R, k)
        p = free_point(c)
        d = c.unit3('L', 'M', 'N')
        pm = (sx * p[0], sy * p[1], p[2])
        dm = (sx * d[0], sy * d[1], d[2])
        t1 = c.val(g.distance(mk_rays(c, p, d)))
        t2 = c.val(g.distance(mk_rays(c, pm, dm)))
        c.ensure_eq('C07.mirror.kernel.distance_invariant', t2, t1)
    return km


for _ax in ('x', 'y', 'xy'):
    _kernel_mirror_contract(_ax)


def _kernel_mirror_interaction(axis):
    sx, sy = (-1, 1) if axis == 'x' else ((1, -1) if axis == 'y' else (-1, -1))

    @contract('C07.mirror_%s.interaction' % axis, FUNCS, ['C07'], bundle=True, max_paths=64)
    def ki(c):
        geos = c.mod('optiland.geometries')
        CoordinateSystem = c.mod('optiland.coordinate_system').CoordinateSystem
        R = c.real('R', -60, 60, nonzero=True)
        k = c.real('k', -2, 1)
        g = geos.StandardGeometry(CoordinateSystem(), R, k)
        x, y = c.real('x', -3, 3), c.real('y', -3, 3)
        c.require(1 - (1 + k) * (x * x + y * y) / (R * R) > 0)
        na = [c.val(v) for v in g.surface_normal(mk_rays(c, (x, y, 0.0), (0.0, 0.0, 1.0)))]
        nb = [c.val(v) for v in g.surface_normal(mk_rays(c, (sx * x, sy * y, 0.0), (0.0, 0.0, 1.0)))]
        for a, b, sg in zip(na, nb, (sx, sy, 1)):
            c.ensure_eq('C07.mirror.kernel.normal_equivariant', b, sg * a)
        # refraction / reflection with mirrored direction and mirrored normal
        d = c.unit3('L', 'M', 'N')
        n = c.unit3('nx', 'ny', 'nz')
        n1, n2 = c.real('n1', 1.0, 2.5, positive=True), c.real('n2', 1.0, 2.5, positive=True)
        d0 = dot(d, n)
        c.require(d0 != 0)
        c.require(1 - (n1 / n2) ** 2 * (1 - d0 * d0) > 0)
        for kind in ('refract', 'reflect'):
            ra = mk_rays(c, (0.0, 0.0, 0.0), d)
            rb = mk_rays(c, (0.0, 0.0, 0.0), (sx * d[0], sy * d[1], d[2]))
            if kind == 'refract':
                ra.refract(c.arr(n[0]), c.arr(n[1]), c.arr(n[2]), n1, n2)
                rb.refract(c.arr(sx * n[0]), c.arr(sy * n[1]), c.arr(n[2]), n1, n2)
            else:
                ra.reflect(c.arr(n[0]), c.arr(n[1]), c.arr(n[2]))
                rb.reflect(c.arr(sx * n[0]), c.arr(sy * n[1]), c.arr(n[2]))
            for a, b, sg in zip(dir_of(c, ra), dir_of(c, rb), (sx, sy, 1)):
                c.ensure_eq('C07.mirror.kernel.%s_equivariant' % kind, b, sg * a)
    return ki


for _ax in ('x', 'y', 'xy'):
    _kernel_mirror_interaction(_ax)


@contract('C07.mirror.launch', ['optiland/rays/ray_generator.py:RayGenerator.generate_rays', 'optiland/fields.py:FieldGroup.get_vig_factor'],
          ['C07'], bundle=True, max_paths=128)
def mirror_launch(c):
    """mirroring field and pupil about a meridional plane mirrors the launched ray (fields along y carry vignetting factors)"""
    lens, v, apv = _launch_lens(c, False, 'EPD', 'angle')
    Hy, Px, Py = c.real('Hy', -1, 1), c.real('Px', -1, 1), c.real('Py', -1, 1)
    c.require(Px * Px + Py * Py <= 1)
    w = 0.55
    base = lens.ray_generator.generate_rays(0.0, Hy, c.arr(Px), c.arr(Py), w)
    b = pos_of(c, base) + dir_of(c, base)
    for (sx, sy, tag) in ((-1, 1, 'x'), (1, -1, 'y'), (-1, -1, 'xy')):
        r = lens.ray_generator.generate_rays(0.0, sy * Hy, c.arr(sx * Px), c.arr(sy * Py), w)
        s = pos_of(c, r) + dir_of(c, r)
        for a_, b_, sg in zip(b, s, (sx, sy, 1, sx, sy, 1)):
            c.ensure_eq('C07.mirror.launch_is_equivariant', b_, sg * a_)
    vx1, vy1 = lens.fields.get_vig_factor(0.0, Hy)
    vx2, vy2 = lens.fields.get_vig_factor(0.0, -Hy)
    c.ensure_eq('C07.mirror.vignetting_factors_even_in_field', c.val(vx2), c.val(vx1))
    c.ensure_eq('C07.mirror.vignetting_factors_even_in_field', c.val(vy2), c.val(vy1))


@contract('C07.dummy.refraction_between_equal_media', ['optiland/rays/real_rays.py:RealRays.refract'], ['C07'], bundle=True, max_paths=16)
def dummy_refract(c):
    d = c.unit3('L', 'M', 'N')
    n = c.unit3('nx', 'ny', 'nz')
    nn = c.real('n', 1.0, 2.5, positive=True)
    c.require(dot(d, n) != 0)
    r = mk_rays(c, (0.0, 0.0, 0.0), d)
    r.refract(c.arr(n[0]), c.arr(n[1]), c.arr(n[2]), nn, nn)
    k1 = dir_of(c, r)
    sg = 1 if c.decide(dot(d, n) > 0) else -1
    root = c.sqrt(dot(d, n) ** 2)
    A = c.abstract('A', dot(d, n) * sg)
    c.ensure('C07.dummy.sqrt_of_square', root == A, using=[root * root == A * A, root >= 0, A > 0])
    c.require(root == dot(d, n) * sg)
    for i in range(3):
        c.ensure_eq('C07.dummy.direction_unchanged', k1[i], d[i])


@contract('C07.dummy_surface', FUNCS + ['optiland/geometries/plane.py:Plane.distance'], ['C07'], bundle=True, numeric_only=True)
def dummy(c):
    """a plane between equal media changes nothing downstream"""
    surfs = c.mod('optiland.surfaces')
    mats = c.mod('optiland.materials')
    geos = c.mod('optiland.geometries')
    CoordinateSystem = c.mod('optiland.coordinate_system').CoordinateSystem
    n = c.real('n', 1.0, 2.5, positive=True)
    n2 = c.real('n2', 1.0, 2.5, positive=True)
    R, k = c.real('R', -60, 60, nonzero=True), c.real('k', -2, 1)
    zd = c.real('z_dummy', 0.5, 4)
    zv = zd + c.real('gap', 0.5, 6, positive=True)
    p = (c.real('px', -3, 3), c.real('py', -3, 3), 0.0)
    d = c.unit3('L', 'M', 'N', cone=0.7)
    nxt = _surface(c, R, k, n, n2, z=zv)
    dum = surfs.Surface(geos.Plane(CoordinateSystem(z=zd)), mats.IdealMaterial(n, 0.0), mats.IdealMaterial(n, 0.0))
    r1 = mk_rays(c, p, d)
    nxt.trace(r1)
    s1 = _state(c, r1)
    if not c.isfinite(s1[0]):
        return
    if not c.decide(c.val(r1.z) > zd):
        return                      # the ray meets the next surface before the dummy plane: the dummy is not "between" them
    r2 = mk_rays(c, p, d)
    dum.trace(r2)
    nxt.trace(r2)
    s2 = _state(c, r2)
    for a, b in zip(s1, s2):
        c.ensure_eq('C07.dummy.downstream_state_identical', b, a, tol=1e-10)


@contract('C07.wavelength.ideal_media', ['optiland/materials/ideal.py:IdealMaterial.n', 'optiland/materials/ideal.py:IdealMaterial.k'], ['C07'],
          max_paths=8)
def wavelength_media(c):
    mats = c.mod('optiland.materials')
    m = mats.IdealMaterial(c.real('n', 1.0, 2.5, positive=True), c.real('k', 0, 1e-3, nonneg=True))
    w1, w2 = c.real('w1', 0.3, 2, positive=True), c.real('w2', 0.3, 2, positive=True)
    c.ensure_eq('C07.wavelength.ideal_index_ignores_wavelength', m.n(w1), m.n(w2))
    c.ensure_eq('C07.wavelength.ideal_index_ignores_wavelength', m.k(w1), m.k(w2))
    c.ensure_eq('C07.wavelength.ideal_index_ignores_wavelength', c.val(m.n(c.arr(w1))), c.val(m.n(c.arr(w2))))


@contract('C07.wavelength_of_dispersion_free_lens', FUNCS, ['C07'], bundle=True, numeric_only=True)
def wavelength(c):
    R, k = c.real('R', -60, 60, nonzero=True), c.real('k', -2, 1)
    n1, n2 = c.real('n1', 1.0, 2.5, positive=True), c.real('n2', 1.0, 2.5, positive=True)
    surf = _surface(c, R, k, n1, n2, z=c.real('z_vertex', 1, 10))
    p = free_point(c)
    d = c.unit3('L', 'M', 'N')
    w1, w2 = c.real('w1', 0.3, 2, positive=True), c.real('w2', 0.3, 2, positive=True)
    r1 = mk_rays(c, p, d, w=w1)
    surf.trace(r1)
    r2 = mk_rays(c, p, d, w=w2)
    surf.trace(r2)
    for a, b in zip(_state(c, r1), _state(c, r2)):
        c.ensure_eq('C07.wavelength.surface_step_ignores_it', b, a, tol=0)


@contract('C07.wavelength.kernels', FUNCS, ['C07'], bundle=True, max_paths=256, concolic=False)
def wavelength_kernels(c):
    """the geometry kernels do not look at the wavelength of the rays: same distance, same normal for two wavelengths"""
    geos = c.mod('optiland.geometries')
    CoordinateSystem = c.mod('optiland.coordinate_system').CoordinateSystem
    R, k = c.real('R', -60, 60, nonzero=True), c.real('k', -2, 1)
    g = geos.StandardGeometry(CoordinateSystem(), R, k)
    p, d = free_point(c), c.unit3('L', 'M', 'N')
    w1, w2 = c.real('w1', 0.3, 2, positive=True), c.real('w2', 0.3, 2, positive=True)
    t1, t2 = g.distance(mk_rays(c, p, d, w=w1)), g.distance(mk_rays(c, p, d, w=w2))
    c.ensure_eq('C07.wavelength.kernel.distance_ignores_it', c.val(t2), c.val(t1))
    x, y = c.real('x', -3, 3), c.real('y', -3, 3)
    c.require(1 - (1 + k) * (x * x + y * y) / (R * R) > 0)
    n1 = g.surface_normal(mk_rays(c, (x, y, 0.0), d, w=w1))
    n2 = g.surface_normal(mk_rays(c, (x, y, 0.0), d, w=w2))
    for a, b in zip(n1, n2):
        c.ensure_eq('C07.wavelength.kernel.normal_ignores_it', c.val(b), c.val(a))
    pl = geos.Plane(CoordinateSystem())
    c.require(d[2] != 0)
    c.ensure_eq('C07.wavelength.kernel.distance_ignores_it', c.val(pl.distance(mk_rays(c, p, d, w=w2))), c.val(pl.distance(mk_rays(c, p, d, w=w1))))


def _scale_contract(finite):
    @contract('C07.scale_system.' + ('finite' if finite else 'infinite'), ['optiland/optic.py:Optic.scale_system', 'optiland/optic.py:Optic.set_thickness',
                                                                         'optiland/optic.py:Optic.set_radius',
                                                                         'optiland/physical_apertures.py:RadialAperture.scale'], ['C07'], max_paths=64)
    def sc(c):
        lens, v = arbitrary_lens(c, 4, stop=1, finite_object=finite, plane=(3,))
        lens.set_aperture('EPD', c.real('EPD', 1, 8, positive=True))
        ap = c.mod('optiland.physical_apertures').RadialAperture(c.real('r_max', 2, 9, positive=True), c.real('r_min', 0, 1, nonneg=True))
        lens.surface_group.surfaces[2].aperture = ap
        rmax0, rmin0, epd0 = ap.r_max, ap.r_min, lens.aperture.value
        lens.set_field_type('angle')
        lens.add_field(y=c.real('fy', 1, 20, positive=True))
        fy0 = lens.fields.fields[0].y
        s = c.real('scale', 0.01, 100, positive=True)
        z0 = list(v['z'])
        lens.scale_system(s)
        z1 = zs(c, lens)
        sg = lens.surface_group
        for j in range(3):
            if j == 0 and not finite:
                continue
            c.ensure_eq('C07.scale.every_thickness_scaled', z1[j + 1] - z1[j], s * (z0[j + 1] - z0[j]))
        if not finite:
            c.ensure('C07.scale.infinite_object_stays_infinite', c.isinf(z1[0]))
        for j in (1, 2):
            c.ensure_eq('C07.scale.radii_scaled', c.val(sg.radii[j]), s * v['R'][j])
            c.ensure_eq('C07.scale.conics_unchanged', c.val(sg.conic[j]), v['k'][j])
        c.ensure('C07.scale.planes_stay_planes', c.isinf(c.val(sg.radii[3])) if c.symbolic else math.isinf(float(sg.radii[3])))
        c.ensure_eq('C07.scale.entrance_pupil_diameter_scaled', lens.aperture.value, s * epd0)
        c.ensure_eq('C07.scale.physical_apertures_scaled', ap.r_max, s * rmax0)
        c.ensure_eq('C07.scale.physical_apertures_scaled', ap.r_min, s * rmin0)
        # ... and the scaled aperture is the one that clips (not a limit remembered from before the scaling)
        px, py = c.real('probe_x', -8, 8), c.real('probe_y', -8, 8)
        probe = mk_rays(c, (px, py, 0.0), (0.0, 0.0, 1.0))
        ap.clip(probe)
        r2 = px * px + py * py
        inside = c.decide(r2 <= (s * rmax0) ** 2) and c.decide(r2 >= (s * rmin0) ** 2)
        c.ensure_eq('C07.scale.scaled_aperture_is_the_one_that_clips', c.val(probe.i), 1.0 if inside else 0.0)
        c.ensure_eq('C07.scale.angular_fields_unchanged', lens.fields.fields[0].y, fy0)
        for j in range(4):
            c.ensure_eq('C07.scale.indices_unchanged', lens.surface_group.surfaces[j].material_post.n(0.55), v['n'][j])
    return sc


_scale_contract(True)
_scale_contract(False)


@contract('C07.homogeneity', FUNCS, ['C07'], bundle=True, numeric_only=True)
def homogeneity(c):
    """multiplying every length by s multiplies positions and paths by s and leaves direction cosines unchanged (surface step)"""
    R, k = c.real('R', -60, 60, nonzero=True), c.real('k', -2, 1)
    n1, n2 = c.real('n1', 1.0, 2.5, positive=True), c.real('n2', 1.0, 2.5, positive=True)
    zv = c.real('z_vertex', 1, 10)
    s = c.real('scale', 0.01, 100, positive=True, sample=lambda rng: 10 ** rng.uniform(-2, 2))
    p = free_point(c)
    d = c.unit3('L', 'M', 'N', cone=0.5)
    for mirror in (False, True):
        a = _surface(c, R, k, n1, n2, z=zv, mirror=mirror)
        b = _surface(c, s * R, k, n1, n2, z=s * zv, mirror=mirror)
        r1 = mk_rays(c, p, d)
        a.trace(r1)
        r2 = mk_rays(c, tuple(s * v for v in p), d)
        b.trace(r2)
        s1, s2 = _state(c, r1), _state(c, r2)
        if not c.isfinite(s1[0]):
            c.ensure('C07.homogeneity.failed_rays_fail_in_the_scaled_copy', not c.isfinite(s2[0]))
            continue
        for i in (0, 1, 2, 6):
            c.ensure_eq('C07.homogeneity.lengths_scale', s2[i], s * s1[i], tol=1e-9)
        for i in (3, 4, 5):
            c.ensure_eq('C07.homogeneity.directions_unchanged', s2[i], s1[i], tol=1e-9)


def _tilt_centre(axes):
    @contract('C07.tilt_about_centre_of_curvature' + ('' if axes == 'x' else '.' + axes), FUNCS +
              ['optiland/coordinate_system.py:CoordinateSystem.localize', 'optiland/coordinate_system.py:CoordinateSystem.globalize'],
              ['C07'], bundle=True, numeric_only=True)
    def tilt_centre(c):
        """a sphere tilted about its own centre of curvature (about x, about y, about both, and with a spin about its axis) is the
        same sphere: the surface step gives the same global ray"""
        R = c.real('R', -60, 60, nonzero=True, sample=lambda rng: rng.choice([-1, 1]) * rng.uniform(15, 60))
        n1, n2 = c.real('n1', 1.0, 2.5, positive=True), c.real('n2', 1.0, 2.5, positive=True)
        a = c.real('theta_x', -0.3, 0.3) if 'x' in axes else 0.0
        b_ = c.real('theta_y', -0.3, 0.3) if 'y' in axes else 0.0
        g = c.real('theta_z', -1.0, 1.0) if 'z' in axes else 0.0
        zv = c.real('z_vertex', 1, 10)
        surfs = c.mod('optiland.surfaces')
        mats = c.mod('optiland.materials')
        geos = c.mod('optiland.geometries')
        CoordinateSystem = c.mod('optiland.coordinate_system').CoordinateSystem
        s0 = _surface(c, R, 0.0, n1, n2, z=zv)
        # the vertex is moved so that the centre (0, 0, zv + R) stays: local (0, 0, R) -> Rx(a) Ry(b) Rz(g) (0, 0, R)
        #   = (R sin b, -R cos b sin a, R cos b cos a)     (right-handed rotations, applied z first, x last)
        cs = CoordinateSystem(x=-R * c.sin(b_), y=R * c.cos(b_) * c.sin(a), z=zv + R - R * c.cos(b_) * c.cos(a), rx=a, ry=b_, rz=g)
        s1_ = surfs.Surface(geos.StandardGeometry(cs, R, 0.0), mats.IdealMaterial(n1, 0.0), mats.IdealMaterial(n2, 0.0))
        p = (c.real('px', -2, 2), c.real('py', -2, 2), 0.0)
        d = c.unit3('L', 'M', 'N', cone=0.9)
        r1 = mk_rays(c, p, d)
        s0.trace(r1)
        r2 = mk_rays(c, p, d)
        s1_.trace(r2)
        st1, st2 = _state(c, r1), _state(c, r2)
        if c.isfinite(st1[0]) and c.isfinite(st2[0]):
            for i in range(8):
                c.ensure_eq('C07.tilt.same_rays_after_tilting_about_the_centre_of_curvature', st2[i], st1[i], tol=1e-9)
    return tilt_centre


for _ax in ('x', 'y', 'xy', 'xyz'):
    _tilt_centre(_ax)


# ---- the surface step, by composition with the kernel contracts above ------------------------------------------------------
# The kernels' contracts (C07.mirror.kernel.*, C02) say: under the mirror the geometry reports the same distance and the
# mirrored normal; under a scaling by s it reports s times the distance and the same normal.  An abstract geometry that returns
# exactly that, for *arbitrary* distance and unit normal, is traced by the real Surface._trace_real twice; the two results must
# be related by the same symmetry -- for all inputs, no sampling.
def _step_by_contract(kind, mirror):
    from .c02 import _abstract_geometry
    tag = '%s.%s' % (kind, 'reflect' if mirror else 'refract')

    @contract('C07.surface_step.by_contract.' + tag, FUNCS, ['C07'], bundle=True, max_paths=64)
    def sb(c):
        surfs, mats = c.mod('optiland.surfaces'), c.mod('optiland.materials')
        CoordinateSystem = c.mod('optiland.coordinate_system').CoordinateSystem
        n1, n2 = c.real('n1', 1.0, 2.5, positive=True), c.real('n2', 1.0, 2.5, positive=True)
        zv = c.real('z_vertex', 1, 10)
        t = c.real('t', 0.5, 20, positive=True)
        nrm = c.unit3('nx', 'ny', 'nz')
        p, d = free_point(c), c.unit3('L', 'M', 'N')
        d0 = dot(d, nrm)
        c.require(d0 != 0)
        if not mirror:
            c.require(1 - (n1 / n2) ** 2 * (1 - d0 * d0) > 0)
        w_a = w_b = 0.55
        if kind == 'wavelength':
            # dispersion-free media; the kernels' contract (C07.wavelength.kernels) says distance and normal ignore the wavelength
            w_a, w_b = c.real('w1', 0.3, 2, positive=True), c.real('w2', 0.3, 2, positive=True)
            map_p = map_d = lambda v: v
            t2, n2v, z2 = t, nrm, zv
            sig = (1, 1, 1, 1, 1, 1)
        elif kind == 'scale':
            s = c.real('scale', 0.2, 5, positive=True)
            map_p = lambda v: tuple(s * x for x in v)
            map_d = lambda v: v
            t2, n2v, z2 = s * t, nrm, s * zv
            sig = (s, s, s, 1, 1, 1)
        else:
            sx, sy = {'mirror_x': (-1, 1), 'mirror_y': (1, -1), 'mirror_xy': (-1, -1)}[kind]
            map_p = lambda v: (sx * v[0], sy * v[1], v[2])
            map_d = map_p
            t2, n2v, z2 = t, map_p(nrm), zv
            sig = (sx, sy, 1, sx, sy, 1)

        def run(pp, dd, tt, nn, zz, ww):
            geo = _abstract_geometry(c, CoordinateSystem(z=zz), tt, nn)
            surf = surfs.Surface(geo, mats.IdealMaterial(n1, 0.0), mats.IdealMaterial(n2, 0.0), is_reflective=mirror)
            r = mk_rays(c, pp, dd, w=ww)
            surf.trace(r)
            return pos_of(c, r) + dir_of(c, r), c.val(r.opd), c.val(r.i)
        (s1, o1, i1) = run(p, d, t, nrm, zv, w_a)
        (s2, o2, i2) = run(map_p(p), map_d(d), t2, n2v, z2, w_b)
        for a, b, sg in zip(s1, s2, sig):
            c.ensure_eq('C07.surface_step.by_contract.%s' % ('lengths_scale_directions_unchanged' if kind == 'scale' else
                                                             'ignores_the_wavelength_of_a_dispersion_free_lens' if kind == 'wavelength' else
                                                             'is_equivariant_under_the_mirror'), b, sg * a)
        c.ensure_eq('C07.surface_step.by_contract.optical_path_%s' % ('scales' if kind == 'scale' else 'unchanged'), o2, (sig[0] if kind == 'scale' else 1) * o1)
        c.ensure_eq('C07.surface_step.by_contract.intensity_unchanged', i2, i1)
    return sb


for _kind in ('mirror_x', 'mirror_y', 'mirror_xy', 'scale', 'wavelength'):
    for _m in (False, True):
        _step_by_contract(_kind, _m)


# (StandardGeometry.distance under scaling -- t(s p, d; s R, k) = s t(p, d; R, k) -- is not under a symbolic contract: the two
# runs fork independently on large polynomials and the exploration does not finish; it is covered by the bounded
# C07.homogeneity contract on the real code.  The normal and the Plane distance are proved below.)


@contract('C07.scale.kernels.normal', FUNCS, ['C07'], bundle=True, max_paths=64, sqrt_factor=True, concolic=False)
def scale_normal(c):
    geos = c.mod('optiland.geometries')
    CoordinateSystem = c.mod('optiland.coordinate_system').CoordinateSystem
    R = c.real('R', -60, 60, nonzero=True)
    k = c.real('k', -2, 1)
    s = c.real('scale', 0.2, 5, positive=True)
    x, y = c.real('x', -3, 3), c.real('y', -3, 3)
    c.require(1 - (1 + k) * (x * x + y * y) / (R * R) > 0)
    n1 = geos.StandardGeometry(CoordinateSystem(), R, k).surface_normal(mk_rays(c, (x, y, 0.0), (0.0, 0.0, 1.0)))
    n2 = geos.StandardGeometry(CoordinateSystem(), s * R, k).surface_normal(mk_rays(c, (s * x, s * y, 0.0), (0.0, 0.0, 1.0)))
    for a, b in zip(n1, n2):
        c.ensure_eq('C07.scale.kernel.normal_unchanged', c.val(b), c.val(a))
    pl = geos.Plane(CoordinateSystem())
    p, d = free_point(c), c.unit3('L', 'M', 'N')
    c.require(d[2] != 0)
    c.ensure_eq('C07.scale.kernel.plane_distance_scales', c.val(pl.distance(mk_rays(c, tuple(s * v for v in p), d))), s * c.val(pl.distance(mk_rays(c, p, d))))


def _dummy_paraxial(ct, tier, seed):
    """bounded: a dummy plane (same medium on both sides) inserted in any gap -- the object gap included -- changes no paraxial
    quantity: marginal and chief rays at the original surfaces, invariant, focal length, Seidel sums"""
    import random
    import time
    import warnings
    import numpy as np
    from optiland.optic import Optic
    from optiland.materials import IdealMaterial
    warnings.simplefilter('ignore')
    np.seterr(all='ignore')
    t0 = time.time()
    rng = random.Random(seed * 61 + 15)
    clauses, fails, cases = {}, [], 0

    def note(cid, ok, detail, inputs):
        c_ = clauses.setdefault(cid, {'paths': 0, 'proved': 0, 'backends': {}, 'failed': [], 'seconds': 0.0, 'bounded': True})
        c_['paths'] += 1
        if ok:
            c_['proved'] += 1
            c_['backends']['runtime'] = c_['backends'].get('runtime', 0) + 1
        else:
            fails.append({'clause': cid, 'draws': inputs, 'note': detail})
    for i in range(2 if tier == 'quick' else 10):
        finite = True if i % 2 == 0 else False
        par = dict(T0=rng.uniform(80, 200), R1=rng.uniform(30, 80), R2=-rng.uniform(30, 80), R3=rng.uniform(40, 90), R4=-rng.uniform(40, 90),
                   n1=rng.uniform(1.5, 1.7), n2=rng.uniform(1.5, 1.7), t=[rng.uniform(3, 6), rng.uniform(4, 12), rng.uniform(3, 6), rng.uniform(30, 60)])
        gaps = [(par['T0'] if finite else np.inf)] + par['t']
        mats = ['air', IdealMaterial(par['n1']), 'air', IdealMaterial(par['n2']), 'air']
        radii = [np.inf, par['R1'], par['R2'], par['R3'], par['R4']]

        def build(split_gap=None, frac=0.5):
            L = Optic()
            idx = 0
            orig = []
            for g in range(5):
                kw = dict(radius=radii[g], material=mats[g], is_stop=(g == 3))
                thick = gaps[g]
                if split_gap == g and np.isfinite(thick):
                    L.add_surface(index=idx, thickness=thick * frac, **kw)
                    orig.append(idx)
                    idx += 1
                    L.add_surface(index=idx, radius=np.inf, thickness=thick * (1 - frac), material=mats[g])      # the dummy
                    idx += 1
                else:
                    L.add_surface(index=idx, thickness=thick, **kw)
                    orig.append(idx)
                    idx += 1
            L.add_surface(index=idx)
            orig.append(idx)
            L.set_aperture('EPD', 6.0)
            if finite:
                L.set_field_type('object_height')
                L.add_field(y=0.0)
                L.add_field(y=4.0)
            else:
                L.set_field_type('angle')
                L.add_field(y=0.0)
                L.add_field(y=5.0)
            L.add_wavelength(0.55, is_primary=True)
            return L, orig
        base, ob = build()
        ya0, ua0 = base.paraxial.marginal_ray()
        yb0, ub0 = base.paraxial.chief_ray()
        ref = dict(f2=float(base.paraxial.f2()), inv=float(base.paraxial.invariant()), seidel=np.array(base.aberrations.seidels(), dtype=float))
        for g in range(5):
            if not np.isfinite(gaps[g]):
                continue
            L, oi = build(split_gap=g, frac=rng.uniform(0.2, 0.8))
            ya, ua = L.paraxial.marginal_ray()
            yb, ub = L.paraxial.chief_ray()
            inputs = {'lens': {k_: (v_ if not isinstance(v_, list) else list(v_)) for k_, v_ in par.items()}, 'finite_object': finite, 'dummy_in_gap': g}
            cases += 1
            sel = oi[1:]
            selb = ob[1:]
            ok_rays = bool(np.allclose(ya[sel, 0], ya0[selb, 0], rtol=1e-9, atol=1e-9)) and bool(np.allclose(yb[sel, 0], yb0[selb, 0], rtol=1e-9, atol=1e-9)) \
                and bool(np.allclose(ub[sel, 0], ub0[selb, 0], rtol=1e-9, atol=1e-9))
            note('C07.runtime.dummy_plane_leaves_paraxial_rays_at_the_original_surfaces', ok_rays,
                 'gap %d: chief heights %s vs %s' % (g, np.round(yb[sel, 0], 5), np.round(yb0[selb, 0], 5)), inputs)
            note('C07.runtime.dummy_plane_leaves_focal_length_and_invariant', bool(np.isclose(float(L.paraxial.f2()), ref['f2'], rtol=1e-9)) and
                 bool(np.isclose(float(L.paraxial.invariant()), ref['inv'], rtol=1e-9, atol=1e-12)), 'gap %d' % g, inputs)
            note('C07.runtime.dummy_plane_leaves_seidel_sums', bool(np.allclose(np.array(L.aberrations.seidels(), dtype=float), ref['seidel'], rtol=1e-7, atol=1e-10)),
                 'gap %d: %s vs %s' % (g, np.array(L.aberrations.seidels(), dtype=float), ref['seidel']), inputs)
    return {'contract': ct.name, 'functions': ct.functions, 'props': ct.props,
            'symbolic': {'clauses': clauses, 'paths': 0, 'errors': [], 'solver_s': 0.0, 'samples': [], 'wd_assumed': [], 'assumed': []},
            'numeric': {'accepted': cases, 'rejected': 0, 'failures': fails[:10], 'concolic_agree': 0, 'encoder_mismatches': [],
                        'samples': [{'lens': 'two air-spaced singlets, stop on the third surface'}]}, 'wall_s': time.time() - t0}


contract('C07.runtime.dummy_paraxial', ['optiland/paraxial.py:Paraxial.chief_ray', 'optiland/paraxial.py:Paraxial.marginal_ray', 'optiland/paraxial.py:Paraxial.invariant',
                                        'optiland/aberrations.py:Aberrations.seidels'], ['C07'], custom=_dummy_paraxial)(lambda c: None)


# concrete inputs found by the defect-hunting sub-agents (bounded replay, see contracts/hunt.py)
from . import hunt as _hunt  # noqa: E402
_hunt.register('C07')
