"""helpers shared by the sidecar contracts (mode-polymorphic: Sym in proofs, floats at run time)"""
from pyvc import sym as S
from pyvc.sym import implies, s_and, s_or, s_not  # noqa: F401

RR = 'optiland/rays/real_rays.py'
CS = 'optiland/coordinate_system.py'


def dot(a, b):
    return a[0] * b[0] + a[1] * b[1] + a[2] * b[2]


def cross(a, b):
    return (a[1] * b[2] - a[2] * b[1], a[2] * b[0] - a[0] * b[2], a[0] * b[1] - a[1] * b[0])


def norm2(a):
    return dot(a, a)


def mk_rays(c, pos, direc, intensity=1.0, w=0.55):
    RealRays = c.mod('optiland.rays.real_rays').RealRays
    x, y, z = pos
    L, M, N = direc
    return RealRays(c.arr(x), c.arr(y), c.arr(z), c.arr(L), c.arr(M), c.arr(N), c.arr(intensity), c.arr(w))


def pos_of(c, rays):
    return (c.val(rays.x), c.val(rays.y), c.val(rays.z))


def dir_of(c, rays):
    return (c.val(rays.L), c.val(rays.M), c.val(rays.N))


def free_point(c, p='p'):
    return (c.real(p + 'x', -3, 3), c.real(p + 'y', -3, 3), c.real(p + 'z', -3, 3))


def lt(a, b):
    """a < b as a condition in every mode"""
    return a < b


def nonfinite(c, v):
    return not c.isfinite(v)



class StubInterfaceExceeded(Exception):
    """the code under contract used a part of its environment that a contract's modular stand-in (a stub of the optic) does not
    provide: the contract is *undecided* for that code (exit 2) -- the stand-in is an assumption about what the code reads, not a
    requirement on it"""


class StubBase:
    """base class of stand-in objects: a missing attribute is an exceeded interface, not an AttributeError of the library"""
    def __getattr__(self, name):
        raise StubInterfaceExceeded('the code under contract reads %s.%s, which this modular stand-in does not model' % (type(self).__name__, name))
