"""C09 -- reported OPD is the path difference to the chief-ray reference sphere."""
import math
import random
import time

import numpy as np

from pyvc.vc import contract
from pyvc import twin
from .common import *  # noqa
from . import rt

PROPERTY = 'C09'
K_QUICK = 12
K_THOROUGH = 150
WF = 'optiland/wavefront.py'
KNOWN = {}


class _SG:
    """image-space records of the last trace (what SurfaceGroup.x/y/z/L/M/N/opd/intensity return): the
    modular stand-in for the trace, whose own contract is C02"""
    def __getattr__(self, name):
        raise StubInterfaceExceeded('the wavefront code reads SurfaceGroup.%s, which this modular stand-in does not model' % name)


def _stub_optic(c, recs, field_type='object_height', xpl=None, pos_last=None, epd=None, maxfield=(0.0, 0.0)):
    class Par:
        def XPL(self):
            return xpl() if callable(xpl) else xpl

        def EPD(self):
            return epd

    class Fld:
        max_x_field, max_y_field = maxfield
        max_field = maxfield[1]

        def get_field_coords(self):
            return [(0.0, 1.0)]

    class Wl:
        def get_wavelengths(self):
            return [0.55]

    class Opt:
        def __getattr__(self, name):          # only reached for attributes the stand-in does not define
            raise StubInterfaceExceeded('the wavefront code reads Optic.%s, which this modular stand-in does not model' % name)
    o = Opt()
    o.paraxial, o.fields, o.wavelengths, o.field_type = Par(), Fld(), Wl(), field_type
    o.primary_wavelength = 0.55
    sg = _SG()
    o.surface_group = sg
    o.calls = []

    def setrec(r):
        for k in ('x', 'y', 'z', 'L', 'M', 'N', 'opd', 'intensity'):
            setattr(sg, k, c.np.array([r[k]]) if not c.symbolic else _row(c, r[k]))
    sg.positions = c.np.array([[0.0], [pos_last if pos_last is not None else 0.0]]) if not c.symbolic else _col(c, [0.0, pos_last if pos_last is not None else 0.0])

    def trace_generic(Hx, Hy, Px=None, Py=None, wavelength=None):
        o.calls.append(('trace_generic', Hx, Hy, Px, Py, wavelength))
        setrec(recs['chief'](Hx, Hy, wavelength))

    def trace(Hx, Hy, wavelength, num_rays=None, distribution=None):
        o.calls.append(('trace', Hx, Hy, wavelength))
        setrec(recs['bundle'](Hx, Hy, wavelength))
    o.trace_generic, o.trace = trace_generic, trace
    return o


def _row(c, vals):
    import numpy as _np
    r = _np.empty((1, len(vals)), dtype=object)
    for i, v in enumerate(vals):
        r[0, i] = v
    from pyvc import symnp
    return symnp.wrap(r)


def _col(c, vals):
    import numpy as _np
    r = _np.empty((len(vals), 1), dtype=object)
    for i, v in enumerate(vals):
        r[i, 0] = v
    from pyvc import symnp
    return symnp.wrap(r)


def _ray(c, tag, nrays=1):
    """image-surface record of nrays rays: point, unit direction (towards +z), opd, intensity"""
    rec = {k: [] for k in ('x', 'y', 'z', 'L', 'M', 'N', 'opd', 'intensity')}
    for i in range(nrays):
        rec['x'].append(c.real('%sx%d' % (tag, i), -1, 1))
        rec['y'].append(c.real('%sy%d' % (tag, i), -1, 1))
        rec['z'].append(c.real('%sz%d' % (tag, i), 99, 101))
        L, M, N = c.unit3('%sL%d' % (tag, i), '%sM%d' % (tag, i), '%sN%d' % (tag, i), cone=0.9)
        rec['L'].append(L)
        rec['M'].append(M)
        rec['N'].append(N)
        rec['opd'].append(c.real('%sopd%d' % (tag, i), 100, 130))
        rec['intensity'].append(1.0)
    return rec


@contract('C09.reference_sphere', [WF + ':Wavefront._get_reference_sphere', WF + ':Wavefront._opd_image_to_xp',
                                   WF + ':Wavefront._get_path_length'], ['C09'], bundle=False, max_paths=32)
def reference_sphere(c):
    W = c.mod('optiland.wavefront')
    chief = _ray(c, 'c')
    ray = _ray(c, 'r')
    pupil_z = c.real('pupil_z', 20, 60)
    opt = _stub_optic(c, {'chief': lambda *a: chief, 'bundle': lambda *a: ray})
    w = object.__new__(W.Wavefront)
    w.optic = opt
    opt.trace_generic(0.0, 1.0, 0.0, 0.0, 0.55)
    xc, yc, zc, R = w._get_reference_sphere(pupil_z)
    C = (c.val(xc), c.val(yc), c.val(zc))
    c.ensure_eq('C09.sphere.centre_is_chief_ray_image_point', C[0], chief['x'][0])
    c.ensure_eq('C09.sphere.centre_is_chief_ray_image_point', C[1], chief['y'][0])
    c.ensure_eq('C09.sphere.centre_is_chief_ray_image_point', C[2], chief['z'][0])
    Rv = c.val(R)
    c.ensure_eq('C09.sphere.radius_reaches_axial_point_of_exit_pupil', Rv * Rv, C[0] ** 2 + C[1] ** 2 + (C[2] - pupil_z) ** 2)
    # a ray of the bundle: its path is measured to the point where the ray line meets that sphere
    opt.trace(0.0, 1.0, 0.55)
    t = c.val(w._opd_image_to_xp(xc, yc, zc, R))
    P = (ray['x'][0], ray['y'][0], ray['z'][0])
    D = (ray['L'][0], ray['M'][0], ray['N'][0])
    Q = tuple(P[i] - t * D[i] for i in range(3))
    c.ensure_eq('C09.sphere.path_ends_on_reference_sphere', norm2(tuple(Q[i] - C[i] for i in range(3))), Rv * Rv)
    pl = c.val(w._get_path_length(xc, yc, zc, R))
    c.ensure_eq('C09.path.image_path_minus_distance_back_to_sphere', pl, ray['opd'][0] - t)
    # the chief ray alone: more than one ray in the record is refused
    two = _ray(c, 'd', 2)
    opt2 = _stub_optic(c, {'chief': lambda *a: two, 'bundle': lambda *a: two})
    w2 = object.__new__(W.Wavefront)
    w2.optic = opt2
    opt2.trace_generic(0.0, 1.0, 0.0, 0.0, 0.55)
    with c.raises('C09.sphere.chief_ray_must_be_traced_alone', ValueError):
        w2._get_reference_sphere(pupil_z)


def _data_contract(field_type):
    @contract('C09.generate_data.' + field_type, [WF + ':Wavefront._generate_data', WF + ':Wavefront._generate_field_data',
                                                  WF + ':Wavefront._trace_chief_ray', WF + ':Wavefront._correct_tilt',
                                                  WF + ':Wavefront.__init__'], ['C09'], max_paths=64)
    def gd(c):
        W = c.mod('optiland.wavefront')
        D = c.mod('optiland.distribution')
        wls = [c.real('wl0', 0.4, 0.5, positive=True), c.real('wl1', 0.55, 0.7, positive=True)]
        chiefs = {0: _ray(c, 'ca'), 1: _ray(c, 'cb')}
        rays = {0: _ray(c, 'ra'), 1: _ray(c, 'rb')}

        def which(wl):
            return 0 if wl is wls[0] or (not hasattr(wl, 'e') and wl == wls[0]) or (hasattr(wl, 'e') and wl.e == getattr(wls[0], 'e', None)) else 1
        xpl_values = [c.real('xpl_first', -60, -20), c.real('xpl_second', -60, -20)]
        counter = {'n': 0}

        def xpl():
            return xpl_values[min(counter['n'], 1)]
        epd = c.real('EPD', 1, 8, positive=True)
        fy = c.real('max_y_field', 1, 20, positive=True)
        opt = _stub_optic(c, {'chief': lambda Hx, Hy, wl: chiefs[which(wl)], 'bundle': lambda Hx, Hy, wl: rays[which(wl)]},
                          field_type=field_type, xpl=xpl, pos_last=c.real('z_image', 99, 101), epd=epd, maxfield=(0.0, fy))
        dist = D.create_distribution('line_y')
        Py = c.real('Py', -1, 1)
        dist.x, dist.y = c.arr(0.0), c.arr(Py)
        Hy = c.real('Hy', -1, 1)

        def expected(j, xpl_v):
            ch, ry = chiefs[j], rays[j]
            C = (ch['x'][0], ch['y'][0], ch['z'][0])
            pz = xpl_v + c.val(opt.surface_group.positions[-1])
            R2 = C[0] ** 2 + C[1] ** 2 + (C[2] - pz) ** 2

            def path(rec):
                P = (rec['x'][0], rec['y'][0], rec['z'][0])
                Dd = (rec['L'][0], rec['M'][0], rec['N'][0])
                # distance back along the ray to the sphere: root of t^2 - b t + cc = 0 chosen as in the statement (nearest forward)
                b = 2 * dot(Dd, tuple(P[i] - C[i] for i in range(3)))
                cc = norm2(tuple(P[i] - C[i] for i in range(3))) - R2
                return rec['opd'][0], b, cc
            return path(ch), path(ry), R2
        wobj = W.Wavefront(opt, fields=[(0.0, Hy)], wavelengths=wls, num_rays=1, distribution=dist)
        for j in range(2):
            val = c.val(wobj.data[0][j][0])
            (o_c, b_c, cc_c), (o_r, b_r, cc_r), R2 = expected(j, xpl_values[0])
            # t solves t^2 - b t + cc = 0 (a = 1); reported OPD = ((o_c - t_c - tilt_c) - (o_r - t_r - tilt_r)) / (wl * 1e-3)
            Tc = c.abstract('Tc%d' % j, o_c - 0 * o_c)
            opd_times = val * wls[j] * c.const(1e-3)
            if field_type == 'angle':
                th = fy * Hy * c.pi / 180
                tilt_c = (1 - 0) * c.sin(th) * epd / 2
                tilt_r = (1 - Py) * c.sin(th) * epd / 2
            else:
                tilt_c = tilt_r = 0
            t_c = (o_c - tilt_c) - (o_r - tilt_r) - opd_times      # = t_c - t_r according to the code
            c.observe('delta_t_%d' % j, t_c)
        # exact re-computation through the library's own helper on the same records (per wavelength sphere!)
        for j in range(2):
            w2 = object.__new__(W.Wavefront)
            w2.optic = opt
            w2.distribution = dist
            opt.trace_generic(0.0, Hy, 0.0, 0.0, wls[j])
            pz = xpl_values[0] + c.val(opt.surface_group.positions[-1])
            xc, yc, zc, R = w2._get_reference_sphere(pz)
            ref = w2._correct_tilt((0.0, Hy), w2._get_path_length(xc, yc, zc, R), x=0, y=0)
            opt.trace(0.0, Hy, wls[j])
            ray_ = w2._correct_tilt((0.0, Hy), w2._get_path_length(xc, yc, zc, R))
            c.ensure_eq('C09.data.opd_is_reference_minus_ray_over_wavelength_with_sphere_of_that_field_and_wavelength',
                        c.val(wobj.data[0][j][0]), (c.val(ref) - c.val(ray_)) / (wls[j] * c.const(1e-3)))
        # the chief ray is traced alone, once per (field, wavelength), before the bundle of that wavelength
        kinds = [x[0] for x in opt.calls[:4]]
        c.ensure('C09.data.chief_ray_traced_per_field_and_wavelength', kinds == ['trace_generic', 'trace', 'trace_generic', 'trace'])
        # a second analysis sees the exit pupil as it is then (nothing remembered)
        counter['n'] = 1
        wobj2 = W.Wavefront(opt, fields=[(0.0, Hy)], wavelengths=wls[:1], num_rays=1, distribution=dist)
        w3 = object.__new__(W.Wavefront)
        w3.optic, w3.distribution = opt, dist
        opt.trace_generic(0.0, Hy, 0.0, 0.0, wls[0])
        pz2 = xpl_values[1] + c.val(opt.surface_group.positions[-1])
        xc, yc, zc, R = w3._get_reference_sphere(pz2)
        ref = w3._correct_tilt((0.0, Hy), w3._get_path_length(xc, yc, zc, R), x=0, y=0)
        opt.trace(0.0, Hy, wls[0])
        ray_ = w3._correct_tilt((0.0, Hy), w3._get_path_length(xc, yc, zc, R))
        c.ensure_eq('C09.data.second_analysis_uses_current_exit_pupil', c.val(wobj2.data[0][0][0]),
                    (c.val(ref) - c.val(ray_)) / (wls[0] * c.const(1e-3)))
    return gd


_data_contract('object_height')
_data_contract('angle')


@contract('C09.chief_ray_zero', [WF + ':Wavefront._generate_field_data', WF + ':Wavefront._generate_data'], ['C09'], max_paths=32)
def chief_zero(c):
    """the pupil sample (0, 0) goes through the same computation as the reference trace: exactly 0"""
    W = c.mod('optiland.wavefront')
    D = c.mod('optiland.distribution')
    ch = _ray(c, 'c')
    opt = _stub_optic(c, {'chief': lambda *a: ch, 'bundle': lambda *a: ch}, field_type='angle', xpl=c.real('xpl', -60, -20),
                      pos_last=c.real('z_image', 99, 101), epd=c.real('EPD', 1, 8, positive=True), maxfield=(0.0, c.real('fy', 1, 20, positive=True)))
    dist = D.create_distribution('line_y')
    dist.x, dist.y = c.arr(0.0), c.arr(0.0)
    wobj = W.Wavefront(opt, fields=[(0.0, c.real('Hy', -1, 1))], wavelengths=[c.real('wl', 0.4, 0.7, positive=True)], num_rays=1, distribution=dist)
    c.ensure_eq('C09.data.chief_ray_opd_is_exactly_zero', c.val(wobj.data[0][0][0]), 0)


@contract('C09.reductions', [WF + ':OPD.rms', 'optiland/analysis/rms_vs_field.py:RmsWavefrontErrorVsField._rms_wavefront_error',
                             'optiland/optimization/operand/ray.py:RayOperand.OPD_difference'], ['C09'], max_paths=16)
def reductions(c):
    W = c.mod('optiland.wavefront')
    vals = [c.real('v%d' % i, -2, 2) for i in range(4)]
    o = object.__new__(W.OPD)
    o.data = [[(c.arr(*vals), c.arr(1.0, 1.0, 1.0, 1.0))]]
    r = c.val(o.rms())
    c.ensure_eq('C09.rms.is_root_mean_square_of_the_samples', r * r, sum(v * v for v in vals) / 4)


# ---- bounded: the library against an independent OPD computation on real lenses ---------------------------------
ACC = []      # (independent path, library's accumulated path) of every bundle traced by independent_opd since the last clear


def independent_opd(lens, Hx, Hy, wl, Px, Py):
    """OPD from first principles: paths from a common object-space wavefront to the chief-ray reference sphere"""
    import numpy as np
    n0 = lens.object_surface.material_post.n(wl)

    def total(px, py):
        r = lens.trace_generic(Hx, Hy, np.atleast_1d(np.array(px, dtype=float)), np.atleast_1d(np.array(py, dtype=float)), wl)
        sg = lens.surface_group
        P0 = np.array([sg.x[0], sg.y[0], sg.z[0]])
        D0 = np.array([sg.L[0], sg.M[0], sg.N[0]])
        Pi = np.array([sg.x[-1], sg.y[-1], sg.z[-1]])
        Di = np.array([sg.L[-1], sg.M[-1], sg.N[-1]])
        # the ray's optical path from first principles: index of each medium times the length of the segment crossed in it
        # (not the library's running sum, which is compared with this one in a clause of its own)
        path_ = np.zeros_like(sg.x[-1])
        for k_ in range(len(sg.surfaces) - 1):
            seg = np.sqrt((sg.x[k_ + 1] - sg.x[k_]) ** 2 + (sg.y[k_ + 1] - sg.y[k_]) ** 2 + (sg.z[k_ + 1] - sg.z[k_]) ** 2)
            path_ = path_ + abs(float(np.ravel(sg.surfaces[k_].material_post.n(wl))[0])) * seg
        ACC.append((path_.copy(), sg.opd[-1].copy()))
        return P0, D0, Pi, Di, path_
    P0c, D0c, Pic, Dic, opdc = total(0.0, 0.0)
    C = Pic[:, 0]
    pz = lens.paraxial.XPL() + lens.surface_group.positions[-1][0]
    R = np.sqrt(C[0] ** 2 + C[1] ** 2 + (C[2] - pz) ** 2)
    P0, D0, Pi, Di, opd = total(Px, Py)

    def to_sphere(P, D):
        # back along the ray to the sphere |Q - C| = R
        d = P - C[:, None]
        b = -2 * np.sum(D * d, axis=0)
        cc = np.sum(d * d, axis=0) - R ** 2
        disc = b * b - 4 * cc
        t = (-b - np.sqrt(disc)) / 2
        t2 = (-b + np.sqrt(disc)) / 2
        return np.where(t < 0, t2, t)
    if lens.object_surface.is_infinite:
        # common plane wavefront through the chief ray's launch point, perpendicular to the (common) direction
        lead = n0 * np.sum((P0 - P0c) * D0c, axis=0)
        leadc = 0.0
    else:
        lead = leadc = 0.0
    path = lead + opd - to_sphere(Pi, Di)
    pathc = leadc + opdc - to_sphere(Pic, Dic)
    return (pathc - path) / (wl * 1e-3)


def _bounded(ct, tier, seed):
    import numpy as np
    import warnings
    from optiland import wavefront
    warnings.simplefilter('ignore')
    np.seterr(all='ignore')
    t0 = time.time()
    rng = random.Random(seed * 101 + 3)
    clauses = {}
    fails = []
    cases = 0

    def note(cid, ok, detail, inputs):
        c_ = clauses.setdefault(cid, {'paths': 0, 'proved': 0, 'backends': {}, 'failed': [], 'seconds': 0.0, 'bounded': True})
        c_['paths'] += 1
        if ok:
            c_['proved'] += 1
            c_['backends']['runtime'] = c_['backends'].get('runtime', 0) + 1
        else:
            fails.append({'clause': cid, 'draws': inputs, 'note': detail})
    lenses = []
    names = rt.sample_names()
    rng.shuffle(names)
    for (m, n) in names[:(5 if tier == 'quick' else len(names))]:
        lenses.append((n, lambda m=m, n=n: rt.make_sample(m, n)))
    for i in range(4 if tier == 'quick' else 40):
        st = rng.getstate()
        lenses.append(('random#%d' % i, lambda st=st, i=i: rt.random_lens(_rng(st), finite=(i % 3 == 0))))

    def _cooke_negative_fields():
        # a traceable lens whose largest field is negative, in every run (random lenses of that kind often lose rays)
        from optiland.fields import FieldGroup
        L_ = rt.make_sample('optiland.samples.objectives', 'CookeTriplet')
        L_.fields = FieldGroup()
        for y_ in (-20.0, 0.0, 14.0):
            L_.add_field(y=y_)
        return L_
    lenses.append(('CookeTriplet with fields (-20, 0, 14)', _cooke_negative_fields))

    def _immersed_object():
        # a finite object embedded in a medium other than air (water), object-height fields
        from optiland.optic import Optic
        from optiland.materials import IdealMaterial
        o = Optic()
        o.add_surface(index=0, thickness=30.0, material=IdealMaterial(n=1.333, k=0))
        o.add_surface(index=1, radius=25.0, thickness=5.0, material=IdealMaterial(n=1.6, k=0), is_stop=True)
        o.add_surface(index=2, radius=-20.0, thickness=60.0)
        o.add_surface(index=3)
        o.set_aperture('EPD', 6.0)
        o.set_field_type('object_height')
        for y_ in (0.0, 1.5, 2.0):
            o.add_field(y=y_)
        o.add_wavelength(0.55, is_primary=True)
        return o
    lenses.append(('singlet with the object immersed in water', _immersed_object))

    def _odd_image_surface(kind):
        # an image surface that is tilted, or curved and decentred: the ray's end point is where the trace put it (global frame)
        def mk():
            from optiland.optic import Optic
            from optiland.materials import IdealMaterial
            o = Optic()
            finite = kind == 'tilted_finite'
            o.add_surface(index=0, thickness=120.0 if finite else np.inf)
            o.add_surface(index=1, radius=40.0, thickness=5.0, material=IdealMaterial(n=1.6, k=0), is_stop=True)
            o.add_surface(index=2, radius=-55.0, thickness=70.0 if finite else 38.0)
            if kind == 'curved_decentred':
                o.add_surface(index=3, radius=-60.0, dy=1.5)
            else:
                o.add_surface(index=3, rx=0.05)
            o.set_aperture('EPD', 8.0)
            o.set_field_type('object_height' if finite else 'angle')
            for y_ in (0.0, 2.0, 3.0):
                o.add_field(y=y_)
            o.add_wavelength(0.55, is_primary=True)
            return o
        return mk
    for kind_ in ('tilted', 'tilted_finite', 'curved_decentred'):
        lenses.append(('singlet with a %s image surface' % kind_.replace('_', ' and '), _odd_image_surface(kind_)))
    for lname, mk in lenses:
        try:
            L = mk()
            if lname.startswith('random') and L.field_type == 'angle' and int(lname.split('#')[1]) % 2 == 1:
                # a field list whose largest field is negative
                from optiland.fields import FieldGroup
                fm = float(L.fields.max_field)
                L.fields = FieldGroup()
                for y_ in (-fm, 0.0, 0.6 * fm):
                    L.add_field(y=y_)
            wls = L.wavelengths.get_wavelengths()
            for Hy in (0.0, 0.7, -1.0):
                wf = wavefront.Wavefront(L, fields=[(0.0, Hy)], wavelengths=wls, num_rays=5, distribution='ring')
                for j, wl in enumerate(wls):
                    lib = np.array(wf.data[0][j][0], dtype=float)
                    del ACC[:]
                    ind = independent_opd(L, 0.0, Hy, wl, wf.distribution.x.copy(), wf.distribution.y.copy())
                    ok = np.allclose(lib, ind, rtol=0, atol=2e-6, equal_nan=True)
                    cases += 1
                    for mine, theirs in ACC:
                        note('C09.runtime.accumulated_path_is_sum_of_index_times_segment_length',
                             np.allclose(mine, theirs, rtol=1e-11, atol=1e-9, equal_nan=True),
                             '%s Hy=%s wl=%s max |diff| %.3e mm' % (lname, Hy, wl, np.nanmax(np.abs(mine - theirs))), {'lens': lname, 'Hy': Hy, 'wl': wl})
                    note('C09.runtime.opd_equals_independent_reference_sphere_computation', ok,
                         '%s Hy=%s wl=%s max |diff| %.3e waves' % (lname, Hy, wl, np.nanmax(np.abs(lib - ind))), {'lens': lname, 'Hy': Hy, 'wl': wl})
        except Exception as ex:
            continue
    return {'contract': ct.name, 'functions': ct.functions, 'props': ct.props,
            'symbolic': {'clauses': clauses, 'paths': 0, 'errors': [], 'solver_s': 0.0, 'samples': [], 'wd_assumed': [], 'assumed': []},
            'numeric': {'accepted': cases, 'rejected': 0, 'failures': fails[:10], 'concolic_agree': 0, 'encoder_mismatches': [],
                        'samples': [{'lenses': [n for n, _ in lenses][:8]}]}, 'wall_s': time.time() - t0}


def _rng(state):
    r = random.Random()
    r.setstate(state)
    return r


contract('C09.runtime', [WF + ':Wavefront.__init__', WF + ':Wavefront._generate_data'], ['C09'], custom=_bounded)(lambda c: None)


def _measure_c09(L):
    from optiland import wavefront
    pw = L.primary_wavelength
    f0 = L.fields.get_field_coords()[-1]
    wf = wavefront.Wavefront(L, fields=[(0.0, 0.0), f0], wavelengths=[pw], num_rays=6, distribution='hexapolar')
    out = {}
    for i in range(2):
        d = wf.data[i][0]
        out['opd_field%d' % i] = np.array(d[0], dtype=float)
        out['intensity_field%d' % i] = np.array(d[1], dtype=float)
    opd = wavefront.OPD(L, f0, pw, num_rings=6)
    out['opd_rms'] = np.array([opd.rms()], dtype=float)
    return out


contract('C09.runtime.requery', [WF + ':Wavefront.__init__', WF + ':Wavefront._generate_data', WF + ':Wavefront._get_reference_sphere'], ['C09', 'C13'],
         custom=rt.requery_custom(_measure_c09, 'C09.runtime.wavefront_of_an_edited_lens_equals_that_of_a_lens_built_with_the_edits'))(lambda c: None)


def _derived(ct, tier, seed):
    """bounded: OPD fans, the RMS-wavefront-versus-field curve and the OPD-difference operand are the Wavefront quantity
    (whose definition is under the symbolic contracts above) at their documented pupil / field samples"""
    import warnings
    from optiland import wavefront
    from optiland.analysis import RmsWavefrontErrorVsField
    from optiland.optimization.operand.ray import RayOperand
    from optiland.distribution import GaussianQuadrature
    warnings.simplefilter('ignore')
    np.seterr(all='ignore')
    t0 = time.time()
    rng = random.Random(seed * 29 + 4)
    clauses, fails, cases, used = {}, [], 0, []

    def note(cid, ok, detail, inputs):
        c_ = clauses.setdefault(cid, {'paths': 0, 'proved': 0, 'backends': {}, 'failed': [], 'seconds': 0.0, 'bounded': True})
        c_['paths'] += 1
        if ok:
            c_['proved'] += 1
            c_['backends']['runtime'] = c_['backends'].get('runtime', 0) + 1
        else:
            fails.append({'clause': cid, 'draws': inputs, 'note': detail})

    class Points:
        def __init__(self, x, y):
            self.x, self.y = np.asarray(x, dtype=float), np.asarray(y, dtype=float)
    eq = lambda a, b: bool(np.allclose(np.asarray(a, dtype=float), np.asarray(b, dtype=float), rtol=1e-9, atol=1e-9, equal_nan=True))
    lenses = []
    names = rt.sample_names()
    rng.shuffle(names)
    for (m, n) in names[:(3 if tier == 'quick' else len(names))]:
        lenses.append((n, lambda m=m, n=n: rt.make_sample(m, n)))
    for i in range(2 if tier == 'quick' else 20):
        st = rng.getstate()
        lenses.append(('random#%d' % i, lambda st=st: rt.random_lens(_rng(st), finite=False)))
    for lname, mk in lenses:
        try:
            L = mk()
            pw = L.primary_wavelength
            L.trace(0.0, 0.5, pw, 2, 'hexapolar')
            f0 = (0.0, 0.6)
            nr = 5
            fan = wavefront.OPDFan(L, fields=[f0], wavelengths=[pw], num_rays=nr)
            P = np.linspace(-1, 1, nr)
            wy = wavefront.Wavefront(L, fields=[f0], wavelengths=[pw], num_rays=nr, distribution=Points(np.zeros(nr), P)).data[0][0][0]
            wx = wavefront.Wavefront(L, fields=[f0], wavelengths=[pw], num_rays=nr, distribution=Points(P, np.zeros(nr))).data[0][0][0]
        except Exception:
            continue
        inputs = {'lens': lname}
        used.append(lname)
        cases += 1
        note('C09.runtime.opd_fan_is_the_opd_along_the_two_pupil_axes', eq(fan.data[0][0][0][:nr], wy) and eq(fan.data[0][0][0][nr:], wx) and eq(fan.pupil_coord, P),
             '%s: %s vs %s' % (lname, fan.data[0][0][0][:nr], wy), inputs)
        try:
            nf = 3
            # every documented argument is honoured: the requested pupil sampling (default and non-default), ray count, wavelengths
            for dist_, nr_ in (('hexapolar', 4), ('uniform', 5), ('ring', 6)):
                rv = RmsWavefrontErrorVsField(L, num_fields=nf, wavelengths=[pw], num_rays=nr_, distribution=dist_)
                for i, Hy in enumerate(np.linspace(0, 1, nf)):
                    w = wavefront.Wavefront(L, fields=[(0.0, float(Hy))], wavelengths=[pw], num_rays=nr_, distribution=dist_).data[0][0][0]
                    cases += 1
                    note('C09.runtime.rms_wavefront_vs_field_is_rms_opd_at_each_field',
                         eq(rv._wavefront_error[i][0], np.sqrt(np.mean(w ** 2))) and len(rv.data[i][0][0]) == len(w),
                         '%s Hy=%s %s/%d: %s vs %s' % (lname, Hy, dist_, nr_, rv._wavefront_error[i][0], np.sqrt(np.mean(w ** 2))), inputs)
        except Exception as ex:
            note('C09.runtime.rms_wavefront_vs_field_is_rms_opd_at_each_field', False, 'raised %s: %s' % (type(ex).__name__, ex), inputs)
        try:
            for (Hy, rings) in ((0.0, 3), (0.6, 3)):
                got = RayOperand.OPD_difference(L, 0.0, Hy, rings, pw)
                gq = GaussianQuadrature(is_symmetric=(Hy == 0))
                wts = gq.get_weights(rings) if Hy == 0 else np.repeat(gq.get_weights(rings), 3)
                gq.generate_points(num_rings=rings)
                w = wavefront.Wavefront(L, [(0.0, Hy)], [pw], rings, Points(gq.x, gq.y)).data[0][0][0]
                cases += 1
                note('C09.runtime.opd_difference_operand_is_weighted_mean_absolute_deviation', eq(got, np.mean(np.abs((w - np.mean(w)) * wts))),
                     '%s Hy=%s: %s' % (lname, Hy, got), inputs)
        except Exception as ex:
            note('C09.runtime.opd_difference_operand_is_weighted_mean_absolute_deviation', False, 'raised %s: %s' % (type(ex).__name__, ex), inputs)
    return {'contract': ct.name, 'functions': ct.functions, 'props': ct.props,
            'symbolic': {'clauses': clauses, 'paths': 0, 'errors': [], 'solver_s': 0.0, 'samples': [], 'wd_assumed': [], 'assumed': []},
            'numeric': {'accepted': cases, 'rejected': 0, 'failures': fails[:10], 'concolic_agree': 0, 'encoder_mismatches': [],
                        'samples': [{'lenses': used[:8]}]}, 'wall_s': time.time() - t0}


contract('C09.runtime.derived', [WF + ':OPDFan.__init__', WF + ':OPD.rms', 'optiland/analysis/rms_vs_field.py:RmsWavefrontErrorVsField._rms_wavefront_error',
                                 'optiland/optimization/operand/ray.py:RayOperand.OPD_difference'], ['C09'], custom=_derived)(lambda c: None)


# concrete inputs found by the defect-hunting sub-agents (bounded replay, see contracts/hunt.py)
from . import hunt as _hunt  # noqa: E402
_hunt.register('C09')
