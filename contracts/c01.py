"""C01 -- lens prescription stays consistent under any history of edits."""
from pyvc.vc import contract
from .common import *  # noqa
from .lens import arbitrary_lens, zs, stops, SG, SF, OP

PROPERTY = 'C01'
K_QUICK = 12
K_THOROUGH = 200
NMAX = 5       # surface counts 0..NMAX for the per-operation (inductive step) contracts

ASSUMPTIONS = [
    'per-operation contracts are proved for every surface count 0..%d with an arbitrary symbolic well-formed pre-state; '
    'the code branches on the index only for index in {0, 1}, so larger counts follow by uniformity (not machine-checked)' % NMAX,
]


def _add_contract(n, matkind, is_stop):
    name = 'C01.add_surface.n%d.%s.%s' % (n, matkind, 'stop' if is_stop else 'nostop')

    @contract(name, [SG + ':SurfaceGroup.add_surface', SF + ':SurfaceFactory.create_surface',
                     SF + ':SurfaceFactory._configure_cs', SF + ':SurfaceFactory._configure_material',
                     SG + ':SurfaceGroup.positions', 'optiland/coordinate_system.py:CoordinateSystem.position_in_gcs',
                     OP + ':Optic.add_surface'], ['C01'])
    def add(c):
        lens, v = arbitrary_lens(c, n, stop=(1 if n > 1 else None))
        Tlast = c.real('Tlast', -20.0, 40.0)
        lens.surface_group.surface_factory.last_thickness = Tlast
        t = c.real('t_new', -20.0, 40.0)
        R = c.real('R_new', -90.0, 90.0, nonzero=True)
        kk = c.real('k_new', -2.0, 1.0)
        if matkind == 'ideal':
            mat = c.mod('optiland.materials').IdealMaterial(n=c.real('n_new', 1.0, 2.5, positive=True), k=0.0)
        else:
            mat = matkind
        if matkind == 'mirror' and n == 0:
            return
        before = c.snapshot(surfaces=list(lens.surface_group.surfaces))
        old = list(lens.surface_group.surfaces)
        with c.no_raise('C01.add.succeeds'):
            lens.add_surface(index=n, thickness=t, radius=R, conic=kk, material=mat, is_stop=is_stop)
        sg = lens.surface_group
        c.ensure('C01.add.count', len(sg.surfaces) == n + 1)
        new = sg.surfaces[n]
        znew = c.val(new.geometry.cs.z)
        if n == 0:
            c.ensure_eq('C01.add.vertex', znew, -t)
        elif n == 1:
            c.ensure_eq('C01.add.vertex', znew, 0)
        else:
            c.ensure_eq('C01.add.vertex', znew, v['z'][n - 1] + Tlast)
        c.ensure_eq('C01.add.last_thickness', sg.surface_factory.last_thickness, t)
        c.ensure('C01.add.order', all(c.same(a, b) for a, b in zip(old, sg.surfaces[:n])))
        if n >= 1:
            c.ensure('C01.add.media', c.same(new.material_pre, old[n - 1].material_post))
        if matkind == 'mirror':
            c.ensure('C01.add.media_mirror', c.same(new.material_post, new.material_pre) and new.is_reflective)
        elif matkind == 'ideal':
            c.ensure('C01.add.media_post', c.same(new.material_post, mat) and not new.is_reflective)
        c.ensure('C01.add.stop', stops(lens) <= 1 and (not is_stop or n == 0 or new.is_stop))
        c.ensure_eq('C01.add.radius', new.geometry.radius, R)
        if n >= 1:
            c.ensure_eq('C01.add.conic', new.geometry.k, kk)
        assigns = ['surfaces[*].is_stop'] if is_stop else []
        c.ensure_frame('C01.add.frame', before, c.snapshot(surfaces=old), assigns)
    return add


for _n in range(0, NMAX + 1):
    for _mk in ('ideal', 'air', 'mirror'):
        for _st in (False, True):
            if _n == 0 and (_st or _mk == 'mirror'):
                continue
            _add_contract(_n, _mk, _st)


def _build_contract(n):
    @contract('C01.build.n%d' % n, [OP + ':Optic.add_surface', SG + ':SurfaceGroup.add_surface',
                                    SF + ':SurfaceFactory._configure_cs'], ['C01'])
    def build(c):
        Optic = c.mod('optiland.optic').Optic
        lens = Optic()
        ts = [c.real('t%d' % j, -20.0, 40.0) for j in range(n)]
        with c.no_raise('C01.build.succeeds'):
            for j in range(n):
                kw = {}
                if j > 0 and j < n - 1:
                    kw = dict(radius=c.real('R%d' % j, -90, 90, nonzero=True), conic=c.real('k%d' % j, -2, 1))
                lens.add_surface(index=j, thickness=ts[j], is_stop=(j == 1), **kw)
        z = zs(c, lens)
        c.ensure_eq('C01.build.object_vertex', z[0], -ts[0])
        run = 0
        for j in range(1, n):
            c.ensure_eq('C01.build.vertex_running_sum', z[j], run)
            run = run + ts[j]
        for j in range(1, n):
            c.ensure('C01.build.media_chain', c.same(lens.surface_group.surfaces[j].material_pre,
                                                     lens.surface_group.surfaces[j - 1].material_post))
        c.ensure('C01.build.one_stop', stops(lens) <= 1)
    return build


for _n in range(1, 8):
    _build_contract(_n)
