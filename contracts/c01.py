"""C01 -- lens prescription stays consistent under any history of edits."""
import math
from pyvc.vc import contract
from .common import *  # noqa
from .lens import arbitrary_lens, zs, stops, SG, SF, OP

PROPERTY = 'C01'
K_QUICK = 12
K_THOROUGH = 200
NMAX = 5       # surface counts 0..NMAX for the per-operation (inductive step) contracts

ASSUMPTIONS = [
    'per-operation contracts are proved for every surface count 0..%d with an arbitrary symbolic well-formed pre-state; '
    'the code branches on the index only for index in {0, 1}, so larger counts follow by uniformity (not machine-checked)' % NMAX,
]


def _add_contract(n, matkind, is_stop):
    name = 'C01.add_surface.n%d.%s.%s' % (n, matkind, 'stop' if is_stop else 'nostop')

    @contract(name, [SG + ':SurfaceGroup.add_surface', SF + ':SurfaceFactory.create_surface',
                     SF + ':SurfaceFactory._configure_cs', SF + ':SurfaceFactory._configure_material',
                     SG + ':SurfaceGroup.positions', 'optiland/coordinate_system.py:CoordinateSystem.position_in_gcs',
                     OP + ':Optic.add_surface'], ['C01'])
    def add(c):
        lens, v = arbitrary_lens(c, n, stop=(1 if n > 1 else None))
        Tlast = c.real('Tlast', -20.0, 40.0)
        lens.surface_group.surface_factory.last_thickness = Tlast
        t = c.real('t_new', -20.0, 40.0)
        R = c.real('R_new', -90.0, 90.0, nonzero=True)
        kk = c.real('k_new', -2.0, 1.0)
        if matkind == 'ideal':
            mat = c.mod('optiland.materials').IdealMaterial(n=c.real('n_new', 1.0, 2.5, positive=True), k=0.0)
        else:
            mat = matkind
        if matkind == 'mirror' and n == 0:
            return
        before = c.snapshot(surfaces=list(lens.surface_group.surfaces))
        old = list(lens.surface_group.surfaces)
        with c.no_raise('C01.add.succeeds'):
            lens.add_surface(index=n, thickness=t, radius=R, conic=kk, material=mat, is_stop=is_stop)
        sg = lens.surface_group
        c.ensure('C01.add.count', len(sg.surfaces) == n + 1)
        new = sg.surfaces[n]
        znew = c.val(new.geometry.cs.z)
        if n == 0:
            c.ensure_eq('C01.add.vertex', znew, -t)
        elif n == 1:
            c.ensure_eq('C01.add.vertex', znew, 0)
        else:
            c.ensure_eq('C01.add.vertex', znew, v['z'][n - 1] + Tlast)
        c.ensure_eq('C01.add.last_thickness', sg.surface_factory.last_thickness, t)
        c.ensure('C01.add.order', all(c.same(a, b) for a, b in zip(old, sg.surfaces[:n])))
        if n >= 1:
            c.ensure('C01.add.media', c.same(new.material_pre, old[n - 1].material_post))
        if matkind == 'mirror':
            c.ensure('C01.add.media_mirror', c.same(new.material_post, new.material_pre) and new.is_reflective)
        elif matkind == 'ideal':
            c.ensure('C01.add.media_post', c.same(new.material_post, mat) and not new.is_reflective)
        c.ensure('C01.add.stop', stops(lens) <= 1 and (not is_stop or n == 0 or new.is_stop))
        c.ensure_eq('C01.add.radius', new.geometry.radius, R)
        if n >= 1:
            c.ensure_eq('C01.add.conic', new.geometry.k, kk)
        assigns = ['surfaces[*].is_stop'] if is_stop else []
        c.ensure_frame('C01.add.frame', before, c.snapshot(surfaces=old), assigns)
    return add


for _n in range(0, NMAX + 1):
    for _mk in ('ideal', 'air', 'mirror'):
        for _st in (False, True):
            if _n == 0 and (_st or _mk == 'mirror'):
                continue
            _add_contract(_n, _mk, _st)


def _build_contract(n):
    @contract('C01.build.n%d' % n, [OP + ':Optic.add_surface', SG + ':SurfaceGroup.add_surface',
                                    SF + ':SurfaceFactory._configure_cs'], ['C01'])
    def build(c):
        Optic = c.mod('optiland.optic').Optic
        lens = Optic()
        ts = [c.real('t%d' % j, -20.0, 40.0) for j in range(n)]
        with c.no_raise('C01.build.succeeds'):
            for j in range(n):
                kw = {}
                if j > 0 and j < n - 1:
                    kw = dict(radius=c.real('R%d' % j, -90, 90, nonzero=True), conic=c.real('k%d' % j, -2, 1))
                lens.add_surface(index=j, thickness=ts[j], is_stop=(j == 1), **kw)
        z = zs(c, lens)
        c.ensure_eq('C01.build.object_vertex', z[0], -ts[0])
        run = 0
        for j in range(1, n):
            c.ensure_eq('C01.build.vertex_running_sum', z[j], run)
            run = run + ts[j]
        for j in range(1, n):
            c.ensure('C01.build.media_chain', c.same(lens.surface_group.surfaces[j].material_pre,
                                                     lens.surface_group.surfaces[j - 1].material_post))
        c.ensure('C01.build.one_stop', stops(lens) <= 1)
    return build


for _n in range(1, 8):
    _build_contract(_n)


# ------------------------------------------------------------------------------------------
# setters: read-back + frame (exactly that quantity changes) + WF preserved
# ------------------------------------------------------------------------------------------
def _set_thickness_contract(n, s, finite):
    @contract('C01.set_thickness.n%d.s%d.%s' % (n, s, 'fin' if finite else 'inf'),
              [OP + ':Optic.set_thickness', SG + ':SurfaceGroup.positions'], ['C01'])
    def st(c):
        lens, v = arbitrary_lens(c, n, stop=1, finite_object=finite)
        val = c.real('value', -20.0, 40.0)
        z = v['z']
        before = c.snapshot(lens=lens.surface_group)
        with c.no_raise('C01.set_thickness.succeeds'):
            lens.set_thickness(val, s)
        z2 = zs(c, lens)
        c.ensure_eq('C01.set_thickness.readback', z2[s + 1] - z2[s], val)
        c.ensure_eq('C01.set_thickness.readback_api', c.val(lens.surface_group.get_thickness(s)), val)
        for j in range(n - 1):
            if j != s and (finite or j != 0):
                c.ensure_eq('C01.set_thickness.other_gaps_unchanged', z2[j + 1] - z2[j], z[j + 1] - z[j])
        if not finite:
            c.ensure('C01.set_thickness.infinite_object_stays', c.isinf(z2[0]))
        c.ensure_eq('C01.set_thickness.first_surface_at_zero', z2[1], 0)
        c.ensure_frame('C01.set_thickness.frame', before, c.snapshot(lens=lens.surface_group),
                       ['lens.surfaces[*].geometry.cs.z'])
    return st


for _n in range(3, NMAX + 2):
    for _s in range(0, _n - 1):
        _set_thickness_contract(_n, _s, True)
        if _s >= 1:
            _set_thickness_contract(_n, _s, False)


def _setter_contract(kind, n, s, mirror=None):
    fnmap = {'radius': 'set_radius', 'radius_plane': 'set_radius', 'conic': 'set_conic', 'index': 'set_index'}

    @contract('C01.%s.n%d.s%d%s' % (kind, n, s, '' if mirror is None else '.mirror%d' % mirror),
              [OP + ':Optic.' + fnmap[kind]], ['C01'])
    def st(c):
        lens, v = arbitrary_lens(c, n, stop=1, plane=((s,) if kind == 'radius_plane' else ()), tilts=True,
                                 mirrors=(() if mirror is None else (mirror,)))
        sg = lens.surface_group
        before = c.snapshot(lens=sg)
        if kind in ('radius', 'radius_plane'):
            val = c.real('value', -90.0, 90.0, nonzero=True)
            cs_before = sg.surfaces[s].geometry.cs
            lens.set_radius(val, s)
            c.ensure_eq('C01.set_radius.readback', c.val(sg.radii[s]), val)
            c.ensure('C01.set_radius.same_frame', c.same(sg.surfaces[s].geometry.cs, cs_before))
            if kind == 'radius_plane':
                c.ensure_eq('C01.set_radius.plane_becomes_sphere', sg.surfaces[s].geometry.k, 0)
                assigns = ['lens.surfaces[%d].geometry' % s, 'lens.surfaces[%d].geometry.radius' % s,
                           'lens.surfaces[%d].geometry.k' % s]
            else:
                assigns = ['lens.surfaces[%d].geometry.radius' % s]
            c.ensure_frame('C01.set_radius.frame', before, c.snapshot(lens=sg), assigns)
        elif kind == 'conic':
            val = c.real('value', -3.0, 2.0)
            lens.set_conic(val, s)
            c.ensure_eq('C01.set_conic.readback', c.val(sg.conic[s]), val)
            c.ensure_frame('C01.set_conic.frame', before, c.snapshot(lens=sg), ['lens.surfaces[%d].geometry.k' % s])
        elif kind == 'index':
            val = c.real('value', 1.0, 3.0, positive=True)
            lens.add_wavelength(0.55, is_primary=True)
            n_before = [c.val(x) for x in lens.n()]
            lens.set_index(val, s)
            c.ensure_eq('C01.set_index.readback', c.val(lens.n()[s]), val)
            for j in range(n):
                # surfaces whose rear medium is by construction the same medium (a mirror right behind s) follow;
                # every other surface keeps its index
                if j != s and not (mirror is not None and mirror == s + 1 and j == mirror):
                    c.ensure_eq('C01.set_index.other_indices_unchanged', c.val(lens.n()[j]), n_before[j])
            c.ensure('C01.set_index.media_chain', all(
                c.same(sg.surfaces[j].material_pre, sg.surfaces[j - 1].material_post) for j in range(1, n)))
            c.ensure_frame('C01.set_index.frame', before, c.snapshot(lens=sg),
                           ['lens.surfaces[%d].material_post*' % s, 'lens.surfaces[%d].material_pre*' % (s + 1)])
    return st


for _n in (3, 4, 5):
    for _s in range(1, _n - 1):
        for _k in ('radius', 'radius_plane', 'conic', 'index'):
            _setter_contract(_k, _n, _s)
# lenses in which two surfaces share one medium object (a mirror): editing the index behind one
# surface must not change the index behind the others
for (_n, _s, _m) in ((5, 1, 3), (5, 3, 2), (5, 2, 2), (4, 2, 1)):
    _setter_contract('index', _n, _s, mirror=_m)


def _wavelength_contract(m, primary_at, new_primary):
    @contract('C01.add_wavelength.m%d.p%s.%s' % (m, primary_at, new_primary),
              ['optiland/wavelength.py:WavelengthGroup.add_wavelength', OP + ':Optic.add_wavelength',
               'optiland/wavelength.py:WavelengthGroup.primary_index'], ['C01'])
    def wl(c):
        WG = c.mod('optiland.wavelength')
        Optic = c.mod('optiland.optic').Optic
        lens = Optic()
        for j in range(m):          # arbitrary state with exactly one primary
            lens.wavelengths.wavelengths.append(WG.Wavelength(c.real('w%d' % j, 0.3, 2.0, positive=True),
                                                              is_primary=(j == primary_at)))
        w = c.real('w_new', 0.3, 2.0, positive=True)
        olds = [x.value for x in lens.wavelengths.wavelengths]
        lens.add_wavelength(w, is_primary=new_primary)
        ws = lens.wavelengths.wavelengths
        c.ensure('C01.add_wavelength.exactly_one_primary', sum(1 for x in ws if x.is_primary) == 1)
        c.ensure('C01.add_wavelength.count', len(ws) == m + 1)
        c.ensure_eq('C01.add_wavelength.value', ws[-1].value, w)
        for j in range(m):
            c.ensure_eq('C01.add_wavelength.others_unchanged', ws[j].value, olds[j])
        if new_primary or m == 0:
            c.ensure('C01.add_wavelength.new_is_primary', lens.wavelengths.primary_index == m)
        else:
            c.ensure('C01.add_wavelength.primary_kept', lens.wavelengths.primary_index == primary_at)
    return wl


for _m in range(0, 4):
    for _p in (range(_m) if _m else [None]):
        for _np_ in (True, False):
            _wavelength_contract(_m, _p, _np_)


# ------------------------------------------------------------------------------------------
# pickups
# ------------------------------------------------------------------------------------------
def _pickup_contract(attr, src, tgt, n=5):
    @contract('C01.pickup.%s.s%d.t%d' % (attr, src, tgt),
              ['optiland/pickup.py:Pickup.apply', 'optiland/pickup.py:Pickup._get_value',
               'optiland/pickup.py:Pickup._set_value', 'optiland/pickup.py:PickupManager.add',
               'optiland/pickup.py:PickupManager.apply', OP + ':Optic.update'], ['C01'])
    def pk(c):
        lens, v = arbitrary_lens(c, n, stop=1)
        sg = lens.surface_group
        scale = c.real('scale', -2.0, 2.0)
        offset = c.real('offset', -5.0, 5.0)

        def get(idx):
            if attr == 'radius':
                return c.val(sg.radii[idx])
            if attr == 'conic':
                return c.val(sg.conic[idx])
            return c.val(sg.get_thickness(idx))
        src0 = get(src)
        if attr == 'radius':
            c.require(scale * src0 + offset != 0)
        before = c.snapshot(lens=sg)
        lens.pickups.add(src, attr, tgt, scale, offset)
        if src != tgt:
            c.ensure_eq('C01.pickup.add_applies', get(tgt), scale * get(src) + offset)
            c.ensure_eq('C01.pickup.source_untouched', get(src), src0)
        else:
            c.ensure_eq('C01.pickup.self_reference_uses_old_value', get(tgt), scale * src0 + offset)
        pat = {'radius': 'lens.surfaces[%d].geometry.radius' % tgt, 'conic': 'lens.surfaces[%d].geometry.k' % tgt,
               'thickness': 'lens.surfaces[*].geometry.cs.z'}[attr]
        c.ensure_frame('C01.pickup.frame', before, c.snapshot(lens=sg), [pat])
        if src != tgt:
            # edit the source, then update(): the target follows
            newsrc = c.real('new_source', 1.0, 50.0, positive=True)
            if attr == 'radius':
                lens.set_radius(newsrc, src)
                c.require(scale * newsrc + offset != 0)
            elif attr == 'conic':
                lens.set_conic(newsrc, src)
            else:
                lens.set_thickness(newsrc, src)
            lens.update()
            c.ensure_eq('C01.update.pickup_holds', get(tgt), scale * get(src) + offset)
            c.ensure_eq('C01.update.source_kept', get(src), newsrc)
            # edit the *target* directly: update() re-establishes the pickup
            junk = c.real('junk_target', 1.0, 50.0, positive=True)
            if attr == 'radius':
                lens.set_radius(junk, tgt)
            elif attr == 'conic':
                lens.set_conic(junk, tgt)
            else:
                lens.set_thickness(junk, tgt)
            if not (attr == 'thickness' and False):
                src_now = get(src)
                if attr == 'radius':
                    c.require(scale * src_now + offset != 0)
                lens.update()
                c.ensure_eq('C01.update.pickup_restored_after_target_edit', get(tgt), scale * src_now + offset)
    return pk


for _a in ('radius', 'conic', 'thickness'):
    for (_s, _t) in ((1, 2), (3, 1), (2, 2), (1, 3)):
        _pickup_contract(_a, _s, _t)


# ------------------------------------------------------------------------------------------
# solves
# ------------------------------------------------------------------------------------------
def _solve_contract(n, idx):
    @contract('C01.solve.n%d.i%d' % (n, idx),
              ['optiland/solves.py:MarginalRayHeightSolve.apply', 'optiland/solves.py:SolveManager.add',
               'optiland/solves.py:SolveManager.apply', 'optiland/paraxial.py:Paraxial.marginal_ray',
               OP + ':Optic.update'], ['C01'], max_paths=40)
    def sv(c):
        # infinite object + EPD aperture: the marginal-ray launch does not depend on any gap
        lens, v = arbitrary_lens(c, n, stop=1, finite_object=False)
        lens.add_wavelength(0.55, is_primary=True)
        lens.set_aperture('EPD', c.real('EPD', 0.5, 10.0, positive=True))
        h = c.real('height', -2.0, 2.0)
        ya0, ua0 = lens.paraxial.marginal_ray()
        c.require(c.val(ua0[idx - 1]) != 0)       # the ray reaching the surface is not parallel to the axis
        before = c.snapshot(lens=lens.surface_group)
        lens.solves.add('marginal_ray_height', idx, h)
        ya, ua = lens.paraxial.marginal_ray()
        c.ensure_eq('C01.solve.height_reached', c.val(ya[idx]), h)
        c.ensure_frame('C01.solve.frame', before, c.snapshot(lens=lens.surface_group),
                       ['lens.surfaces[%d].geometry.cs.z' % j for j in range(idx, n)] +
                       ['lens.surfaces[*].y', 'lens.surfaces[*].u', 'lens.surfaces[*].x', 'lens.surfaces[*].z',
                        'lens.surfaces[*].L', 'lens.surfaces[*].M', 'lens.surfaces[*].N', 'lens.surfaces[*].opd',
                        'lens.surfaces[*].intensity', 'lens.surfaces[*].aoi'])
        z2 = zs(c, lens)
        for j in range(idx, n - 1):
            c.ensure_eq('C01.solve.later_gaps_rigid', z2[j + 1] - z2[j], v['z'][j + 1] - v['z'][j])
        lens.update()       # idempotent: already satisfied
        ya2, _ = lens.paraxial.marginal_ray()
        c.ensure_eq('C01.update.solve_holds', c.val(ya2[idx]), h)
    return sv


for _n in (3, 4):
    for _i in range(2, _n):
        _solve_contract(_n, _i)


def _image_solve_contract(n):
    @contract('C01.image_solve.n%d' % n, [OP + ':Optic.image_solve', 'optiland/paraxial.py:Paraxial.marginal_ray'],
              ['C01'], max_paths=40)
    def isv(c):
        lens, v = arbitrary_lens(c, n, stop=1, finite_object=False)
        lens.add_wavelength(0.55, is_primary=True)
        lens.set_aperture('EPD', c.real('EPD', 0.5, 10.0, positive=True))
        ya0, ua0 = lens.paraxial.marginal_ray()
        c.require(c.val(ua0[n - 2]) != 0)       # the ray arriving at the image surface is not parallel to the axis
        before = c.snapshot(lens=lens.surface_group)
        with c.no_raise('C01.image_solve.succeeds'):
            lens.image_solve()
        ya, ua = lens.paraxial.marginal_ray()
        c.ensure_eq('C01.image_solve.marginal_height_zero', c.val(ya[n - 1]), 0)
        c.ensure_frame('C01.image_solve.frame', before, c.snapshot(lens=lens.surface_group),
                       ['lens.surfaces[%d].geometry.cs.z' % (n - 1), 'lens.surfaces[*].y', 'lens.surfaces[*].u',
                        'lens.surfaces[*].x', 'lens.surfaces[*].z', 'lens.surfaces[*].L', 'lens.surfaces[*].M',
                        'lens.surfaces[*].N', 'lens.surfaces[*].opd', 'lens.surfaces[*].intensity', 'lens.surfaces[*].aoi'])
    return isv


for _n in (3, 4):
    _image_solve_contract(_n)


# variable handles (shared with C14/C15)
from . import variables as _variables  # noqa: E402
_variables.register('C01', ['C01'])


# ------------------------------------------------------------------------------------------
# interacting pickups and solves: after update() *each* of them holds (acyclic dependencies)
# ------------------------------------------------------------------------------------------
def _pickup_chain_contract(attr):
    @contract('C01.update.chain.' + attr, ['optiland/pickup.py:PickupManager.apply', 'optiland/pickup.py:Pickup.apply', OP + ':Optic.update'], ['C01'],
              max_paths=64)
    def ch(c):
        """two pickups entered in the adverse order (the first reads what the second writes): 3 <- 2, then 2 <- 1"""
        lens, v = arbitrary_lens(c, 5, stop=1)
        sg = lens.surface_group

        def get(idx):
            if attr == 'radius':
                return c.val(sg.radii[idx])
            if attr == 'conic':
                return c.val(sg.conic[idx])
            return c.val(sg.get_thickness(idx))

        def put(val, idx):
            {'radius': lens.set_radius, 'conic': lens.set_conic, 'thickness': lens.set_thickness}[attr](val, idx)
        s1, o1 = c.real('scale_a', -2.0, 2.0, nonzero=True), c.real('offset_a', 1.0, 5.0, positive=True)
        s2, o2 = c.real('scale_b', -2.0, 2.0, nonzero=True), c.real('offset_b', 1.0, 5.0, positive=True)
        if attr == 'radius':
            c.require(s2 * get(1) + o2 != 0)
            c.require(s1 * get(2) + o1 != 0)
            c.require(s1 * (s2 * get(1) + o2) + o1 != 0)
        lens.pickups.add(2, attr, 3, s1, o1)
        lens.pickups.add(1, attr, 2, s2, o2)
        new = c.real('new_source', 1.0, 50.0, positive=True)
        if attr == 'radius':
            c.require(s2 * new + o2 != 0)
            c.require(s1 * (s2 * new + o2) + o1 != 0)
        put(new, 1)
        lens.update()
        c.ensure_eq('C01.update.every_pickup_of_a_chain_holds', get(2), s2 * get(1) + o2)
        c.ensure_eq('C01.update.every_pickup_of_a_chain_holds', get(3), s1 * get(2) + o1)
        c.ensure_eq('C01.update.chain_source_kept', get(1), new)
    return ch


for _a in ('radius', 'conic', 'thickness'):
    _pickup_chain_contract(_a)


@contract('C01.update.pickup_of_solved_thickness', ['optiland/pickup.py:PickupManager.apply', 'optiland/solves.py:SolveManager.apply',
                                                    'optiland/solves.py:MarginalRayHeightSolve.apply', OP + ':Optic.update'], ['C01'], max_paths=64, groebner_s=40)
def pickup_of_solved_thickness(c):
    """a thickness pickup whose source is the gap in front of a solved surface: after an edit and one update() the solve holds
    and the pickup target follows the gap the solve produced"""
    lens, v = arbitrary_lens(c, 5, stop=1, finite_object=False)
    lens.add_wavelength(0.55, is_primary=True)
    lens.set_aperture('EPD', c.real('EPD', 0.5, 10.0, positive=True))
    sg = lens.surface_group
    h = c.real('height', -2.0, 2.0)
    sc, of = c.real('scale', 0.5, 2.0, positive=True), c.real('offset', 0.0, 3.0, nonneg=True)
    ya0, ua0 = lens.paraxial.marginal_ray()
    c.require(c.val(ua0[1]) != 0)
    lens.solves.add('marginal_ray_height', 2, h)
    lens.pickups.add(1, 'thickness', 3, sc, of)
    newR = c.real('new_radius', 20.0, 80.0, positive=True)
    lens.set_radius(newR, 1)
    _, ua1 = lens.paraxial.marginal_ray()
    c.require(c.val(ua1[1]) != 0)
    lens.update()
    ya, _ = lens.paraxial.marginal_ray()
    c.ensure_eq('C01.update.solve_holds_next_to_a_dependent_pickup', c.val(ya[2]), h)
    c.ensure_eq('C01.update.pickup_follows_the_solved_gap', c.val(sg.get_thickness(3)), sc * c.val(sg.get_thickness(1)) + of)


@contract('C01.update.two_solves_adverse_order', ['optiland/solves.py:SolveManager.apply', 'optiland/solves.py:MarginalRayHeightSolve.apply',
                                                  OP + ':Optic.update'], ['C01'], max_paths=64, groebner_s=40)
def two_solves_adverse_order(c):
    """two marginal-ray-height solves and no pickup, the solve on the later surface entered first (the earlier one moves everything
    behind it, so it changes the ray reaching the later one): after an upstream edit and one update() *each* of them holds"""
    lens, v = arbitrary_lens(c, 5, stop=1, finite_object=False)
    lens.add_wavelength(0.55, is_primary=True)
    lens.set_aperture('EPD', c.real('EPD', 0.5, 10.0, positive=True))
    h2, h3 = c.real('height_2', -2.0, 2.0), c.real('height_3', -2.0, 2.0)
    lens.solves.add('marginal_ray_height', 3, h3)
    lens.solves.add('marginal_ray_height', 2, h2)
    newR = c.real('new_radius', 20.0, 80.0, positive=True)
    lens.set_radius(newR, 1)
    _, ua1 = lens.paraxial.marginal_ray()
    c.require(c.val(ua1[1]) != 0)
    c.require(c.val(ua1[2]) != 0)
    lens.update()
    ya, _ = lens.paraxial.marginal_ray()
    c.ensure_eq('C01.update.every_solve_holds_whatever_the_order_of_entry', c.val(ya[2]), h2)
    c.ensure_eq('C01.update.every_solve_holds_whatever_the_order_of_entry', c.val(ya[3]), h3)


# ---- bounded: media given as catalogue glasses (name, or (name, reference)) ----------------------------------------------------------
def _catalogue_media(ct, tier, seed):
    """a lens built with catalogue glasses: the medium behind each surface is the catalogue entry *given for that surface* (the same
    glass name with two different references included), and it is the medium in front of the next surface"""
    import time
    import warnings
    import numpy as np
    from optiland.optic import Optic
    from optiland.materials import Material
    warnings.simplefilter('ignore')
    t0 = time.time()
    clauses, fails, cases = {}, [], 0

    def note(cid, ok, detail, inputs):
        c_ = clauses.setdefault(cid, {'paths': 0, 'proved': 0, 'backends': {}, 'failed': [], 'seconds': 0.0, 'bounded': True})
        c_['paths'] += 1
        if ok:
            c_['proved'] += 1
            c_['backends']['runtime'] = c_['backends'].get('runtime', 0) + 1
        else:
            fails.append({'clause': cid, 'draws': inputs, 'note': detail})
    recipes = [
        [('F2', 'schott'), 'air', ('F2', 'hikari'), 'air'],
        [('F2', 'hikari'), 'air', ('F2', 'schott'), 'air'],
        ['N-BK7', 'air', ('N-BK7', 'schott'), 'air', ('CAF2', 'Daimon-20'), ('CAF2', 'Malitson'), 'air'],
        ['N-SK16', 'air', 'F2', 'air', 'N-SK16', 'air'],
    ]
    for glasses in recipes:
        L = Optic()
        L.add_surface(index=0, thickness=np.inf)
        for j, g in enumerate(glasses):
            L.add_surface(index=j + 1, radius=(50.0 if j % 2 == 0 else -60.0), thickness=3.0, material=g, is_stop=(j == 0))
        L.add_surface(index=len(glasses) + 1)
        L.add_wavelength(0.55, is_primary=True)
        inputs = {'glasses': [str(g) for g in glasses]}
        cases += 1
        sg = L.surface_group.surfaces
        for j, g in enumerate(glasses):
            post = sg[j + 1].material_post
            if g == 'air':
                note('C01.runtime.air_gap_has_unit_index', float(np.ravel(post.n(0.55))[0]) == 1.0, 'surface %d' % (j + 1), inputs)
            else:
                ref = Material(g) if isinstance(g, str) else Material(g[0], reference=g[1])
                same = getattr(post, 'filename', None) == ref.filename and all(
                    float(np.ravel(post.n(w))[0]) == float(np.ravel(ref.n(w))[0]) for w in (0.45, 0.55, 0.65))
                note('C01.runtime.medium_behind_a_surface_is_the_catalogue_entry_given_for_it', same,
                     'surface %d given %s holds %s (expected %s)' % (j + 1, g, getattr(post, 'filename', '?')[-40:], ref.filename[-40:]), inputs)
            note('C01.runtime.medium_in_front_of_the_next_surface_is_that_medium', sg[j + 2].material_pre is post, 'surface %d' % (j + 1), inputs)
    return {'contract': ct.name, 'functions': ct.functions, 'props': ct.props,
            'symbolic': {'clauses': clauses, 'paths': 0, 'errors': [], 'solver_s': 0.0, 'samples': [], 'wd_assumed': [], 'assumed': []},
            'numeric': {'accepted': cases, 'rejected': 0, 'failures': fails[:10], 'concolic_agree': 0, 'encoder_mismatches': [],
                        'samples': [{'recipes': [[str(g) for g in r] for r in recipes]}]}, 'wall_s': time.time() - t0}


contract('C01.runtime.catalogue_media', [SF + ':SurfaceFactory._configure_material', SF + ':SurfaceFactory.create_surface', OP + ':Optic.add_surface'],
         ['C01'], custom=_catalogue_media)(lambda c: None)


def _flat_special_contract(special):
    @contract('C01.set_radius.flat_%s' % special, [OP + ':Optic.set_radius', OP + ':Optic.set_asphere_coeff'], ['C01'], max_paths=32)
    def fs(c):
        """a surface of another type left at its default infinite base radius (a flat-based asphere / polynomial surface): setting its
        radius changes the radius only -- the surface keeps its type, conic and coefficients, and later coefficient edits work"""
        lens, v = arbitrary_lens(c, 4, stop=1, special={2: special})
        sg = lens.surface_group
        g = sg.surfaces[2].geometry
        g.radius = math.inf
        cls0 = type(g)
        before = c.snapshot(lens=sg)
        val = c.real('value', 10.0, 90.0, positive=True)
        lens.set_radius(val, 2)
        g2 = sg.surfaces[2].geometry
        c.ensure('C01.set_radius.surface_keeps_its_type', type(g2) is cls0, note=type(g2).__name__)
        c.ensure_eq('C01.set_radius.readback', c.val(sg.radii[2]), val)
        c.ensure_frame('C01.set_radius.frame', before, c.snapshot(lens=sg), ['lens.surfaces[2].geometry.radius'])
        if special == 'even_asphere':
            nv = c.real('new_coefficient', -1e-4, 1e-4)
            lens.set_asphere_coeff(nv, 2, 1)
            c.ensure_eq('C01.set_asphere_coeff.readback', c.val(sg.surfaces[2].geometry.c[1]), nv)
    return fs


for _sp in ('even_asphere', 'polynomial', 'chebyshev'):
    _flat_special_contract(_sp)



def _stop_after_insertion(ct, tier, seed):
    """bounded (the property exercises insertion into the middle of a lens for the stop clause only): after any sequence of
    additions -- appended in order, then stop surfaces inserted in front of, at and behind the current stop -- at most one surface
    is the aperture stop, and it is the one added last with is_stop=True"""
    import random
    import time
    import numpy as np
    from optiland.optic import Optic
    t0 = time.time()
    rng = random.Random(seed * 71 + 5)
    clauses, fails, cases = {}, [], 0

    def note(cid, ok, detail, inputs):
        c_ = clauses.setdefault(cid, {'paths': 0, 'proved': 0, 'backends': {}, 'failed': [], 'seconds': 0.0, 'bounded': True})
        c_['paths'] += 1
        if ok:
            c_['proved'] += 1
            c_['backends']['runtime'] = c_['backends'].get('runtime', 0) + 1
        elif len(fails) < 10:
            fails.append({'clause': cid, 'draws': inputs, 'note': detail})
    for i in range(30 if tier == 'quick' else 400):
        n = rng.randint(3, 8)
        k0 = rng.randint(1, n - 1)
        L = Optic()
        L.add_surface(index=0, thickness=np.inf)
        for k in range(1, n):
            L.add_surface(index=k, radius=rng.uniform(20, 90), thickness=rng.uniform(1, 9), is_stop=(k == k0))
        L.add_surface(index=n)
        hist = [('append', n + 1, k0)]
        for _ in range(rng.randint(1, 3)):
            j = rng.randint(1, len(L.surface_group.surfaces) - 1)
            L.add_surface(index=j, thickness=rng.uniform(1, 5), is_stop=True)
            hist.append(('insert stop at', j))
            stops = [k for k, s_ in enumerate(L.surface_group.surfaces) if s_.is_stop]
            cases += 1
            note('C01.runtime.at_most_one_stop_after_inserting_a_stop_surface', len(stops) <= 1, 'stops at %s' % stops, {'history': hist})
            note('C01.runtime.the_stop_is_the_surface_inserted_as_stop', stops[:1] == [j] and L.surface_group.stop_index == j,
                 'stops at %s, stop_index %s, inserted at %s' % (stops, L.surface_group.stop_index, j), {'history': hist})
    return {'contract': ct.name, 'functions': ct.functions, 'props': ct.props,
            'symbolic': {'clauses': clauses, 'paths': 0, 'errors': [], 'solver_s': 0.0, 'samples': [], 'wd_assumed': [], 'assumed': []},
            'numeric': {'accepted': cases, 'rejected': 0, 'failures': fails[:10], 'concolic_agree': 0, 'encoder_mismatches': [],
                        'samples': [{'histories': 'append 3-8 surfaces with a stop, then insert 1-3 stop surfaces anywhere'}]}, 'wall_s': time.time() - t0}


contract('C01.runtime.stop_after_insertion', ['optiland/surfaces/surface_group.py:SurfaceGroup.add_surface', OP + ':Optic.add_surface'],
         ['C01'], custom=_stop_after_insertion)(lambda c: None)


# concrete inputs found by the defect-hunting sub-agents (bounded replay, see contracts/hunt.py)
from . import hunt as _hunt  # noqa: E402
_hunt.register('C01')
