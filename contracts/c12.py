"""C12 -- geometric analyses are faithful functions of the traced rays.

Symbolic tier: a *spy optic* stands for the lens: its trace / trace_generic log the call and expose image-space
records taken from a symbolic table (what those records are is C02's obligation).  Each analysis is then proved to
issue exactly the documented trace calls and to return exactly the stated reduction of the records they produce.
Bounded tier: every analysis recomputed from independently traced rays on real lenses."""
import math
import random
import time

import numpy as np

from pyvc.vc import contract
from pyvc import twin
from .common import *  # noqa
from . import rt

PROPERTY = 'C12'
K_QUICK = 8
K_THOROUGH = 80
AN = 'optiland/analysis/'
KNOWN = {}


def spy_optic(c, nrays, wavelengths, primary_index, fields=((0.0, 0.0), (0.0, 1.0)), nsurf=3, stop_index=1):
    """records are fresh symbols per (kind, Hx, Hy, wavelength, distribution) key"""
    from pyvc import symnp
    table = {}
    counter = {'n': 0}

    def rec_for(key, n):
        if key not in table:
            counter['n'] += 1
            t = counter['n']
            table[key] = {k: [[c.real('%s_%d_%d_%d' % (k, t, s, i), -2, 2) if k != 'intensity' else
                               c.real('%s_%d_%d_%d' % (k, t, s, i), 0, 1, nonneg=True) for i in range(n)] for s in range(nsurf)]
                          for k in ('x', 'y', 'z', 'L', 'M', 'N', 'opd', 'intensity')}
        return table[key]

    class SG(StubBase):
        stop_index = 1

    class WG:
        def get_wavelengths(self):
            return list(wavelengths)
    WG.primary_index = primary_index

    class FG(StubBase):
        # a field table whose field of largest magnitude is negative, e.g. (-14, 0, 5): fields are normalised by max_field (the
        # magnitude); max_y_field (largest signed y) is a different number and must not be what the analyses scale with
        max_field = 14.0
        max_y_field = 5.0

        def get_field_coords(self):
            return list(fields)

    class Opt(StubBase):
        field_type = 'angle'          # the symbolic analysis contracts are stated for angular fields
    o = Opt()
    o.surface_group, o.wavelengths, o.fields = SG(), WG(), FG()
    o.surface_group.stop_index = stop_index
    o.primary_wavelength = wavelengths[primary_index]
    o.calls = []
    o.table = table

    def expose(r):
        for k, rows in r.items():
            if c.symbolic:
                a = np.empty((nsurf, len(rows[0])), dtype=object)
                for s in range(nsurf):
                    for i, v in enumerate(rows[s]):
                        a[s, i] = v
                setattr(o.surface_group, k, symnp.wrap(a))
            else:
                setattr(o.surface_group, k, np.array(rows, dtype=float))

    def keyval(v):
        v = c.val(v) if not isinstance(v, (list, tuple)) else v
        return repr(getattr(v, 'e', v))

    def trace(Hx=None, Hy=None, wavelength=None, num_rays=None, distribution=None):
        key = ('trace', keyval(Hx), keyval(Hy), keyval(wavelength), str(distribution))
        o.calls.append(('trace', Hx, Hy, wavelength, num_rays, distribution))
        expose(rec_for(key, nrays))

    def trace_generic(Hx=None, Hy=None, Px=None, Py=None, wavelength=None):
        n = max(np.size(Hx), np.size(Hy), np.size(Px), np.size(Py))
        key = ('generic', repr(np.asarray(Hx, dtype=object).tolist()), repr(np.asarray(Hy, dtype=object).tolist()),
               repr(np.asarray(Px, dtype=object).tolist()), repr(np.asarray(Py, dtype=object).tolist()), keyval(wavelength))
        o.calls.append(('trace_generic', Hx, Hy, Px, Py, wavelength))
        expose(rec_for(key, n))
    o.trace, o.trace_generic = trace, trace_generic
    return o


def _mean(vs):
    return sum(vs) / len(vs)


def _spot_contract(explicit):
    @contract('C12.SpotDiagram.' + ('explicit_lists' if explicit else 'lens_lists'),
              [AN + 'spot_diagram.py:SpotDiagram.__init__', AN + 'spot_diagram.py:SpotDiagram._generate_data',
               AN + 'spot_diagram.py:SpotDiagram._generate_field_data', AN + 'spot_diagram.py:SpotDiagram.centroid',
               AN + 'spot_diagram.py:SpotDiagram._center_spots', AN + 'spot_diagram.py:SpotDiagram.rms_spot_radius',
               AN + 'spot_diagram.py:SpotDiagram.geometric_spot_radius'], ['C12'], max_paths=64)
    def spot(c):
        A = c.mod('optiland.analysis.spot_diagram')
        lens_w = [0.4861, 0.5876, 0.6563] if explicit else [0.4861, 0.5876]
        opt = spy_optic(c, 3 if explicit else 2, lens_w, 1, fields=((0.0, 0.0), (0.0, 1.0)) if explicit else ((0.0, 1.0),))
        nr = 3 if explicit else 2
        if explicit:
            fields, waves = [(0.0, 0.5)], [0.5876, 0.6563]       # contains the primary wavelength, at another position
            sd = A.SpotDiagram(opt, fields=fields, wavelengths=waves, num_rings=4, distribution='ring')
            pidx = 0
        else:
            fields, waves = list(opt.fields.get_field_coords()), lens_w
            sd = A.SpotDiagram(opt, num_rings=4, distribution='ring')
            pidx = 1
        # exactly the documented trace calls, in order, one per (field, wavelength)
        want = [('trace', f[0], f[1], w, 4, 'ring') for f in fields for w in waves]
        c.ensure('C12.spot.documented_trace_calls', [tuple(x) for x in opt.calls] == want)
        for i, f in enumerate(fields):
            for j, w in enumerate(waves):
                rec = opt.table[('trace', repr(f[0]), repr(f[1]), repr(w), 'ring')]
                for a, k in enumerate(('x', 'y', 'intensity')):
                    for r in range(nr):
                        c.ensure_eq('C12.spot.data_is_image_record_of_that_trace', c.val(sd.data[i][j][a], r), rec[k][-1][r])
        cen = sd.centroid()
        rms = sd.rms_spot_radius()
        geo = sd.geometric_spot_radius()
        for i, f in enumerate(fields):
            ref = opt.table[('trace', repr(f[0]), repr(f[1]), repr(waves[pidx]), 'ring')]
            cx, cy = _mean(ref['x'][-1]), _mean(ref['y'][-1])
            c.ensure_eq('C12.spot.centroid_is_mean_of_primary_wavelength_spots', c.val(cen[i][0]), cx)
            c.ensure_eq('C12.spot.centroid_is_mean_of_primary_wavelength_spots', c.val(cen[i][1]), cy)
            for j, w in enumerate(waves):
                rec = opt.table[('trace', repr(f[0]), repr(f[1]), repr(w), 'ring')]
                r2 = [(rec['x'][-1][r] - cx) ** 2 + (rec['y'][-1][r] - cy) ** 2 for r in range(nr)]
                got = c.val(rms[i][j])
                c.ensure_eq('C12.spot.rms_radius_about_that_centroid', got * got, _mean(r2))
                g = c.val(geo[i][j])
                c.ensure('C12.spot.geometric_radius_is_largest_distance',
                         s_and(*[g * g >= v for v in r2]) if c.symbolic else all(g * g >= v - 1e-12 for v in r2))
        # the stored data are not altered by the reductions
        for i, f in enumerate(fields):
            rec = opt.table[('trace', repr(f[0]), repr(f[1]), repr(waves[0]), 'ring')]
            c.ensure_eq('C12.spot.reductions_leave_data_untouched', c.val(sd.data[i][0][0], 0), rec['x'][-1][0])
    return spot


_spot_contract(False)
_spot_contract(True)


@contract('C12.FieldCurvature', [AN + 'field_curvature.py:FieldCurvature._intersection_parabasal_tangential',
                                 AN + 'field_curvature.py:FieldCurvature._intersection_parabasal_sagittal',
                                 AN + 'field_curvature.py:FieldCurvature._generate_data'], ['C12'], max_paths=16)
def field_curvature(c):
    A = c.mod('optiland.analysis.field_curvature')
    opt = spy_optic(c, 4, [0.55], 0)
    fc = A.FieldCurvature(opt, wavelengths=[0.55], num_points=2)
    tan_call, sag_call = opt.calls[0], opt.calls[1]
    c.ensure('C12.field_curvature.two_close_rays_about_the_chief_ray_per_field',
             [float(v) for v in np.ravel(tan_call[4])] == [-1e-05, 1e-05, -1e-05, 1e-05] and [float(v) for v in np.ravel(tan_call[3])] == [0.0] * 4
             and [float(v) for v in np.ravel(sag_call[3])] == [-1e-05, 1e-05, -1e-05, 1e-05] and [float(v) for v in np.ravel(tan_call[2])] == [0.0, 0.0, 1.0, 1.0])
    keys = [k for k in opt.table if k[0] == 'generic']
    rt_, rs_ = opt.table[keys[0]], opt.table[keys[1]]
    for f in range(2):
        i1, i2 = 2 * f, 2 * f + 1
        # tangential: the returned axial offset dz puts the point of ray 1 on the line of ray 2 (y-z plane)
        dz = c.val(fc.data[0][0], f)
        y1, z1, M1, N1 = rt_['y'][-1][i1], rt_['z'][-1][i1], rt_['M'][-1][i1], rt_['N'][-1][i1]
        y2, z2, M2, N2 = rt_['y'][-1][i2], rt_['z'][-1][i2], rt_['M'][-1][i2], rt_['N'][-1][i2]
        c.require(M1 * N2 - M2 * N1 != 0)
        c.require(N1 != 0)
        t1 = dz / N1
        Py_, Pz_ = y1 + t1 * M1, z1 + t1 * N1
        c.ensure_eq('C12.field_curvature.tangential_focus_is_intersection_of_the_two_rays', (Py_ - y2) * N2 - (Pz_ - z2) * M2, 0)
        dzs = c.val(fc.data[0][1], f)
        x1, z1, L1, N1 = rs_['x'][-1][i1], rs_['z'][-1][i1], rs_['L'][-1][i1], rs_['N'][-1][i1]
        x2, z2, L2, N2 = rs_['x'][-1][i2], rs_['z'][-1][i2], rs_['L'][-1][i2], rs_['N'][-1][i2]
        c.require(L1 * N2 - L2 * N1 != 0)
        c.require(N1 != 0)
        t2 = dzs / N1
        Px_, Pz_ = x1 + t2 * L1, z1 + t2 * N1
        c.ensure_eq('C12.field_curvature.sagittal_focus_is_intersection_of_the_two_rays', (Px_ - x2) * N2 - (Pz_ - z2) * L2, 0)


def _distortion_contract(kind):
    @contract('C12.Distortion.' + kind, [AN + 'distortion.py:Distortion._generate_data', AN + 'distortion.py:Distortion.__init__'], ['C12'],
              max_paths=16)
    def dist(c):
        A = c.mod('optiland.analysis.distortion')
        opt = spy_optic(c, 3, [0.55], 0)
        d = A.Distortion(opt, wavelengths=[0.55], num_points=3, distortion_type=kind)
        call = opt.calls[0]
        c.ensure('C12.distortion.chief_rays_over_the_field', call[0] == 'trace_generic' and call[3] == 0 and call[4] == 0
                 and [float(v) for v in np.ravel(call[1])] == [0.0, 0.0, 0.0] and abs(float(np.ravel(call[2])[2]) - 1.0) < 1e-12)
        rec = opt.table[[k for k in opt.table if k[0] == 'generic'][0]]
        yr = rec['y'][-1]
        mf = math.radians(14.0)
        Hy = [float(v) for v in np.linspace(1e-10, 1, 3)]
        for i in range(3):
            if kind == 'f-tan':
                fac = c.const(float(np.tan(Hy[i] * np.radians(14.0)))) / c.const(float(np.tan(1e-10 * np.radians(14.0))))
            else:
                fac = c.const(Hy[i]) * c.const(float(np.radians(14.0))) / c.const(float(np.tan(1e-10 * np.radians(14.0))))
            yp = yr[0] * fac
            c.require(yp != 0)
            c.ensure_eq('C12.distortion.relative_departure_from_the_small_field_scale_in_percent', c.val(d.data[0], i) * yp, 100 * (yr[i] - yp),
                        tol=1e-6)
    return dist


_distortion_contract('f-tan')
_distortion_contract('f-theta')


@contract('C12.RayFan', [AN + 'ray_fan.py:RayFan._generate_data', AN + 'ray_fan.py:RayFan.__init__'], ['C12'], max_paths=16)
def ray_fan(c):
    A = c.mod('optiland.analysis.ray_fan')
    waves = [0.4861, 0.5876]
    opt = spy_optic(c, 3, waves, 1, fields=((0.0, 0.7),))
    rf = A.RayFan(opt, num_points=2)        # even counts are made odd: 3 points
    c.ensure('C12.ray_fan.odd_number_of_points', rf.num_points == 3)
    f = (0.0, 0.7)
    want = []
    for w in waves:
        want += [('trace', 0.0, 0.7, w, 3, 'line_x'), ('trace', 0.0, 0.7, w, 3, 'line_y')]
    c.ensure('C12.ray_fan.documented_trace_calls', [tuple(x) for x in opt.calls] == want)
    refx = opt.table[('trace', '0.0', '0.7', repr(waves[1]), 'line_x')]['x'][-1][1]
    refy = opt.table[('trace', '0.0', '0.7', repr(waves[1]), 'line_y')]['y'][-1][1]
    for w in waves:
        rx = opt.table[('trace', '0.0', '0.7', repr(w), 'line_x')]
        ry = opt.table[('trace', '0.0', '0.7', repr(w), 'line_y')]
        for i in range(3):
            c.ensure_eq('C12.ray_fan.error_relative_to_primary_wavelength_chief_ray', c.val(rf.data[str(f)][str(w)]['x'], i), rx['x'][-1][i] - refx)
            c.ensure_eq('C12.ray_fan.error_relative_to_primary_wavelength_chief_ray', c.val(rf.data[str(f)][str(w)]['y'], i), ry['y'][-1][i] - refy)
            c.ensure_eq('C12.ray_fan.intensities_of_the_traced_rays', c.val(rf.data[str(f)][str(w)]['intensity_x'], i), rx['intensity'][-1][i])


def _rms_operand_contract(allw):
    @contract('C12.RayOperand.rms_spot_size.' + ('all' if allw else 'single'),
              ['optiland/optimization/operand/ray.py:RayOperand.rms_spot_size'], ['C12'], max_paths=32)
    def op(c):
        R = c.mod('optiland.optimization.operand.ray').RayOperand
        waves = [0.4861, 0.5876, 0.6563]
        opt = spy_optic(c, 3, waves, 1)
        val = c.val(R.rms_spot_size(opt, 2, 0.0, 0.7, 5, 'all' if allw else 0.5876, 'hexapolar'))
        if allw:
            recs = [opt.table[('trace', '0.0', '0.7', repr(w), 'hexapolar')] for w in waves]
            cx, cy = _mean(recs[1]['x'][2]), _mean(recs[1]['y'][2])           # centroid of the primary wavelength
            r2 = [(r['x'][2][i] - cx) ** 2 + (r['y'][2][i] - cy) ** 2 for r in recs for i in range(3)]
        else:
            r = opt.table[('trace', '0.0', '0.7', repr(0.5876), 'hexapolar')]
            cx, cy = _mean(r['x'][2]), _mean(r['y'][2])
            r2 = [(r['x'][2][i] - cx) ** 2 + (r['y'][2][i] - cy) ** 2 for i in range(3)]
        c.ensure_eq('C12.operand.rms_spot_size_about_the_primary_wavelength_centroid', val * val, _mean(r2))
    return op


_rms_operand_contract(False)
_rms_operand_contract(True)


@contract('C12.EncircledEnergy', [AN + 'encircled_energy.py:EncircledEnergy._plot_field', AN + 'encircled_energy.py:EncircledEnergy.centroid'],
          ['C12'], max_paths=200)
def encircled(c):
    """the encircled-energy curve (computed inside _plot_field) is non-decreasing and reaches the total energy"""
    A = c.mod('optiland.analysis.encircled_energy')
    ee_obj = object.__new__(A.EncircledEnergy)
    xs = [c.real('x%d' % i, -1, 1) for i in range(2)]
    ys = [c.real('y%d' % i, -1, 1) for i in range(2)]
    es = [c.real('e%d' % i, 0, 1, nonneg=True) for i in range(2)]
    captured = {}

    class Ax:
        def plot(self, r, e, **k):
            captured['r'], captured['ee'] = r, e

        def __getattr__(self, n):
            return lambda *a, **k: None
    rmax2 = [xs[i] ** 2 + ys[i] ** 2 for i in range(2)]
    lim = c.real('axis_lim', 1.5, 3.0, positive=True)         # >= every radius (it is the largest geometric radius)
    for v in rmax2:
        c.require(lim * lim >= v)
    ee_obj._plot_field(Ax(), [[c.arr(*xs), c.arr(*ys), c.arr(*es)]], (0.0, 0.0), lim, 3)
    ee = [c.val(captured['ee'], i) for i in range(3)]
    for i in range(2):
        c.ensure('C12.encircled_energy.non_decreasing_in_radius', ee[i + 1] >= ee[i])
    c.ensure_eq('C12.encircled_energy.reaches_total_transmitted_energy', ee[2], es[0] + es[1])
    # at every radius of the curve: the energy of exactly those rays that land within it (each ray with its own energy)
    ri = c.val(captured['r'], 1)                       # the middle radius of the curve
    want = 0
    for j in range(2):
        if c.decide(c.sqrt(rmax2[j]) <= ri):
            want = want + es[j]
    c.ensure_eq('C12.encircled_energy.is_the_energy_of_the_rays_within_the_radius', ee[1], want)


# ---- bounded tier: recomputation from independently traced rays on real lenses -----------------------------------
def _bounded(ct, tier, seed):
    import warnings
    from optiland import analysis
    from optiland.distribution import create_distribution
    from optiland.optimization.operand.ray import RayOperand
    warnings.simplefilter('ignore')
    np.seterr(all='ignore')
    t0 = time.time()
    rng = random.Random(seed * 11 + 5)
    clauses, fails = {}, []
    cases = 0

    def note(cid, ok, detail, inputs):
        c_ = clauses.setdefault(cid, {'paths': 0, 'proved': 0, 'backends': {}, 'failed': [], 'seconds': 0.0, 'bounded': True})
        c_['paths'] += 1
        if ok:
            c_['proved'] += 1
            c_['backends']['runtime'] = c_['backends'].get('runtime', 0) + 1
        else:
            fails.append({'clause': cid, 'draws': inputs, 'note': detail})

    def trace_ind(L, Hx, Hy, w, dist, n):
        d = create_distribution(dist)
        d.generate_points(n)
        vx, vy = L.fields.get_vig_factor(Hx, Hy)
        r = L.trace_generic(Hx, Hy, d.x * (1 - vx) ** 2 if False else d.x.copy(), d.y.copy(), w)
        return r
    lenses = []
    names = rt.sample_names()
    rng.shuffle(names)
    for (m, n) in names[:(4 if tier == 'quick' else len(names))]:
        lenses.append((n, lambda m=m, n=n: rt.make_sample(m, n)))
    for i in range(3 if tier == 'quick' else 30):
        st = rng.getstate()
        lenses.append(('random#%d' % i, lambda st=st: rt.random_lens(_rng(st), finite=False)))
    for lname, mk in lenses:
        try:
            L = mk()
        except Exception:
            continue
        inputs = {'lens': lname}
        lw = L.wavelengths.get_wavelengths()
        pw = L.primary_wavelength
        try:
            L.trace(0.0, 0.5, pw, 2, 'hexapolar')       # a lens that cannot be traced at all is not C12's subject
        except Exception:
            continue
        try:
            # explicit field and wavelength lists that differ from the lens's own (primary wavelength included, other position)
            waves = [pw] + [w for w in lw if w != pw][:1]
            flds = [(0.0, 0.35), (0.0, 0.8)]
            sd = analysis.SpotDiagram(L, fields=flds, wavelengths=waves, num_rings=3, distribution='hexapolar')
            cen = sd.centroid()
            rms = sd.rms_spot_radius()
            for i, f in enumerate(flds):
                xs, ys = [], []
                for w in waves:
                    r = L.trace(f[0], f[1], w, 3, 'hexapolar')
                    xs.append(L.surface_group.x[-1].copy())
                    ys.append(L.surface_group.y[-1].copy())
                cx, cy = np.mean(xs[0]), np.mean(ys[0])
                cases += 1
                note('C12.runtime.spot_centroid_explicit_lists', np.allclose([cen[i][0], cen[i][1]], [cx, cy], rtol=0, atol=1e-12, equal_nan=True),
                     '%s field %s: %s vs %s' % (lname, f, cen[i], (cx, cy)), inputs)
                for j in range(len(waves)):
                    want = np.sqrt(np.mean((xs[j] - cx) ** 2 + (ys[j] - cy) ** 2))
                    note('C12.runtime.spot_rms_explicit_lists', np.allclose(rms[i][j], want, rtol=1e-12, atol=1e-12, equal_nan=True), '%s' % lname, inputs)
        except Exception as ex:
            note('C12.runtime.analyses_accept_explicit_lists', False, 'SpotDiagram with explicit lists raised %s: %s' % (type(ex).__name__, ex), inputs)
        try:
            waves = [pw] + [w for w in lw if w != pw][:1]
            rf = analysis.RayFan(L, fields=[(0.0, 0.5)], wavelengths=waves, num_points=5)
            L.trace(0.0, 0.5, pw, 5, 'line_y')
            yref = L.surface_group.y[-1, 2]
            L.trace(0.0, 0.5, waves[-1], 5, 'line_y')
            want = L.surface_group.y[-1].copy() - yref
            cases += 1
            note('C12.runtime.ray_fan_explicit_lists', np.allclose(rf.data[str((0.0, 0.5))][str(waves[-1])]['y'], want, rtol=0, atol=1e-12, equal_nan=True), lname, inputs)
        except Exception as ex:
            note('C12.runtime.analyses_accept_explicit_lists', False, 'RayFan with explicit lists raised %s: %s' % (type(ex).__name__, ex), inputs)
        try:
            # field curvature against Coddington's equations along the chief ray is a differential statement: here the
            # parabasal result is compared with a finite-difference focus of two independently traced close rays
            fc = analysis.FieldCurvature(L, wavelengths=[pw], num_points=3)
            for k, Hy in enumerate(np.linspace(0, 1, 3)):
                dlt = 1e-5
                L.trace_generic(0.0, Hy, np.array([0.0, 0.0]), np.array([-dlt, dlt]), pw)
                sg = L.surface_group
                y1, y2, z1, z2 = sg.y[-1, 0], sg.y[-1, 1], sg.z[-1, 0], sg.z[-1, 1]
                m1, m2 = sg.M[-1, 0] / sg.N[-1, 0], sg.M[-1, 1] / sg.N[-1, 1]
                # y1 + m1 (z - z1) = y2 + m2 (z - z2)
                zf = (y2 - y1 + m1 * z1 - m2 * z2) / (m1 - m2)
                cases += 1
                note('C12.runtime.field_curvature_tangential_focus', np.allclose(zf - z1, fc.data[0][0][k], rtol=1e-6, atol=1e-9, equal_nan=True),
                     '%s Hy=%s: %s vs %s' % (lname, Hy, zf - z1, fc.data[0][0][k]), inputs)
        except Exception as ex:
            pass
        try:
            v = RayOperand.rms_spot_size(L, -1, 0.0, 0.7, 3, 'all', 'hexapolar')
            xs, ys = [], []
            for w in lw:
                L.trace(0.0, 0.7, w, 3, 'hexapolar')
                xs.append(L.surface_group.x[-1].copy())
                ys.append(L.surface_group.y[-1].copy())
            pi = L.wavelengths.primary_index
            cx, cy = np.mean(xs[pi]), np.mean(ys[pi])
            want = np.sqrt(np.mean(np.concatenate([(xs[i] - cx) ** 2 + (ys[i] - cy) ** 2 for i in range(len(lw))])))
            cases += 1
            note('C12.runtime.rms_spot_size_operand_all_wavelengths', np.allclose(v, want, rtol=1e-12, atol=1e-12, equal_nan=True), '%s: %s vs %s' % (lname, v, want), inputs)
        except Exception:
            pass
    return {'contract': ct.name, 'functions': ct.functions, 'props': ct.props,
            'symbolic': {'clauses': clauses, 'paths': 0, 'errors': [], 'solver_s': 0.0, 'samples': [], 'wd_assumed': [], 'assumed': []},
            'numeric': {'accepted': cases, 'rejected': 0, 'failures': fails[:10], 'concolic_agree': 0, 'encoder_mismatches': [],
                        'samples': [{'lenses': [n for n, _ in lenses][:8]}]}, 'wall_s': time.time() - t0}


def _rng(state):
    r = random.Random()
    r.setstate(state)
    return r


contract('C12.runtime', [AN + 'spot_diagram.py:SpotDiagram.__init__', AN + 'ray_fan.py:RayFan.__init__',
                         AN + 'field_curvature.py:FieldCurvature.__init__'], ['C12'], custom=_bounded)(lambda c: None)


def _measure_c12(L):
    from optiland import analysis
    pw = L.primary_wavelength
    sd = analysis.SpotDiagram(L, num_rings=3, distribution='hexapolar')
    rf = analysis.RayFan(L, num_points=5)
    out = {'spot_rms': np.array(sd.rms_spot_radius(), dtype=float), 'spot_centroid': np.array(sd.centroid(), dtype=float),
           'spot_geo': np.array(sd.geometric_spot_radius(), dtype=float)}
    f0 = L.fields.get_field_coords()[-1]
    out['ray_fan_y'] = np.array(rf.data[str(f0)][str(pw)]['y'], dtype=float)
    fc = analysis.FieldCurvature(L, wavelengths=[pw], num_points=3)
    out['field_curvature'] = np.array(fc.data, dtype=float)
    return out


contract('C12.runtime.requery', [AN + 'spot_diagram.py:SpotDiagram.__init__', AN + 'ray_fan.py:RayFan.__init__', AN + 'field_curvature.py:FieldCurvature.__init__'],
         ['C12', 'C13'], custom=rt.requery_custom(_measure_c12, 'C12.runtime.analyses_of_an_edited_lens_equal_those_of_a_lens_built_with_the_edits'))(lambda c: None)


# ---- bounded tier, second part: the analyses the statement names that have no contract above ------------------------------------
def _bounded_more(ct, tier, seed):
    import warnings
    from optiland import analysis
    from optiland.optimization.operand.ray import RayOperand
    warnings.simplefilter('ignore')
    np.seterr(all='ignore')
    t0 = time.time()
    rng = random.Random(seed * 19 + 1)
    clauses, fails, cases, used = {}, [], 0, []

    def note(cid, ok, detail, inputs):
        c_ = clauses.setdefault(cid, {'paths': 0, 'proved': 0, 'backends': {}, 'failed': [], 'seconds': 0.0, 'bounded': True})
        c_['paths'] += 1
        if ok:
            c_['proved'] += 1
            c_['backends']['runtime'] = c_['backends'].get('runtime', 0) + 1
        else:
            fails.append({'clause': cid, 'draws': inputs, 'note': detail})
    lenses = []
    names = rt.sample_names()
    rng.shuffle(names)
    for (m, n) in names[:(3 if tier == 'quick' else len(names))]:
        lenses.append((n, lambda m=m, n=n: rt.make_sample(m, n)))
    for i in range(3 if tier == 'quick' else 25):
        st = rng.getstate()
        lenses.append(('random#%d' % i, lambda st=st: rt.random_lens(_rng(st), finite=False)))
    eq = lambda a, b, tol=1e-10: bool(np.allclose(np.asarray(a, dtype=float), np.asarray(b, dtype=float), rtol=tol, atol=tol, equal_nan=True))
    for lname, mk in lenses:
        try:
            L = mk()
            pw = L.primary_wavelength
            L.trace(0.0, 0.5, pw, 2, 'hexapolar')
        except Exception:
            continue
        if L.field_type != 'angle' or L.obj_space_telecentric:
            continue
        inputs = {'lens': lname}
        used.append(lname)
        sg = L.surface_group
        # (a) RMS spot size versus field = the spot-diagram RMS radius at the fields (0, Hy), Hy = linspace(0, 1, n)
        try:
            nf = 3
            # every documented argument is honoured: default and non-default pupil sampling and ring / ray counts
            for dist_, nr_ in (('hexapolar', 3), ('uniform', 7), ('random', 0)):
                if dist_ == 'random':
                    continue                                  # unseeded sampling: excluded by C13's statement
                rv = analysis.RmsSpotSizeVsField(L, num_fields=nf, wavelengths=[pw], num_rings=nr_, distribution=dist_)
                for i, Hy in enumerate(np.linspace(0, 1, nf)):
                    L.trace(0.0, float(Hy), pw, nr_, dist_)
                    x, y = sg.x[-1].copy(), sg.y[-1].copy()
                    want = np.sqrt(np.mean((x - np.mean(x)) ** 2 + (y - np.mean(y)) ** 2))
                    cases += 1
                    note('C12.runtime.rms_spot_vs_field_is_spot_rms_at_each_field', eq(rv._spot_size[i][0], want) and eq(rv._field[i], (0.0, Hy)),
                         '%s Hy=%s %s/%d: %s vs %s' % (lname, Hy, dist_, nr_, rv._spot_size[i][0], want), inputs)
        except Exception as ex:
            note('C12.runtime.rms_spot_vs_field_is_spot_rms_at_each_field', False, 'raised %s: %s' % (type(ex).__name__, ex), inputs)
        # (b) grid distortion: real chief-ray landing points over the field grid, predicted points from the small-field scale
        try:
            for dtype_, npts in (('f-tan', 3), ('f-theta', 3), ('f-tan', 11), ('f-theta', 6)):
                gd = analysis.GridDistortion(L, num_points=npts, distortion_type=dtype_)
                ext = np.linspace(-np.sqrt(2) / 2, np.sqrt(2) / 2, npts)
                HX, HY = np.meshgrid(ext, ext)
                xr, yr = np.zeros((npts, npts)), np.zeros((npts, npts))
                for i in range(npts):
                    for j in range(npts):
                        L.trace_generic(float(HX[i, j]), float(HY[i, j]), 0.0, 0.0, pw)
                        xr[i, j], yr[i, j] = sg.x[-1, 0], sg.y[-1, 0]
                # small-field scale (image displacement per unit tangent / unit angle of field), measured separately in y and in x
                F = math.radians(float(L.fields.max_field))
                L.trace_generic(0.0, 1e-10, 0.0, 0.0, pw)
                sy = sg.y[-1, 0]
                L.trace_generic(1e-10, 0.0, 0.0, 0.0, pw)
                sx = sg.x[-1, 0]
                if dtype_ == 'f-tan':
                    xp, yp = sx / math.tan(1e-10 * F) * np.tan(HX * F), sy / math.tan(1e-10 * F) * np.tan(HY * F)
                else:
                    xp, yp = sx / (1e-10 * F) * HX * F, sy / (1e-10 * F) * HY * F
                cases += 1
                note('C12.runtime.grid_distortion_real_points_are_chief_ray_landing_points', eq(gd.data['xr'], xr) and eq(gd.data['yr'], yr),
                     '%s %s' % (lname, dtype_), inputs)
                # the predicted point of the grid node (Hx, Hy) must sit next to the real point of the same node
                note('C12.runtime.grid_distortion_predicted_points_belong_to_the_same_field_nodes', eq(gd.data['yp'], yp, 1e-7) and eq(gd.data['xp'], xp, 1e-7),
                     '%s %s: xp %s vs %s' % (lname, dtype_, gd.data['xp'][0], xp[0]), inputs)
                delta = np.sqrt((xp - xr) ** 2 + (yp - yr) ** 2)
                rp = np.sqrt(xp ** 2 + yp ** 2)
                # the axial node of an odd grid has no relative departure (its predicted radius is zero -- or a rounding residue of the
                # grid coordinates, 1e-17): it is not a candidate for the maximum
                off_axis = np.hypot(HX, HY) > 1e-9
                want_max = np.max(100 * delta[off_axis] / rp[off_axis])
                note('C12.runtime.grid_distortion_maximum_is_largest_relative_departure', eq(gd.data['max_distortion'], want_max, 1e-6),
                     '%s %s %d x %d: %s vs %s' % (lname, dtype_, npts, npts, gd.data['max_distortion'], want_max), inputs)
        except Exception as ex:
            note('C12.runtime.grid_distortion_real_points_are_chief_ray_landing_points', False, 'raised %s: %s' % (type(ex).__name__, ex), inputs)
        # (c) pupil aberration: departure of the real ray at the stop from the paraxial pupil coordinate, in percent of the stop radius
        try:
            stop = sg.stop_index
            ya, _ = L.paraxial.marginal_ray()
            d = float(ya[stop, 0])
            if abs(d) > 1e-9:
                npt = 5
                f0 = (0.0, 0.7)
                pa = analysis.PupilAberration(L, fields=[f0], wavelengths=[pw], num_points=npt)
                P = np.linspace(-1, 1, npt)
                ry = []
                rx = []
                for p_ in P:
                    L.trace_generic(f0[0], f0[1], 0.0, float(p_), pw)
                    ry.append(sg.y[stop, 0] if sg.intensity[stop, 0] != 0 else np.nan)
                    L.trace_generic(f0[0], f0[1], float(p_), 0.0, pw)
                    rx.append(sg.x[stop, 0] if sg.intensity[stop, 0] != 0 else np.nan)
                want_y = (P * d - np.array(ry)) / d * 100
                want_x = (P * d - np.array(rx)) / d * 100
                got = pa.data[str(f0)][str(pw)]
                cases += 1
                note('C12.runtime.pupil_aberration_is_percent_departure_at_the_stop', eq(got['y'], want_y, 1e-8) and eq(got['x'], want_x, 1e-8),
                     '%s: %s vs %s' % (lname, got['y'], want_y), inputs)
        except Exception as ex:
            note('C12.runtime.pupil_aberration_is_percent_departure_at_the_stop', False, 'raised %s: %s' % (type(ex).__name__, ex), inputs)
        # (d) real-ray operands: the coordinate / direction cosine of the single traced ray at the named surface
        try:
            k = rng.randrange(1, sg.num_surfaces)
            Hy, Px, Py = rng.uniform(0, 1), rng.uniform(-0.5, 0.5), rng.uniform(-0.5, 0.5)
            got = [getattr(RayOperand, a)(L, k, 0.0, Hy, Px, Py, pw) for a in ('x_intercept', 'y_intercept', 'z_intercept', 'L', 'M', 'N')]
            L.trace_generic(0.0, Hy, Px, Py, pw)
            want = [getattr(sg, a)[k, 0] for a in ('x', 'y', 'z', 'L', 'M', 'N')]
            cases += 1
            note('C12.runtime.real_ray_operands_are_the_traced_ray_at_that_surface', eq(got, want, 0), '%s surface %d' % (lname, k), inputs)
        except Exception as ex:
            note('C12.runtime.real_ray_operands_are_the_traced_ray_at_that_surface', False, 'raised %s: %s' % (type(ex).__name__, ex), inputs)
    return {'contract': ct.name, 'functions': ct.functions, 'props': ct.props,
            'symbolic': {'clauses': clauses, 'paths': 0, 'errors': [], 'solver_s': 0.0, 'samples': [], 'wd_assumed': [], 'assumed': []},
            'numeric': {'accepted': cases, 'rejected': 0, 'failures': fails[:10], 'concolic_agree': 0, 'encoder_mismatches': [],
                        'samples': [{'lenses': used[:8]}]}, 'wall_s': time.time() - t0}


contract('C12.runtime.more', [AN + 'rms_vs_field.py:RmsSpotSizeVsField.__init__', AN + 'grid_distortion.py:GridDistortion._generate_data',
                              AN + 'pupil_aberration.py:PupilAberration._generate_data', 'optiland/optimization/operand/ray.py:RayOperand.x_intercept',
                              'optiland/optimization/operand/ray.py:RayOperand.y_intercept', 'optiland/optimization/operand/ray.py:RayOperand.L'],
         ['C12'], custom=_bounded_more)(lambda c: None)


# concrete inputs found by the defect-hunting sub-agents (bounded replay, see contracts/hunt.py)
from . import hunt as _hunt  # noqa: E402
_hunt.register('C12')
