"""replay of the concrete inputs found by the defect-hunting sub-agents (DESIGN 0.3a): one bounded clause per stored script

Each /verif/hunt/<P>/finding<k>.py is a standalone program written from the property text alone: it drives the public API of the
library in the current directory, compares the answer with an independent first-principles computation and exits 1 when the property
is violated for that input, 0 when it holds.  A defect that was repaired must stay repaired (the clause passes); a defect that is
recorded in known_findings.json is reported as KNOWN-FINDING by the clause of its script and by nothing else, so any other violation
of the property is still a VIOLATION.  Bounded: these are single inputs, never counted as proved."""
import glob
import json
import os
import subprocess
import sys
import time
from concurrent.futures import ThreadPoolExecutor

from pyvc.vc import contract
from pyvc import twin

HERE = os.path.dirname(os.path.abspath(__file__))
HUNT = os.path.normpath(os.path.join(HERE, '..', 'hunt'))


def _functions(prop):
    out = []
    try:
        rep = json.load(open(os.path.join(HUNT, prop, 'report.json')))
        for f in rep.get('findings', []):
            rc = str(f.get('root_cause', ''))
            for tok in rc.replace(',', ' ').replace('(', ' ').replace(')', ' ').split():
                if tok.startswith('optiland/') and '.py' in tok:
                    out.append(tok.strip('`.;'))
                    break
    except Exception:
        pass
    return sorted(set(out)) or ['optiland/optic.py:Optic.trace']


def register(prop):
    scripts = sorted(glob.glob(os.path.join(HUNT, prop, 'finding*.py')))
    if not scripts:
        return

    def run(ct, tier, seed):
        t0 = time.time()
        repo = twin._STATE['repo']
        clauses, fails, errors = {}, [], []
        env = dict(os.environ, MPLBACKEND='Agg', PYTHONDONTWRITEBYTECODE='1')

        def one(path):
            try:
                p = subprocess.run([sys.executable, path], cwd=repo, env=env, stdout=subprocess.PIPE, stderr=subprocess.STDOUT, timeout=900)
                return path, p.returncode, p.stdout.decode('utf-8', 'replace')[-1500:]
            except subprocess.TimeoutExpired:
                return path, 'timeout', ''
        with ThreadPoolExecutor(max_workers=4) as ex:
            results = list(ex.map(one, scripts))
        for path, rc, tail in results:
            k = os.path.basename(path)[:-3]
            cid = '%s.hunt.%s' % (prop, k)
            c_ = clauses.setdefault(cid, {'paths': 0, 'proved': 0, 'backends': {}, 'failed': [], 'seconds': 0.0, 'bounded': True})
            c_['paths'] += 1
            if rc == 0:
                c_['proved'] += 1
                c_['backends']['runtime'] = 1
            elif rc == 1:
                fails.append({'clause': cid, 'draws': {'script': 'hunt/%s/%s.py' % (prop, k), 'run_as': 'cd <repo> && python <script>'},
                              'note': tail})
            else:
                errors.append('%s: exit status %r (neither 0 nor 1): %s' % (cid, rc, tail[-300:]))
        return {'contract': ct.name, 'functions': ct.functions, 'props': ct.props,
                'symbolic': {'clauses': clauses, 'paths': 0, 'errors': errors, 'solver_s': 0.0, 'samples': [], 'wd_assumed': [], 'assumed': []},
                'numeric': {'accepted': len(scripts), 'rejected': 0, 'failures': fails, 'concolic_agree': 0, 'encoder_mismatches': [],
                            'samples': [{'scripts': [os.path.basename(s) for s in scripts]}]}, 'wall_s': time.time() - t0}
    contract(prop + '.hunt', _functions(prop), [prop], custom=run)(lambda c: None)
