"""C06 -- analytically stigmatic systems are imaged perfectly.

Scenario contracts: the precondition fixes a closed-form stigmatic configuration with *symbolic* parameters (radius,
index, ray position / direction, travel direction); the body run is the real Surface.trace chain
(localize -> StandardGeometry.distance -> propagate -> refract/reflect -> globalize)."""
import math
from pyvc.vc import contract
from .common import *  # noqa
from .c09 import _stub_optic, _ray

PROPERTY = 'C06'
K_QUICK = 40
K_THOROUGH = 2000
FUNCS = ['optiland/surfaces/standard_surface.py:Surface._trace_real', 'optiland/surfaces/standard_surface.py:Surface._interact',
         'optiland/geometries/standard.py:StandardGeometry.distance', 'optiland/geometries/standard.py:StandardGeometry.surface_normal',
         'optiland/rays/real_rays.py:RealRays.refract', 'optiland/rays/real_rays.py:RealRays.reflect',
         'optiland/rays/real_rays.py:RealRays.propagate', 'optiland/coordinate_system.py:CoordinateSystem.localize',
         'optiland/coordinate_system.py:CoordinateSystem.globalize']


def _surface(c, R, k, n1, n2, z=0.0, mirror=False):
    surfs = c.mod('optiland.surfaces')
    mats = c.mod('optiland.materials')
    geos = c.mod('optiland.geometries')
    CoordinateSystem = c.mod('optiland.coordinate_system').CoordinateSystem
    return surfs.Surface(geos.StandardGeometry(CoordinateSystem(z=z), R, k), mats.IdealMaterial(n1, 0.0), mats.IdealMaterial(n2, 0.0),
                         is_reflective=mirror)


def _line_through(c, cid, P, D, Q):
    """the line {P + s D} passes through Q"""
    cr = cross(tuple(Q[i] - P[i] for i in range(3)), D)
    for i in range(3):
        c.ensure_eq(cid, cr[i], 0)


def _paraboloid_contract(sigma):
    @contract('C06.paraboloid_mirror.' + ('plus_z' if sigma > 0 else 'minus_z'), FUNCS, ['C06'], bundle=True, max_paths=64)
    def par(c):
        # collimated light travelling along sigma*z onto a paraboloid (k = -1) that opens against the light: focus at R/2
        f = c.real('focal_length', 5.0, 80.0, positive=True)
        R = -2 * f * sigma                       # vertex at 0, focus at z = R/2 = -sigma f
        x, y = c.real('x', -20, 20), c.real('y', -20, 20)
        z0 = -sigma * c.real('launch_distance', 1.0, 5.0, positive=True) * f      # launch plane beyond the focus, in front of the mirror
        surf = _surface(c, R, -1.0, 1.0, 1.0, mirror=True)
        r2 = x * x + y * y
        c.require(sigma * (r2 / (2 * R) - z0) > 0)          # the launch plane lies in front of the point where the ray meets the mirror
        rays = mk_rays(c, (x, y, z0), (0.0, 0.0, float(sigma)))
        surf.trace(rays)
        P, D = pos_of(c, rays), dir_of(c, rays)
        c.ensure_eq('C06.paraboloid.hit_on_surface', P[2], r2 / (2 * R))
        F = (0, 0, R / 2)
        _line_through(c, 'C06.paraboloid.reflected_ray_goes_through_the_focus', P, D, F)
        # equal optical paths from the incoming plane wavefront to the focus: (hit - z0)*sigma + |hit - F|, and |hit - F| = f + sigma*z_hit... stated squared
        path_to_hit = c.val(rays.opd)
        c.ensure_eq('C06.paraboloid.path_to_surface', path_to_hit, (P[2] - z0) * sigma)
        dist_F = f - sigma * P[2]                 # distance from the hit point to the focus (property of the parabola), >= 0
        c.ensure_eq('C06.paraboloid.distance_to_focus', norm2(tuple(P[i] - F[i] for i in range(3))), dist_F * dist_F)
        c.ensure_eq('C06.paraboloid.equal_optical_paths', path_to_hit + dist_F, f - sigma * z0)
        # image plane through the focus: every ray lands on the image point
        geos = c.mod('optiland.geometries')
        surfs = c.mod('optiland.surfaces')
        mats = c.mod('optiland.materials')
        CoordinateSystem = c.mod('optiland.coordinate_system').CoordinateSystem
        img = surfs.Surface(geos.Plane(CoordinateSystem(z=R / 2)), mats.IdealMaterial(1.0, 0.0), mats.IdealMaterial(1.0, 0.0))
        c.require(f - sigma * P[2] > 0)
        img.trace(rays)
        Q = pos_of(c, rays)
        c.ensure_eq('C06.paraboloid.every_ray_meets_the_image_point', Q[0], 0)
        c.ensure_eq('C06.paraboloid.every_ray_meets_the_image_point', Q[1], 0)
        c.ensure_eq('C06.paraboloid.total_path_is_constant', c.val(rays.opd), f - sigma * z0)
    return par


_paraboloid_contract(+1)
_paraboloid_contract(-1)


def _centre_contract(mirror, sigma):
    @contract('C06.sphere_centre.%s.%s' % ('mirror' if mirror else 'refract', 'plus_z' if sigma > 0 else 'minus_z'), FUNCS, ['C06'],
              bundle=True, max_paths=64, sqrt_factor=True)
    def cen(c):
        # a point source at the centre of curvature of a sphere: rays meet the surface normally
        Rm = c.real('radius', 5.0, 60.0, positive=True)
        R = -sigma * Rm                           # centre at z = R: behind the rays' starting point along the travel direction
        n1 = c.real('n1', 1.3, 4.0, positive=True)
        n2 = c.real('n2', 1.3, 4.0, positive=True)
        d = c.unit3('L', 'M', 'N')
        c.require(d[2] * sigma > 0)
        c.require(d[2] * d[2] > c.const(0.25))
        C = (0, 0, R)
        surf = _surface(c, R, 0.0, n1, n2, mirror=mirror)
        rays = mk_rays(c, C, d)
        surf.trace(rays)
        P, D = pos_of(c, rays), dir_of(c, rays)
        c.ensure_eq('C06.centre.hit_at_distance_R', norm2(tuple(P[i] - C[i] for i in range(3))), Rm * Rm)
        c.ensure_eq('C06.centre.path_is_index_times_radius', c.val(rays.opd), n1 * Rm)
        if mirror:
            for i in range(3):
                c.ensure_eq('C06.centre.mirror_returns_ray_to_the_centre', D[i], -d[i])
        else:
            for i in range(3):
                c.ensure_eq('C06.centre.refracted_ray_undeviated', D[i], d[i])
    return cen


for _m in (True, False):
    for _s in (+1, -1):
        _centre_contract(_m, _s)


def _aplanatic_contract(sigma):
    @contract('C06.aplanatic.' + ('plus_z' if sigma > 0 else 'minus_z'), FUNCS, ['C06'], bundle=True, numeric_only=True)
    def apl(c):
        # aplanatic points of a refracting sphere of radius r centred at C: object at distance r n2/n1 from C, image at r n1/n2
        # (both on the same side of C); every ray aimed from the object point refracts on a line through the image point
        r = c.real('radius', 5.0, 60.0, positive=True)
        n1 = c.real('n1', 1.3, 4.0, positive=True)      # medium of the object point (inside the sphere side)
        n2 = c.real('n2', 1.3, 4.0, positive=True)
        c.require(n1 > n2)                                # the object point lies inside the sphere: real rays reach the surface
        R = -sigma * r                                    # surface vertex at 0, centre of curvature at z = R (rays leave the sphere)
        Cz = R
        O = (0, 0, Cz - sigma * r * n2 / n1)               # both points lie on the far side of the centre from the exit dome
        I_ = (0, 0, Cz - sigma * r * n1 / n2)
        d = c.unit3('L', 'M', 'N')
        c.require(d[2] * sigma > 0)
        c.require(d[2] * d[2] > c.const(0.5))
        surf = _surface(c, R, 0.0, n1, n2)
        rays = mk_rays(c, O, d)
        surf.trace(rays)
        P, D = pos_of(c, rays), dir_of(c, rays)
        c.require(c.isfinite(P[0]))
        c.ensure_eq('C06.aplanatic.hit_on_sphere', norm2((P[0], P[1], P[2] - Cz)), r * r)
        _line_through(c, 'C06.aplanatic.refracted_ray_line_through_image_point', P, D, I_)
        c.ensure_eq('C06.aplanatic.unit_direction', norm2(D), 1)
    return apl


_aplanatic_contract(+1)
_aplanatic_contract(-1)


def _hyperbolic_contract(sigma):
    @contract('C06.plano_hyperbolic.' + ('plus_z' if sigma > 0 else 'minus_z'), FUNCS, ['C06'], bundle=True, numeric_only=True)
    def hyp(c):
        # collimated light inside glass (index n) leaving through a surface with conic constant -n^2: perfect focus in air
        n = c.real('n', 1.3, 4.0, positive=True)
        c.require(n > 1)
        Rm = c.real('radius', 5.0, 60.0, positive=True)
        R = -sigma * Rm
        x, y = c.real('x', -2, 2), c.real('y', -2, 2)
        z0 = -sigma * c.real('launch_distance', 1.0, 5.0, positive=True)
        surf = _surface(c, R, -n * n, n, 1.0)
        rays = mk_rays(c, (x, y, z0), (0.0, 0.0, float(sigma)))
        surf.trace(rays)
        P, D = pos_of(c, rays), dir_of(c, rays)
        c.require(c.isfinite(P[2]))
        zf = R / (1 - n)                                   # paraxial focus n2 R/(n2 - n1) with n2 = 1, n1 = n
        _line_through(c, 'C06.hyperbolic.refracted_ray_through_the_focus', P, D, (0, 0, zf))
        # equal optical paths: n * (z_hit - z0)*sigma + |hit - F| is the same for every ray
        F = (0, 0, zf)
        dist2 = norm2(tuple(P[i] - F[i] for i in range(3)))
        want = (zf * sigma) - n * sigma * P[2]              # = f + n*(0 - z_hit)*sigma ... distance from the hit point to F
        c.ensure_eq('C06.hyperbolic.distance_to_focus', dist2, want * want)
        c.ensure_eq('C06.hyperbolic.equal_optical_paths', c.val(rays.opd) + want, zf * sigma - n * sigma * z0)
    return hyp


_hyperbolic_contract(+1)
_hyperbolic_contract(-1)


@contract('C06.wavefront_zero', ['optiland/wavefront.py:Wavefront._opd_image_to_xp', 'optiland/wavefront.py:Wavefront._generate_data',
                                 'optiland/wavefront.py:Wavefront._generate_field_data'], ['C06'], max_paths=32)
def wavefront_zero(c):
    """when every ray meets the chief ray's image point with the same optical path, the reported OPD is zero"""
    W = c.mod('optiland.wavefront')
    D = c.mod('optiland.distribution')
    ch = _ray(c, 'c')
    ry = _ray(c, 'r')
    for k in ('x', 'y', 'z', 'opd'):
        ry[k] = list(ch[k])                        # same landing point, same path; free direction
    opt = _stub_optic(c, {'chief': lambda *a: ch, 'bundle': lambda *a: ry}, field_type='object_height', xpl=c.real('xpl', -60, -20),
                      pos_last=c.real('z_image', 99, 101), epd=c.real('EPD', 1, 8, positive=True))
    dist = D.create_distribution('line_y')
    dist.x, dist.y = c.arr(0.0), c.arr(c.real('Py', -1, 1))
    w = W.Wavefront(opt, fields=[(0.0, 0.0)], wavelengths=[c.real('wl', 0.4, 0.7, positive=True)], num_rays=1, distribution=dist)
    c.ensure_eq('C06.wavefront.stigmatic_bundle_has_zero_opd', c.val(w.data[0][0][0]), 0)


# ---- centre of curvature, refracting case, by composition of contracts -----------------------------------------------------
# C02 proves for StandardGeometry that the reported distance ends on the quadric and the reported normal is the unit gradient
# there; for a ray from the centre of a sphere that point is C + R d and the unit gradient is +-d (C06.centre.hit_at_distance_R
# above).  With a geometry that returns exactly that (any geometry satisfying the C02 contract), the *real*
# Surface._trace_real / RealRays.refract must leave the direction unchanged, for every index pair -- all inputs, no sampling.
def _centre_refract_modular(sign):
    from .c02 import _abstract_geometry

    @contract('C06.sphere_centre.refract.by_contract.' + ('normal_along_ray' if sign > 0 else 'normal_against_ray'), FUNCS, ['C06'],
              bundle=True, max_paths=64)
    def cm(c):
        surfs, mats = c.mod('optiland.surfaces'), c.mod('optiland.materials')
        CoordinateSystem = c.mod('optiland.coordinate_system').CoordinateSystem
        Rm = c.real('radius', 5.0, 60.0, positive=True)
        n1, n2 = c.real('n1', 1.3, 4.0, positive=True), c.real('n2', 1.3, 4.0, positive=True)
        d = c.unit3('L', 'M', 'N')
        cs = CoordinateSystem()
        geo = _abstract_geometry(c, cs, Rm, tuple(sign * x for x in d))
        surf = surfs.Surface(geo, mats.IdealMaterial(n1, 0.0), mats.IdealMaterial(n2, 0.0))
        Cz = c.real('centre_z', -60, 60)
        rays = mk_rays(c, (0.0, 0.0, Cz), d)
        surf.trace(rays)
        P, D = pos_of(c, rays), dir_of(c, rays)
        for i in range(3):
            c.ensure_eq('C06.centre.by_contract.refracted_ray_undeviated', D[i], d[i])
        c.ensure_eq('C06.centre.by_contract.path_is_index_times_radius', c.val(rays.opd), n1 * Rm)
        c.ensure_eq('C06.centre.by_contract.hit_at_distance_R', norm2((P[0], P[1], P[2] - Cz)), Rm * Rm)
    return cm


_centre_refract_modular(+1)
_centre_refract_modular(-1)


def _aplanatic_modular(sigma, sign):
    from .c02 import _abstract_geometry

    @contract('C06.aplanatic.by_contract.%s.%s' % ('plus_z' if sigma > 0 else 'minus_z', 'n_out' if sign > 0 else 'n_in'), FUNCS, ['C06'],
              bundle=True, max_paths=64, groebner_s=60, sqrt_factor=True, concolic=False)
    def am(c):
        """aplanatic points of a refracting sphere, by composition: the hit point is *any* point C + r u of the exit dome and the
        normal there is +-u (the C02 contract of StandardGeometry); the real refraction must send the ray from the object point
        C - sigma r (n2/n1) z along a line through C - sigma r (n1/n2) z"""
        surfs, mats = c.mod('optiland.surfaces'), c.mod('optiland.materials')
        CoordinateSystem = c.mod('optiland.coordinate_system').CoordinateSystem
        r = c.real('radius', 5.0, 60.0, positive=True)
        n1, n2 = c.real('n1', 1.3, 4.0, positive=True), c.real('n2', 1.3, 4.0, positive=True)
        c.require(n1 > n2)
        if c.mode == 'num':
            u = c.unit3('ux', 'uy', 'uz')
            if u[2] * sigma <= 0:
                u = (u[0], u[1], -u[2])
            c.require(abs(u[2]) > 1e-3)
        else:
            # exit dome: sigma u_z = w > 0 (a positive symbol, so sums of positive monomials are decided without forks)
            w = c.real('uz_towards_exit', 0.01, 1.0, positive=True)
            u = (c.real('ux', -1, 1), c.real('uy', -1, 1), sigma * w)
            c.require(u[0] * u[0] + u[1] * u[1] + w * w == 1)
        Cz = -sigma * r
        O = (0, 0, Cz - sigma * r * n2 / n1)
        I_ = (0, 0, Cz - sigma * r * n1 / n2)
        P = (r * u[0], r * u[1], Cz + r * u[2])
        v = tuple(P[i] - O[i] for i in range(3))
        m = c.sqrt(norm2(v))
        d = tuple(x / m for x in v)
        geo = _abstract_geometry(c, CoordinateSystem(), m, tuple(sign * x for x in u))
        surf = surfs.Surface(geo, mats.IdealMaterial(n1, 0.0), mats.IdealMaterial(n2, 0.0))
        rays = mk_rays(c, O, d)
        surf.trace(rays)
        Q, D = pos_of(c, rays), dir_of(c, rays)
        for i in range(3):
            c.ensure_eq('C06.aplanatic.by_contract.hit_point_is_the_dome_point', Q[i], P[i])
        _line_through(c, 'C06.aplanatic.by_contract.refracted_ray_line_through_image_point', Q, D, I_)
        c.ensure_eq('C06.aplanatic.by_contract.unit_direction', norm2(D), 1)
    return am


for _s in (+1, -1):
    for _g in (+1, -1):
        _aplanatic_modular(_s, _g)


def _hyperbolic_modular(sigma, sign):
    from .c02 import _abstract_geometry

    @contract('C06.plano_hyperbolic.by_contract.%s.%s' % ('plus_z' if sigma > 0 else 'minus_z', 'n_out' if sign > 0 else 'n_in'), FUNCS, ['C06'],
              bundle=True, max_paths=64, groebner_s=60, sqrt_factor=True, concolic=False)
    def hm(c):
        """collimated light in glass (index n) leaving through a conic with k = -n^2, by composition: the hit point is *any*
        point (x, y, z) of the vertex sheet of that conic, the normal there is +- its unit gradient (C02 contract of
        StandardGeometry); the real refraction must send the ray through the paraxial focus R/(1 - n), with equal optical paths"""
        surfs, mats = c.mod('optiland.surfaces'), c.mod('optiland.materials')
        CoordinateSystem = c.mod('optiland.coordinate_system').CoordinateSystem
        n = 1 + c.real('n_minus_1', 0.3, 3.0, positive=True)      # glass: n > 1 (written so that sums of positive terms are decided)
        Rm = c.real('radius', 5.0, 60.0, positive=True)
        R = -sigma * Rm
        k = -n * n
        z0 = -sigma * c.real('launch_distance', 1.0, 5.0, positive=True)
        x, y = c.real('x', -2, 2), c.real('y', -2, 2)
        if c.mode == 'num':
            r2 = x * x + y * y
            z = r2 / (R * (1 + math.sqrt(1 - (1 + k) * r2 / (R * R))))
        else:
            z = -sigma * c.real('sag_depth', 0.0, 1.0, nonneg=True)          # the vertex sheet: z has the sign of R
            c.require(x * x + y * y + (1 + k) * z * z - 2 * R * z == 0)
        grad = (2 * x, 2 * y, 2 * (1 + k) * z - 2 * R)
        g = c.sqrt(norm2(grad))
        nrm = tuple(sign * v / g for v in grad)
        t = sigma * (z - z0)
        c.require(t > 0)                                   # the rays are launched in front of the surface
        geo = _abstract_geometry(c, CoordinateSystem(), t, nrm)
        surf = surfs.Surface(geo, mats.IdealMaterial(n, 0.0), mats.IdealMaterial(1.0, 0.0))
        rays = mk_rays(c, (x, y, z0), (0.0, 0.0, float(sigma)))
        surf.trace(rays)
        P, D = pos_of(c, rays), dir_of(c, rays)
        zf = R / (1 - n)
        for i, v in enumerate((x, y, z)):
            c.ensure_eq('C06.hyperbolic.by_contract.hit_point_is_the_conic_point', P[i], v)
        _line_through(c, 'C06.hyperbolic.by_contract.refracted_ray_through_the_focus', P, D, (0, 0, zf))
        want = (zf * sigma) - n * sigma * z
        c.ensure_eq('C06.hyperbolic.by_contract.distance_to_focus', norm2((x, y, z - zf)), want * want)
        c.ensure_eq('C06.hyperbolic.by_contract.equal_optical_paths', c.val(rays.opd) + want, zf * sigma - n * sigma * z0)
    return hm


for _s in (+1, -1):
    for _g in (+1, -1):
        _hyperbolic_modular(_s, _g)


# ---- bounded: whole two-mirror telescopes (stigmatic on axis in closed form) through the public API ---------------------------------
def _two_mirror(ct, tier, seed):
    """paraboloid primary + conic secondary whose geometric foci are the prime focus and the final image point (Cassegrain:
    convex hyperboloid in front of the prime focus; Gregorian: concave ellipsoid behind it), built with add_surface and traced with
    Optic.trace: every ray reaches the closed-form image point with equal optical paths, whatever the aperture"""
    import random
    import time
    import warnings
    import numpy as np
    from optiland.optic import Optic
    warnings.simplefilter('ignore')
    np.seterr(all='ignore')
    t0 = time.time()
    rng = random.Random(seed * 53 + 12)
    clauses, fails, cases = {}, [], 0

    def note(cid, ok, detail, inputs):
        c_ = clauses.setdefault(cid, {'paths': 0, 'proved': 0, 'backends': {}, 'failed': [], 'seconds': 0.0, 'bounded': True})
        c_['paths'] += 1
        if ok:
            c_['proved'] += 1
            c_['backends']['runtime'] = c_['backends'].get('runtime', 0) + 1
        else:
            fails.append({'clause': cid, 'draws': inputs, 'note': detail})
    for i in range(4 if tier == 'quick' else 24):
        f1 = rng.uniform(80, 200)
        kind = 'cassegrain' if i % 2 == 0 else 'gregorian'
        d = f1 * (rng.uniform(0.55, 0.85) if kind == 'cassegrain' else rng.uniform(1.15, 1.4))     # primary -> secondary
        sp = d + rng.uniform(5, 40)                                                               # secondary -> image (behind the primary)
        s_ = abs(f1 - d)                                                                          # secondary vertex -> prime focus
        if kind == 'cassegrain':
            a, cc = (sp - s_) / 2, (sp + s_) / 2
            R2, k2 = -(cc * cc - a * a) / a, -(cc / a) ** 2
        else:
            a, cc = (sp + s_) / 2, (sp - s_) / 2
            R2, k2 = (a * a - cc * cc) / a, -(cc / a) ** 2
        epd = f1 / rng.uniform(2.0, 8.0)
        L = Optic()
        L.add_surface(index=0, thickness=np.inf)
        L.add_surface(index=1, radius=-2 * f1, conic=-1.0, thickness=-d, material='mirror', is_stop=True)
        L.add_surface(index=2, radius=R2, conic=k2, thickness=sp, material='mirror')
        L.add_surface(index=3)
        L.set_aperture('EPD', epd)
        L.set_field_type('angle')
        L.add_field(y=0)
        L.add_wavelength(0.55, is_primary=True)
        inputs = {'kind': kind, 'f1': f1, 'd': d, 'sp': sp, 'EPD': epd}
        try:
            L.trace(0, 0, 0.55, num_rays=4, distribution='hexapolar')
        except Exception as ex:
            note('C06.runtime.two_mirror_telescope_traces', False, '%s: %s' % (type(ex).__name__, ex), inputs)
            continue
        sg = L.surface_group
        x, y, opl = sg.x[-1], sg.y[-1], sg.opd[-1]
        cases += 1
        fin = bool(np.all(np.isfinite(x)) and np.all(np.isfinite(opl)))
        note('C06.runtime.two_mirror_every_ray_reaches_the_image_surface', fin, 'launched at z = %s with N = %s' % (sg.z[0][0], sg.N[0][0]), inputs)
        if fin:
            note('C06.runtime.two_mirror_every_ray_meets_the_image_point', float(np.max(np.hypot(x, y))) <= 1e-9 * f1, 'max radius %.3e' % np.max(np.hypot(x, y)), inputs)
            note('C06.runtime.two_mirror_equal_optical_paths', float(np.ptp(opl)) <= 1e-9 * f1, 'spread %.3e' % np.ptp(opl), inputs)
    # round 7: an ellipsoidal mirror *immersed* in a medium of index n0 images one geometric focus onto the other; both legs are
    # in that medium, so every optical path is n0 * 2a (a mirror that leaves the rays in another medium than it found them in
    # keeps the spot perfect but spreads the optical paths)
    from optiland.materials import IdealMaterial
    for i in range(4 if tier == 'quick' else 24):
        a_ = rng.uniform(60, 150)
        c_ = a_ * rng.uniform(0.2, 0.6)
        n0 = (1.0, 1.33, 1.5, 1.7)[i % 4]
        epd = a_ * rng.uniform(0.2, 0.6)
        L = Optic()
        L.add_surface(index=0, thickness=a_ + c_, material=IdealMaterial(n0))
        L.add_surface(index=1, radius=-(a_ * a_ - c_ * c_) / a_, conic=-(c_ / a_) ** 2, thickness=-(a_ - c_), material='mirror', is_stop=True)
        L.add_surface(index=2)
        L.set_aperture('EPD', epd)
        L.set_field_type('object_height')
        L.add_field(y=0)
        L.add_wavelength(0.55, is_primary=True)
        inputs = {'kind': 'immersed ellipsoid, far focus -> near focus', 'a': a_, 'c': c_, 'n0': n0, 'EPD': epd}
        try:
            L.trace(0, 0, 0.55, num_rays=4, distribution='hexapolar')
        except Exception as ex:
            note('C06.runtime.immersed_ellipsoid_traces', False, '%s: %s' % (type(ex).__name__, ex), inputs)
            continue
        sg = L.surface_group
        x, y, opl = sg.x[-1], sg.y[-1], sg.opd[-1]
        cases += 1
        fin = bool(np.all(np.isfinite(x)) and np.all(np.isfinite(opl)))
        note('C06.runtime.immersed_ellipsoid_every_ray_reaches_the_image_surface', fin, 'x %s' % (x[:3],), inputs)
        if fin:
            note('C06.runtime.immersed_ellipsoid_every_ray_meets_the_image_point', float(np.max(np.hypot(x, y))) <= 1e-9 * a_, 'max radius %.3e' % np.max(np.hypot(x, y)), inputs)
            note('C06.runtime.immersed_ellipsoid_optical_paths_are_n0_times_2a', float(np.max(np.abs(opl - n0 * 2 * a_))) <= 1e-9 * a_,
                 'optical paths %s, n0*2a = %.9g' % (np.round(opl[:4], 9), n0 * 2 * a_), inputs)
    return {'contract': ct.name, 'functions': ct.functions, 'props': ct.props,
            'symbolic': {'clauses': clauses, 'paths': 0, 'errors': [], 'solver_s': 0.0, 'samples': [], 'wd_assumed': [], 'assumed': []},
            'numeric': {'accepted': cases, 'rejected': 0, 'failures': fails[:10], 'concolic_agree': 0, 'encoder_mismatches': [],
                        'samples': [{'systems': 'Cassegrain / Gregorian / immersed ellipsoid'}]}, 'wall_s': time.time() - t0}


contract('C06.runtime.two_mirror', ['optiland/optic.py:Optic.trace', 'optiland/rays/ray_generator.py:RayGenerator._get_starting_z_offset',
                                    'optiland/surfaces/surface_group.py:SurfaceGroup.trace'], ['C06'], custom=_two_mirror)(lambda c: None)


def _retuned(ct, tier, seed):
    """bounded, edit-then-ask: a plano-hyperbolic singlet (k = -n^2, R = -(n - 1) f) is traced, then retuned *in place* to another
    glass (set_index, set_conic, set_radius) and traced again at the same wavelength: it must be as stigmatic as a lens built
    directly for the new glass"""
    import random
    import time
    import warnings
    import numpy as np
    from optiland.optic import Optic
    from optiland.materials import IdealMaterial
    warnings.simplefilter('ignore')
    np.seterr(all='ignore')
    t0 = time.time()
    rng = random.Random(seed * 67 + 16)
    clauses, fails, cases = {}, [], 0
    cid = 'C06.runtime.singlet_retuned_in_place_is_stigmatic_for_its_current_glass'
    c_ = clauses.setdefault(cid, {'paths': 0, 'proved': 0, 'backends': {}, 'failed': [], 'seconds': 0.0, 'bounded': True})
    for i in range(2 if tier == 'quick' else 8):
        f = rng.uniform(60, 150)
        n_seq = [rng.uniform(1.4, 1.9) for _ in range(3)]
        L = Optic()
        L.add_surface(index=0, thickness=np.inf)
        L.add_surface(index=1, radius=np.inf, thickness=5.0, material=IdealMaterial(n_seq[0]), is_stop=True)
        L.add_surface(index=2, radius=-(n_seq[0] - 1) * f, conic=-n_seq[0] ** 2, thickness=f)
        L.add_surface(index=3)
        L.set_aperture('EPD', f / 5.0)
        L.set_field_type('angle')
        L.add_field(y=0)
        L.add_wavelength(0.55, is_primary=True)
        for step, n_ in enumerate(n_seq):
            if step:
                L.set_index(n_, 1)
                L.set_conic(-n_ ** 2, 2)
                L.set_radius(-(n_ - 1) * f, 2)
            L.trace(0, 0, 0.55, num_rays=3, distribution='hexapolar')
            sg = L.surface_group
            x, y, opl = sg.x[-1], sg.y[-1], sg.opd[-1]
            cases += 1
            c_['paths'] += 1
            ok = bool(np.all(np.isfinite(x))) and float(np.max(np.hypot(x, y))) <= 1e-9 * f and float(np.ptp(opl)) <= 1e-9 * f
            if ok:
                c_['proved'] += 1
                c_['backends']['runtime'] = c_['backends'].get('runtime', 0) + 1
            else:
                fails.append({'clause': cid, 'draws': {'f': f, 'indices': n_seq, 'step': step},
                              'note': 'after %d in-place glass changes: spot radius %.3e, path spread %.3e' % (step, float(np.nanmax(np.hypot(x, y))), float(np.ptp(opl)))})
    return {'contract': ct.name, 'functions': ct.functions, 'props': ct.props,
            'symbolic': {'clauses': clauses, 'paths': 0, 'errors': [], 'solver_s': 0.0, 'samples': [], 'wd_assumed': [], 'assumed': []},
            'numeric': {'accepted': cases, 'rejected': 0, 'failures': fails[:10], 'concolic_agree': 0, 'encoder_mismatches': [],
                        'samples': [{'lens': 'plano-hyperbolic singlet retuned twice'}]}, 'wall_s': time.time() - t0}


contract('C06.runtime.retuned', ['optiland/optic.py:Optic.set_index', 'optiland/optic.py:Optic.set_conic', 'optiland/optic.py:Optic.set_radius',
                                 SS_ + ':Surface._trace_real' if 'SS_' in globals() else 'optiland/surfaces/standard_surface.py:Surface._trace_real'],
         ['C06'], custom=_retuned)(lambda c: None)


# concrete inputs found by the defect-hunting sub-agents (bounded replay, see contracts/hunt.py)
from . import hunt as _hunt  # noqa: E402
_hunt.register('C06')
