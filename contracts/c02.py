"""C02 -- every traced ray obeys Snell / reflection on the prescribed surface.

Contracts on the real kernels; clause ids are listed in LEDGER.json."""
from pyvc.vc import contract
from .common import *  # noqa

PROPERTY = 'C02'
K_QUICK = 20
K_THOROUGH = 400


@contract('C02.RealRays.refract', [RR + ':RealRays.refract', RR + ':RealRays._align_surface_normal'],
          ['C02'], bundle=True)
def refract(c):
    k0 = c.unit3('L', 'M', 'N')
    n = c.unit3('nx', 'ny', 'nz')
    n1 = c.real('n1', 1.0, 4.0, positive=True)
    n2 = c.real('n2', 1.0, 4.0, positive=True)
    d0 = dot(k0, n)
    c.require(d0 != 0)                      # grazing incidence: sign(0) = 0 zeroes the normal
    u = n1 / n2
    rad = 1 - u * u * (1 - d0 * d0)
    c.require(rad > 0)                      # strictly below the critical angle
    rays = mk_rays(c, (0.0, 0.0, 0.0), k0)
    rays.refract(c.arr(n[0]), c.arr(n[1]), c.arr(n[2]), n1, n2)
    k1 = dir_of(c, rays)
    c.ensure_eq('C02.refract.unit', norm2(k1), 1)
    a, b = cross(k0, n), cross(k1, n)
    for i, ax in enumerate('xyz'):
        c.ensure_eq('C02.refract.snell_' + ax, n1 * a[i], n2 * b[i])
    sg = 1 if c.decide(d0 > 0) else -1
    K = c.abstract('K', dot(k1, n))
    D = c.abstract('D', d0)
    root = c.sqrt(rad)
    c.ensure('C02.refract.halfspace', K * D > 0, using=[K * sg == root, root > 0])
    for i, nm in enumerate(('L0', 'M0', 'N0')):
        c.ensure_eq('C02.refract.saves_incident', c.val(getattr(rays, nm)), k0[i])


@contract('C02.RealRays.refract.tir', [RR + ':RealRays.refract'], ['C02'], bundle=True, ieee=True)
def refract_tir(c):
    k0 = c.unit3('L', 'M', 'N')
    n = c.unit3('nx', 'ny', 'nz')
    n1 = c.real('n1', 1.0, 4.0, positive=True)
    n2 = c.real('n2', 1.0, 4.0, positive=True)
    d0 = dot(k0, n)
    u = n1 / n2
    c.require(d0 != 0)
    c.require(1 - u * u * (1 - d0 * d0) < 0)    # total internal reflection
    rays = mk_rays(c, (0.0, 0.0, 0.0), k0)
    rays.refract(c.arr(n[0]), c.arr(n[1]), c.arr(n[2]), n1, n2)
    for nm in 'LMN':
        c.ensure('C02.refract.tir_nonfinite', not c.isfinite(getattr(rays, nm)))


@contract('C02.RealRays.reflect', [RR + ':RealRays.reflect', RR + ':RealRays._align_surface_normal'],
          ['C02'], bundle=True)
def reflect(c):
    k0 = c.unit3('L', 'M', 'N')
    n = c.unit3('nx', 'ny', 'nz')
    d0 = dot(k0, n)
    c.require(d0 != 0)
    rays = mk_rays(c, (0.0, 0.0, 0.0), k0)
    rays.reflect(c.arr(n[0]), c.arr(n[1]), c.arr(n[2]))
    k1 = dir_of(c, rays)
    c.ensure_eq('C02.reflect.unit', norm2(k1), 1)
    for i, ax in enumerate('xyz'):
        c.ensure_eq('C02.reflect.law_' + ax, k1[i], k0[i] - 2 * d0 * n[i])
    c.ensure_eq('C02.reflect.halfspace', dot(k1, n), -d0)


def _rot_contract(axis):
    # spec rotation (right-handed about the axis) written independently of the code
    def spec(c, v, a):
        cs, sn = c.cos(a), c.sin(a)
        x, y, z = v
        if axis == 'x':
            return (x, y * cs - z * sn, y * sn + z * cs)
        if axis == 'y':
            return (x * cs + z * sn, y, -x * sn + z * cs)
        return (x * cs - y * sn, x * sn + y * cs, z)

    @contract('C02.RealRays.rotate_' + axis, [RR + ':RealRays.rotate_' + axis], ['C02', 'C07'], bundle=True)
    def rot(c):
        p = free_point(c)
        d = c.unit3('L', 'M', 'N')
        a = c.real('angle', -3.2, 3.2)
        rays = mk_rays(c, p, d)
        getattr(rays, 'rotate_' + axis)(a)
        p1, d1 = pos_of(c, rays), dir_of(c, rays)
        sp_, sd_ = spec(c, p, a), spec(c, d, a)
        for i, ax in enumerate('xyz'):
            c.ensure_eq('C02.rotate_%s.position_%s' % (axis, ax), p1[i], sp_[i])
            c.ensure_eq('C02.rotate_%s.direction_%s' % (axis, ax), d1[i], sd_[i])
        c.ensure_eq('C02.rotate_%s.isometry' % axis, norm2(p1), norm2(p))
        c.ensure_eq('C02.rotate_%s.unit_direction' % axis, norm2(d1), 1)
        getattr(rays, 'rotate_' + axis)(-a)
        p2, d2 = pos_of(c, rays), dir_of(c, rays)
        for i, ax in enumerate('xyz'):
            c.ensure_eq('C02.rotate_%s.inverse' % axis, p2[i], p[i])
            c.ensure_eq('C02.rotate_%s.inverse' % axis, d2[i], d[i])
    return rot


for _ax in 'xyz':
    _rot_contract(_ax)
