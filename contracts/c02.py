"""C02 -- every traced ray obeys Snell / reflection on the prescribed surface.

Contracts on the real kernels; clause ids are listed in LEDGER.json."""
from pyvc.vc import contract, sharded
from .common import *  # noqa

PROPERTY = 'C02'
K_QUICK = 20
K_THOROUGH = 400


@contract('C02.RealRays.refract', [RR + ':RealRays.refract', RR + ':RealRays._align_surface_normal'],
          ['C02'], bundle=True)
def refract(c):
    k0 = c.unit3('L', 'M', 'N')
    n = c.unit3('nx', 'ny', 'nz')
    n1 = c.real('n1', 1.0, 4.0, positive=True)
    n2 = c.real('n2', 1.0, 4.0, positive=True)
    d0 = dot(k0, n)
    c.require(d0 != 0)                      # grazing incidence: sign(0) = 0 zeroes the normal
    u = n1 / n2
    rad = 1 - u * u * (1 - d0 * d0)
    c.require(rad > 0)                      # strictly below the critical angle
    rays = mk_rays(c, (0.0, 0.0, 0.0), k0)
    rays.refract(c.arr(n[0]), c.arr(n[1]), c.arr(n[2]), n1, n2)
    k1 = dir_of(c, rays)
    c.ensure_eq('C02.refract.unit', norm2(k1), 1)
    a, b = cross(k0, n), cross(k1, n)
    for i, ax in enumerate('xyz'):
        c.ensure_eq('C02.refract.snell_' + ax, n1 * a[i], n2 * b[i])
    sg = 1 if c.decide(d0 > 0) else -1
    K = c.abstract('K', dot(k1, n))
    D = c.abstract('D', d0)
    root = c.sqrt(rad)
    c.ensure('C02.refract.halfspace', K * D > 0, using=[K * sg == root, root > 0])
    for i, nm in enumerate(('L0', 'M0', 'N0')):
        c.ensure_eq('C02.refract.saves_incident', c.val(getattr(rays, nm)), k0[i])


@contract('C02.RealRays.refract.tir', [RR + ':RealRays.refract'], ['C02'], bundle=True, ieee=True)
def refract_tir(c):
    k0 = c.unit3('L', 'M', 'N')
    n = c.unit3('nx', 'ny', 'nz')
    n1 = c.real('n1', 1.0, 4.0, positive=True)
    n2 = c.real('n2', 1.0, 4.0, positive=True)
    d0 = dot(k0, n)
    u = n1 / n2
    c.require(d0 != 0)
    c.require(1 - u * u * (1 - d0 * d0) < 0)    # total internal reflection
    rays = mk_rays(c, (0.0, 0.0, 0.0), k0)
    rays.refract(c.arr(n[0]), c.arr(n[1]), c.arr(n[2]), n1, n2)
    for nm in 'LMN':
        c.ensure('C02.refract.tir_nonfinite', not c.isfinite(getattr(rays, nm)))


@contract('C02.RealRays.reflect', [RR + ':RealRays.reflect', RR + ':RealRays._align_surface_normal'],
          ['C02'], bundle=True)
def reflect(c):
    k0 = c.unit3('L', 'M', 'N')
    n = c.unit3('nx', 'ny', 'nz')
    d0 = dot(k0, n)
    c.require(d0 != 0)
    rays = mk_rays(c, (0.0, 0.0, 0.0), k0)
    rays.reflect(c.arr(n[0]), c.arr(n[1]), c.arr(n[2]))
    k1 = dir_of(c, rays)
    c.ensure_eq('C02.reflect.unit', norm2(k1), 1)
    for i, ax in enumerate('xyz'):
        c.ensure_eq('C02.reflect.law_' + ax, k1[i], k0[i] - 2 * d0 * n[i])
    c.ensure_eq('C02.reflect.halfspace', dot(k1, n), -d0)


def _rot_contract(axis):
    # spec rotation (right-handed about the axis) written independently of the code
    def spec(c, v, a):
        cs, sn = c.cos(a), c.sin(a)
        x, y, z = v
        if axis == 'x':
            return (x, y * cs - z * sn, y * sn + z * cs)
        if axis == 'y':
            return (x * cs + z * sn, y, -x * sn + z * cs)
        return (x * cs - y * sn, x * sn + y * cs, z)

    @contract('C02.RealRays.rotate_' + axis, [RR + ':RealRays.rotate_' + axis], ['C02', 'C07'], bundle=True)
    def rot(c):
        p = free_point(c)
        d = c.unit3('L', 'M', 'N')
        a = c.real('angle', -3.2, 3.2)
        rays = mk_rays(c, p, d)
        getattr(rays, 'rotate_' + axis)(a)
        p1, d1 = pos_of(c, rays), dir_of(c, rays)
        sp_, sd_ = spec(c, p, a), spec(c, d, a)
        for i, ax in enumerate('xyz'):
            c.ensure_eq('C02.rotate_%s.position_%s' % (axis, ax), p1[i], sp_[i])
            c.ensure_eq('C02.rotate_%s.direction_%s' % (axis, ax), d1[i], sd_[i])
        c.ensure_eq('C02.rotate_%s.isometry' % axis, norm2(p1), norm2(p))
        c.ensure_eq('C02.rotate_%s.unit_direction' % axis, norm2(d1), 1)
        getattr(rays, 'rotate_' + axis)(-a)
        p2, d2 = pos_of(c, rays), dir_of(c, rays)
        for i, ax in enumerate('xyz'):
            c.ensure_eq('C02.rotate_%s.inverse' % axis, p2[i], p[i])
            c.ensure_eq('C02.rotate_%s.inverse' % axis, d2[i], d[i])
    return rot


for _ax in 'xyz':
    _rot_contract(_ax)


# ------------------------------------------------------------------------------------------
# coordinate systems
# ------------------------------------------------------------------------------------------
@contract('C02.BaseRays.translate', ['optiland/rays/base.py:BaseRays.translate'], ['C02'], bundle=True)
def translate(c):
    p = free_point(c)
    d = c.unit3('L', 'M', 'N')
    dv = (c.real('dx'), c.real('dy'), c.real('dz'))
    rays = mk_rays(c, p, d)
    rays.translate(*dv)
    p1, d1 = pos_of(c, rays), dir_of(c, rays)
    for i, ax in enumerate('xyz'):
        c.ensure_eq('C02.translate.position', p1[i], p[i] + dv[i])
        c.ensure_eq('C02.translate.direction_unchanged', d1[i], d[i])


def _cs(c, tilt_mask, with_ref=False):
    """CoordinateSystem with symbolic decentres and symbolic tilts on the axes in tilt_mask"""
    CoordinateSystem = c.mod('optiland.coordinate_system').CoordinateSystem
    kw = dict(x=c.real('cx', -2, 2), y=c.real('cy', -2, 2), z=c.real('cz', -5, 20))
    for ax in 'xyz':
        kw['r' + ax] = c.real('r' + ax, -0.5, 0.5, nonzero=True) if ax in tilt_mask else 0.0
    return CoordinateSystem(**kw)


def _cs_contract(mask):
    @contract('C02.CoordinateSystem.roundtrip.' + (mask or 'none'),
              [CS + ':CoordinateSystem.localize', CS + ':CoordinateSystem.globalize',
               'optiland/geometries/base.py:BaseGeometry.localize', 'optiland/geometries/base.py:BaseGeometry.globalize'],
              ['C02', 'C07'], bundle=True)
    def rt(c):
        cs = _cs(c, mask)
        p = free_point(c)
        d = c.unit3('L', 'M', 'N')
        rays = mk_rays(c, p, d)
        cs.localize(rays)
        pl, dl = pos_of(c, rays), dir_of(c, rays)
        # isometry: distances to the vertex and direction norm are preserved
        v = (c.val(cs.x), c.val(cs.y), c.val(cs.z))
        c.ensure_eq('C02.cs.localize_isometry', norm2(pl), norm2(tuple(p[i] - v[i] for i in range(3))))
        c.ensure_eq('C02.cs.localize_unit_direction', norm2(dl), 1)
        cs.globalize(rays)
        pg, dg = pos_of(c, rays), dir_of(c, rays)
        for i in range(3):
            c.ensure_eq('C02.cs.globalize_inverts_localize', pg[i], p[i])
            c.ensure_eq('C02.cs.globalize_inverts_localize', dg[i], d[i])
        # and the other way round
        cs.globalize(rays)
        cs.localize(rays)
        pq, dq = pos_of(c, rays), dir_of(c, rays)
        for i in range(3):
            c.ensure_eq('C02.cs.localize_inverts_globalize', pq[i], p[i])
            c.ensure_eq('C02.cs.localize_inverts_globalize', dq[i], d[i])
    return rt


for _m in ('', 'x', 'y', 'z', 'xy', 'xz', 'yz', 'xyz'):
    _cs_contract(_m)


@contract('C02.CoordinateSystem.untilted_is_translation', [CS + ':CoordinateSystem.localize'], ['C02'], bundle=True)
def cs_plain(c):
    cs = _cs(c, '')
    p = free_point(c)
    d = c.unit3('L', 'M', 'N')
    rays = mk_rays(c, p, d)
    cs.localize(rays)
    pl, dl = pos_of(c, rays), dir_of(c, rays)
    v = (c.val(cs.x), c.val(cs.y), c.val(cs.z))
    for i in range(3):
        c.ensure_eq('C02.cs.localize_translation', pl[i], p[i] - v[i])
        c.ensure_eq('C02.cs.localize_translation', dl[i], d[i])


# ------------------------------------------------------------------------------------------
# geometries
# ------------------------------------------------------------------------------------------
PL = 'optiland/geometries/plane.py'
ST = 'optiland/geometries/standard.py'


@contract('C02.Plane.distance', [PL + ':Plane.distance', PL + ':Plane.surface_normal'], ['C02'], bundle=True, ieee=True)
def plane_distance(c):
    geos = c.mod('optiland.geometries')
    CoordinateSystem = c.mod('optiland.coordinate_system').CoordinateSystem
    g = geos.Plane(CoordinateSystem())
    p = free_point(c)
    d = c.unit3('L', 'M', 'N')
    rays = mk_rays(c, p, d)
    before = c.snapshot(rays=rays)
    t = c.val(g.distance(rays))
    if c.isfinite(t):
        c.ensure_eq('C02.plane.distance.on_surface', p[2] + t * d[2], 0)
        c.ensure('C02.plane.distance.forward', t >= 0)
    else:
        # no finite answer only when there is no forward intersection
        c.ensure('C02.plane.distance.nonfinite_only_without_hit',
                 c.decide(d[2] == 0) or c.decide(-p[2] / d[2] < 0))
    c.ensure_frame('C02.plane.distance.pure', before, c.snapshot(rays=rays), [])
    nx, ny, nz = g.surface_normal(rays)
    c.ensure('C02.plane.normal', (nx, ny, nz) == (0, 0, 1))


@sharded('C02.StandardGeometry.distance', [ST + ':StandardGeometry.distance'], ['C02', 'C06'], bits=4, bundle=True,
         ieee=True, max_paths=1500, z3_ms=8000)
def std_distance(c):
    geos = c.mod('optiland.geometries')
    CoordinateSystem = c.mod('optiland.coordinate_system').CoordinateSystem
    R = c.real('R', -50, 50, nonzero=True)
    k = c.real('k', -3, 2)
    g = geos.StandardGeometry(CoordinateSystem(), R, k)
    p = free_point(c)
    d = c.unit3('L', 'M', 'N')
    rays = mk_rays(c, p, d)
    before = c.snapshot(rays=rays)
    t = c.val(g.distance(rays))
    # the quadratic whose roots are the intersections of the line with the quadric (spec side;
    # written without using |D| = 1 so that its coefficients are polynomially the code's)
    x, y, z = p
    L, M, N = d
    a = k * N ** 2 + L ** 2 + M ** 2 + N ** 2
    b = 2 * k * N * z + 2 * L * x + 2 * M * y - 2 * N * R + 2 * N * z
    cc = k * z ** 2 - 2 * R * z + x ** 2 + y ** 2 + z ** 2
    disc = b * b - 4 * a * cc
    if c.isfinite(t):
        q = tuple(p[i] + t * d[i] for i in range(3))
        F = q[0] ** 2 + q[1] ** 2 + (1 + k) * q[2] ** 2 - 2 * R * q[2]
        c.ensure_eq('C02.std.distance.on_quadric', F, 0)
        if c.decide(a != 0):
            c.ensure('C02.std.distance.forward_root_when_quadratic', t >= 0)
    elif c.decide(N != 0):
        # liveness direction (not demanded by the statement, kept so that "always nan" is not
        # vacuously correct): for rays not exactly perpendicular to the axis a non-finite answer is
        # given only when the line has no forward intersection: no real root, or both roots behind.
        # (N == 0 exactly: inf * 0 = nan in the root selection can drop a valid root -- reported
        # in DESIGN.md as an observation; the statement does not forbid losing such a ray.)
        if c.decide(a != 0):
            if c.decide(disc >= 0):
                s = c.sqrt(disc)
                t1, t2 = (-b + s) / (2 * a), (-b - s) / (2 * a)
                c.ensure('C02.std.distance.nonfinite_only_without_forward_root',
                         c.decide(t1 < 0) and c.decide(t2 < 0))
        else:
            c.ensure('C02.std.distance.nonfinite_only_without_forward_root', c.decide(b == 0))
    c.ensure_frame('C02.std.distance.pure', before, c.snapshot(rays=rays), [])


@contract('C02.StandardGeometry.surface_normal', [ST + ':StandardGeometry.surface_normal', ST + ':StandardGeometry.sag'],
          ['C02', 'C06'], bundle=True)
def std_normal(c):
    geos = c.mod('optiland.geometries')
    CoordinateSystem = c.mod('optiland.coordinate_system').CoordinateSystem
    R = c.real('R', -50, 50, nonzero=True)
    k = c.real('k', -3, 2)
    g = geos.StandardGeometry(CoordinateSystem(), R, k)
    x, y = c.real('x', -3, 3), c.real('y', -3, 3)
    c.require(1 - (1 + k) * (x * x + y * y) / (R * R) > 0)      # inside the domain of the sag sheet
    z = c.val(g.sag(c.arr(x), c.arr(y)))
    F = x * x + y * y + (1 + k) * z * z - 2 * R * z
    c.ensure_eq('C02.std.sag.on_quadric', F, 0)
    rays = mk_rays(c, (x, y, z), (0.0, 0.0, 1.0))
    before = c.snapshot(rays=rays)
    n = tuple(c.val(v) for v in g.surface_normal(rays))
    c.ensure_eq('C02.std.normal.unit', norm2(n), 1)
    grad = (2 * x, 2 * y, 2 * (1 + k) * z - 2 * R)
    cr = cross(n, grad)
    for i, ax in enumerate('xyz'):
        c.ensure_eq('C02.std.normal.parallel_to_gradient_' + ax, cr[i], 0)
    c.ensure_frame('C02.std.normal.pure', before, c.snapshot(rays=rays), [])


@contract('C02.RealRays.propagate', [RR + ':RealRays.propagate'], ['C02', 'C16'], bundle=True)
def propagate(c):
    p = free_point(c)
    d = c.unit3('L', 'M', 'N')
    t = c.real('t', -5, 30)
    rays = mk_rays(c, p, d)
    rays.propagate(c.arr(t))
    p1, d1 = pos_of(c, rays), dir_of(c, rays)
    for i in range(3):
        c.ensure_eq('C02.propagate.position', p1[i], p[i] + t * d[i])
        c.ensure_eq('C02.propagate.direction_unchanged', d1[i], d[i])
    # geometric length of the segment is |t| because the direction is a unit vector
    seg = tuple(p1[i] - p[i] for i in range(3))
    c.ensure_eq('C02.propagate.segment_length_squared', norm2(seg), t * t)
    c.ensure_eq('C02.propagate.no_medium_no_attenuation', c.val(rays.i), 1)


# ------------------------------------------------------------------------------------------
# Surface._trace_real: orchestration against the *abstract* geometry contract
#   distance(rays) -> t  (local frame),  surface_normal(rays) -> unit n at the hit point
# ------------------------------------------------------------------------------------------
SS = 'optiland/surfaces/standard_surface.py'


def _abstract_geometry(c, cs, t, n):
    BaseGeometry = c.mod('optiland.geometries.base').BaseGeometry

    class AbstractGeometry(BaseGeometry):       # any geometry satisfying the abstract contract
        def __init__(self):
            super().__init__(cs)
            self.calls = []

        def sag(self, x=0, y=0):
            raise AssertionError('not used by _trace_real')

        def distance(self, rays):
            self.calls.append(('distance', pos_of(c, rays), dir_of(c, rays)))
            return c.arr(t)

        def surface_normal(self, rays):
            self.calls.append(('normal', pos_of(c, rays)))
            return c.arr(n[0]), c.arr(n[1]), c.arr(n[2])
    return AbstractGeometry()


def _trace_real_contract(mask, reflective):
    @contract('C02.Surface._trace_real.%s.%s' % (mask or 'untilted', 'mirror' if reflective else 'refract'),
              [SS + ':Surface._trace_real', SS + ':Surface._interact', SS + ':Surface._record', SS + ':Surface.trace'],
              ['C02', 'C16'], bundle=True, max_paths=64)
    def tr(c):
        surfs = c.mod('optiland.surfaces')
        mats = c.mod('optiland.materials')
        cs = _cs(c, mask)
        t = c.real('t', -5.0, 20.0)
        n = c.unit3('nx', 'ny', 'nz')
        n1 = c.real('n1', 1.0, 2.5, positive=True)
        n2 = c.real('n2', 1.0, 2.5, positive=True)
        geo = _abstract_geometry(c, cs, t, n)
        surf = surfs.Surface(geo, mats.IdealMaterial(n1, 0.0), mats.IdealMaterial(n2, 0.0), is_reflective=reflective)
        p = free_point(c)
        d = c.unit3('L', 'M', 'N')
        opd0 = c.real('opd0', 0, 50)
        # local incoming state, computed by the (separately verified) localize
        probe = mk_rays(c, p, d)
        cs.localize(probe)
        pl, dl = pos_of(c, probe), dir_of(c, probe)
        d0 = dot(dl, n)
        c.require(d0 != 0)
        if not reflective:
            c.require(1 - (n1 / n2) ** 2 * (1 - d0 * d0) > 0)
        rays = mk_rays(c, p, d)
        rays.opd = c.arr(opd0)
        out = surf.trace(rays)
        c.ensure('C02.trace_real.returns_same_bundle', c.same(out, rays))
        # geometry was asked in the local frame: distance at the localized state, normal at the hit point
        hit = tuple(pl[i] + t * dl[i] for i in range(3))
        c.ensure('C02.trace_real.calls', [x[0] for x in geo.calls] == ['distance', 'normal'])
        for i in range(3):
            c.ensure_eq('C02.trace_real.distance_asked_in_local_frame', geo.calls[0][1][i], pl[i])
            c.ensure_eq('C02.trace_real.distance_asked_in_local_frame', geo.calls[0][2][i], dl[i])
            c.ensure_eq('C02.trace_real.normal_asked_at_hit_point', geo.calls[1][1][i], hit[i])
        # the record is the global image of the local hit; compare in the local frame
        rec = mk_rays(c, (c.val(surf.x), c.val(surf.y), c.val(surf.z)), (c.val(surf.L), c.val(surf.M), c.val(surf.N)))
        cs.localize(rec)
        rp, rd = pos_of(c, rec), dir_of(c, rec)
        for i in range(3):
            c.ensure_eq('C02.trace_real.recorded_point_is_local_hit', rp[i], hit[i])
        c.ensure_eq('C02.trace_real.recorded_direction_unit', norm2(rd), 1)
        if reflective:
            for i in range(3):
                c.ensure_eq('C02.trace_real.reflection_law_in_surface_frame', rd[i], dl[i] - 2 * d0 * n[i])
        else:
            a, b = cross(dl, n), cross(rd, n)
            for i in range(3):
                c.ensure_eq('C02.trace_real.snell_in_surface_frame', n1 * a[i], n2 * b[i])
        # optical path: index in front of the surface times geometric length (|t|, unit direction)
        c.ensure_eq('C02.trace_real.opd_adds_index_times_length', c.val(surf.opd), opd0 + c.abs(n1 * t))   # n1 > 0: |n1 t| = n1 |t|
        c.ensure_eq('C02.trace_real.rays_left_in_global_frame', c.val(rays.x), c.val(surf.x))
        c.ensure_eq('C02.trace_real.intensity_recorded', c.val(surf.intensity), c.val(rays.i))
        # the record is a copy: what later surfaces do to the bundle *in place* (a mirror reflects in place, propagation
        # adds to the positions, coatings scale the intensity) must not reach back into this surface's record
        rec0 = {a: c.val(getattr(surf, a)) for a in ('x', 'y', 'z', 'L', 'M', 'N', 'opd', 'intensity')}
        for a in ('x', 'y', 'z', 'L', 'M', 'N', 'opd', 'i'):
            arr_ = getattr(rays, a)
            arr_ += 1
            arr_ *= 3
        for a, v0 in rec0.items():
            c.ensure_eq('C02.trace_real.record_is_untouched_by_later_in_place_changes_of_the_bundle', c.val(getattr(surf, a)), v0)
    return tr


for _m in ('', 'x', 'y'):
    for _r in (False, True):
        _trace_real_contract(_m, _r)


# ------------------------------------------------------------------------------------------
# Newton-Raphson geometries (even asphere, xy polynomial, Chebyshev): the geometry side of the abstract contract used by
# _trace_real above -- the reported normal is the unit normal of the *prescribed sag*, pointing to -z, and the reported
# distance ends on the prescribed sag.
# ------------------------------------------------------------------------------------------
EA = 'optiland/geometries/even_asphere.py'
PG = 'optiland/geometries/polynomial.py'
CG = 'optiland/geometries/chebyshev.py'
NRG = 'optiland/geometries/newton_raphson.py'


def _normal_clauses(c, tag, geo, x, y, tol=2e-6):
    rays = mk_rays(c, (x, y, 0.0), (0.0, 0.0, 1.0))
    before = c.snapshot(rays=rays)
    n = tuple(c.val(v) for v in geo.surface_normal(rays))
    zx = c.derivative(lambda t: geo.sag(c.arr(t), c.arr(y)), x)
    zy = c.derivative(lambda t: geo.sag(c.arr(x), c.arr(t)), y)
    c.ensure_eq('C02.%s.normal.unit' % tag, norm2(n), 1)
    # n is parallel to (dz/dx, dz/dy, -1):  n_x = -n_z dz/dx, n_y = -n_z dz/dy, and n_z < 0
    c.ensure_eq('C02.%s.normal.x_component_follows_sag_slope' % tag, n[0] + n[2] * zx, 0, tol=tol)
    c.ensure_eq('C02.%s.normal.y_component_follows_sag_slope' % tag, n[1] + n[2] * zy, 0, tol=tol)
    c.ensure('C02.%s.normal.points_to_minus_z' % tag, n[2] < 0)
    c.ensure_frame('C02.%s.normal.pure' % tag, before, c.snapshot(rays=rays), [])


@contract('C02.EvenAsphere.surface_normal', [EA + ':EvenAsphere._surface_normal', EA + ':EvenAsphere.sag', NRG + ':NewtonRaphsonGeometry.surface_normal'],
          ['C02'], bundle=True, max_paths=64)
def ea_normal(c):
    geos = c.mod('optiland.geometries')
    CoordinateSystem = c.mod('optiland.coordinate_system').CoordinateSystem
    R = c.real('R', -50, 50, nonzero=True)
    k = c.real('k', -3, 2)
    co = [c.real('C%d' % i, -1e-3, 1e-3) for i in range(3)]
    g = geos.EvenAsphere(CoordinateSystem(), R, k, 1e-10, 100, co)
    x, y = c.real('x', -3, 3), c.real('y', -3, 3)
    c.require(1 - (1 + k) * (x * x + y * y) / (R * R) > 0)
    _normal_clauses(c, 'even_asphere', g, x, y)


@contract('C02.PolynomialGeometry.surface_normal', [PG + ':PolynomialGeometry._surface_normal', PG + ':PolynomialGeometry.sag',
                                                    NRG + ':NewtonRaphsonGeometry.surface_normal'], ['C02'], bundle=True, max_paths=64)
def poly_normal(c):
    geos = c.mod('optiland.geometries')
    CoordinateSystem = c.mod('optiland.coordinate_system').CoordinateSystem
    R = c.real('R', -50, 50, nonzero=True)
    k = c.real('k', -3, 2)
    co = [[c.real('p%d%d' % (i, j), -1e-3, 1e-3) for j in range(3)] for i in range(3)]
    g = geos.PolynomialGeometry(CoordinateSystem(), R, k, 1e-10, 100, c.np.array(co))
    x, y = c.real('x', -3, 3), c.real('y', -3, 3)
    c.require(1 - (1 + k) * (x * x + y * y) / (R * R) > 0)
    _normal_clauses(c, 'polynomial', g, x, y)


KNOWN = {
    'C02.chebyshev.normal.x_component_follows_sag_slope': {'finding': 'C02-chebyshev-normal-misses-normalisation-factor', 'role': 'full'},
    'C02.chebyshev.normal.y_component_follows_sag_slope': {'finding': 'C02-chebyshev-normal-misses-normalisation-factor', 'role': 'full'},
    'C02.chebyshev.normal.pin_polynomial_slope_is_not_divided_by_norm_x': {'finding': 'C02-chebyshev-normal-misses-normalisation-factor', 'role': 'pin'},
    'C02.chebyshev.normal.pin_polynomial_slope_is_not_divided_by_norm_y': {'finding': 'C02-chebyshev-normal-misses-normalisation-factor', 'role': 'pin'},
}


def _cheb(c, unit_norm):
    """x = norm_x cos(theta_x), y = norm_y cos(theta_y) with theta in (0, pi): every point of the normalisation rectangle.
    All nine coefficients are non-zero reals (the code skips zero coefficients: `np.argwhere(self.c != 0)`)."""
    geos = c.mod('optiland.geometries')
    CoordinateSystem = c.mod('optiland.coordinate_system').CoordinateSystem
    R = c.real('R', 30, 80, nonzero=True)
    k = c.real('k', -2, 1)
    co = [[c.real('q%d%d' % (i, j), 1e-4, 1e-3, nonzero=True) for j in range(3)] for i in range(3)]
    if unit_norm:
        nx_, ny_ = 1.0, 1.0
    else:
        nx_, ny_ = c.real('norm_x', 4, 9, positive=True), c.real('norm_y', 4, 9, positive=True)
    tx, ty = c.real('theta_x', 0.3, 2.8), c.real('theta_y', 0.3, 2.8)
    c.require(c.sin(tx) > 0)
    c.require(c.sin(ty) > 0)
    c.require(c.cos(tx) <= 1), c.require(c.cos(tx) >= -1), c.require(c.cos(ty) <= 1), c.require(c.cos(ty) >= -1)   # facts about a cosine
    g = geos.ChebyshevPolynomialGeometry(CoordinateSystem(), R, k, 1e-10, 100, c.np.array(co), nx_, ny_)
    g0 = geos.ChebyshevPolynomialGeometry(CoordinateSystem(), R, k, 1e-10, 100, c.np.zeros((3, 3)), nx_, ny_)
    x, y = nx_ * c.cos(tx), ny_ * c.cos(ty)
    c.require(1 - (1 + k) * (x * x + y * y) / (R * R) > 0)
    return g, g0, tx, ty, nx_, ny_


def _cheb_slopes(c, g, tx, ty, nx_, ny_):
    """dz/dx, dz/dy of the real sag by the chain rule through x = norm_x cos(theta_x) (dx/dtheta = -norm_x sin theta)"""
    zt = c.derivative(lambda t: g.sag(c.arr(nx_ * c.cos(t)), c.arr(ny_ * c.cos(ty))), tx)
    zu = c.derivative(lambda t: g.sag(c.arr(nx_ * c.cos(tx)), c.arr(ny_ * c.cos(t))), ty)
    return zt / (-nx_ * c.sin(tx)), zu / (-ny_ * c.sin(ty))


def _cheb_normal_clauses(c, tag, g, g0, tx, ty, nx_, ny_, pin):
    x, y = nx_ * c.cos(tx), ny_ * c.cos(ty)
    rays = mk_rays(c, (x, y, 0.0), (0.0, 0.0, 1.0))
    before = c.snapshot(rays=rays)
    n = tuple(c.val(v) for v in g.surface_normal(rays))
    zx, zy = _cheb_slopes(c, g, tx, ty, nx_, ny_)
    tol = 5e-6
    c.ensure_eq('C02.%s.normal.unit' % tag, norm2(n), 1)
    c.ensure_eq('C02.%s.normal.x_component_follows_sag_slope' % tag, n[0] + n[2] * zx, 0, tol=tol, sym_only=pin)
    c.ensure_eq('C02.%s.normal.y_component_follows_sag_slope' % tag, n[1] + n[2] * zy, 0, tol=tol, sym_only=pin)
    c.ensure('C02.%s.normal.points_to_minus_z' % tag, n[2] < 0)
    c.ensure_frame('C02.%s.normal.pure' % tag, before, c.snapshot(rays=rays), [])
    if pin:
        zx0, zy0 = _cheb_slopes(c, g0, tx, ty, nx_, ny_)
        # pin: what the code reports instead -- the conic slope plus norm_x (norm_y) times the polynomial slope
        c.ensure_eq('C02.chebyshev.normal.pin_polynomial_slope_is_not_divided_by_norm_x', n[0] + n[2] * (zx0 + nx_ * (zx - zx0)), 0, tol=tol)
        c.ensure_eq('C02.chebyshev.normal.pin_polynomial_slope_is_not_divided_by_norm_y', n[1] + n[2] * (zy0 + ny_ * (zy - zy0)), 0, tol=tol)


CHEB_FUNCS = [CG + ':ChebyshevPolynomialGeometry._surface_normal', CG + ':ChebyshevPolynomialGeometry.sag', CG + ':ChebyshevPolynomialGeometry._chebyshev',
              CG + ':ChebyshevPolynomialGeometry._chebyshev_derivative', CG + ':ChebyshevPolynomialGeometry._validate_inputs']


@contract('C02.ChebyshevPolynomialGeometry.surface_normal.unit_normalisation', CHEB_FUNCS, ['C02'], bundle=True, max_paths=64, concolic=False)
def cheb_normal_unit(c):
    """norm_x = norm_y = 1 (the residual of the known finding): the reported normal is the normal of the sag"""
    g, g0, tx, ty, nx_, ny_ = _cheb(c, True)
    _cheb_normal_clauses(c, 'chebyshev.unit_normalisation', g, g0, tx, ty, nx_, ny_, False)


@contract('C02.ChebyshevPolynomialGeometry.surface_normal', CHEB_FUNCS, ['C02'], bundle=True, max_paths=64, concolic=False)
def cheb_normal(c):
    """KNOWN FINDING: d/dx T_i(x/norm_x) = T_i'(x/norm_x)/norm_x, the code omits the 1/norm_x (1/norm_y)"""
    g, g0, tx, ty, nx_, ny_ = _cheb(c, False)
    _cheb_normal_clauses(c, 'chebyshev', g, g0, tx, ty, nx_, ny_, True)


def _nr_distance(kind):
    files = {'even_asphere': EA + ':EvenAsphere.sag', 'polynomial': PG + ':PolynomialGeometry.sag', 'chebyshev': CG + ':ChebyshevPolynomialGeometry.sag'}

    @contract('C02.NewtonRaphsonGeometry.distance.' + kind, [NRG + ':NewtonRaphsonGeometry.distance', NRG + ':NewtonRaphsonGeometry._intersection_sphere',
                                                             files[kind]], ['C02'], bundle=True, numeric_only=True)
    def nrd(c):
        """bounded: the Newton iteration is run on the real code; its end point must lie on the prescribed sag, on the ray,
        ahead of the ray's start.  (Convergence of the iteration for all inputs is not decided by any contract here.)"""
        geos = c.mod('optiland.geometries')
        CoordinateSystem = c.mod('optiland.coordinate_system').CoordinateSystem
        R = c.real('R', -60, 60, nonzero=True)
        c.require(abs(R) >= 15)
        k = c.real('k', -2, 1)
        if kind == 'even_asphere':
            g = geos.EvenAsphere(CoordinateSystem(), R, k, 1e-10, 100, [c.real('C%d' % i, -1e-4 / 10 ** i, 1e-4 / 10 ** i) for i in range(3)])
        elif kind == 'polynomial':
            g = geos.PolynomialGeometry(CoordinateSystem(), R, k, 1e-10, 100,
                                        c.np.array([[c.real('p%d%d' % (i, j), -1e-4, 1e-4) for j in range(3)] for i in range(3)]))
        else:
            g = geos.ChebyshevPolynomialGeometry(CoordinateSystem(), R, k, 1e-10, 100,
                                                 c.np.array([[c.real('q%d%d' % (i, j), -1e-3, 1e-3) for j in range(3)] for i in range(3)]), 10.0, 10.0)
        p = (c.real('px', -3, 3), c.real('py', -3, 3), c.real('pz', -8, -1))
        d = c.unit3('L', 'M', 'N', cone=0.93)
        rays = mk_rays(c, p, d)
        before = c.snapshot(rays=rays)
        t = c.val(g.distance(rays))
        c.ensure('C02.nr.distance.finite_for_rays_that_meet_the_vertex_region', c.isfinite(t))
        hit = tuple(p[i] + t * d[i] for i in range(3))
        z = c.val(g.sag(c.arr(hit[0]), c.arr(hit[1])))
        c.ensure_eq('C02.nr.distance.end_point_on_prescribed_sag', hit[2], z, tol=1e-8)
        c.ensure('C02.nr.distance.forward', t >= 0)
        c.ensure_frame('C02.nr.distance.pure', before, c.snapshot(rays=rays), [])
    return nrd


for _kind in ('even_asphere', 'polynomial', 'chebyshev'):
    _nr_distance(_kind)


# ------------------------------------------------------------------------------------------
# the sequential loop: every surface from `skip` on is asked to trace the *same* bundle, in prescription order, after all
# records were reset; the per-surface accessors stack the per-surface records in that order.  (The loop is a Python `for`
# over a list slice: the statement for every list length is the language's loop semantics, checked here for lengths 1..5.)
# ------------------------------------------------------------------------------------------
SGF = 'optiland/surfaces/surface_group.py'


@contract('C02.SurfaceGroup.trace.sequential', [SGF + ':SurfaceGroup.trace', SGF + ':SurfaceGroup.reset', SGF + ':SurfaceGroup.x', SGF + ':SurfaceGroup.y',
                                                SGF + ':SurfaceGroup.z', SGF + ':SurfaceGroup.L', SGF + ':SurfaceGroup.M', SGF + ':SurfaceGroup.N',
                                                SGF + ':SurfaceGroup.opd', SGF + ':SurfaceGroup.intensity'], ['C02', 'C13'], bundle=True)
def group_trace(c):
    SurfaceGroup = c.mod('optiland.surfaces.surface_group').SurfaceGroup
    log = []

    class Spy:
        def __init__(self, j):
            self.j = j
            self.reset()

        def reset(self):
            log.append(('reset', self.j))
            for a in ('x', 'y', 'z', 'L', 'M', 'N', 'opd', 'intensity', 'u'):
                setattr(self, a, c.np.empty(0))

        def trace(self, rays):
            log.append(('trace', self.j, rays))
            # what a surface does: moves the bundle and records it
            rays.x = rays.x + self.j + 1
            for a, b in (('x', 'x'), ('y', 'y'), ('z', 'z'), ('L', 'L'), ('M', 'M'), ('N', 'N'), ('opd', 'opd'), ('intensity', 'i')):
                setattr(self, a, getattr(rays, b) * 1)
            return rays
    x0 = c.real('x0', -1, 1)
    for n in range(1, 6):
        for skip in range(0, n + 1):
            del log[:]
            sg = SurfaceGroup([Spy(j) for j in range(n)])
            del log[:]
            rays = mk_rays(c, (x0, c.real('y0', -1, 1), 0.0), (0.0, 0.0, 1.0))
            out = sg.trace(rays, skip) if skip else sg.trace(rays)
            c.ensure('C02.group.trace.returns_the_same_bundle', c.same(out, rays))
            c.ensure('C02.group.trace.every_record_reset_first', [e[:2] for e in log[:n]] == [('reset', j) for j in range(n)])
            c.ensure('C02.group.trace.surfaces_in_prescription_order_from_skip', [e[1] for e in log[n:]] == list(range(skip, n))
                     and all(e[0] == 'trace' for e in log[n:]))
            c.ensure('C02.group.trace.one_bundle_object_all_the_way', all(c.same(e[2], rays) for e in log[n:]))
            # accessor rows = per-surface records in order (surfaces that recorded nothing contribute no row)
            xs = sg.x
            c.ensure('C02.group.accessor_rows_are_surface_records_in_order', xs.shape[0] == n - skip)
            acc = x0
            for r, j in enumerate(range(skip, n)):
                acc = acc + j + 1
                c.ensure_eq('C02.group.accessor_rows_are_surface_records_in_order', c.val(xs[r]), acc)
            for a in ('y', 'z', 'L', 'M', 'N', 'opd', 'intensity'):
                c.ensure('C02.group.accessor_rows_are_surface_records_in_order', getattr(sg, a).shape[0] == n - skip)


# ------------------------------------------------------------------------------------------
# edit-then-ask: after a parameter of a geometry / frame / surface is changed in place (what variables, solves, pickups and
# tolerancing do), every kernel answers as a freshly constructed object with the new parameters does -- no stale state.
# The fresh object's behaviour is what the contracts above prove.
# ------------------------------------------------------------------------------------------
def _same_answers(c, cid, edited, fresh, p, d):
    r1, r2 = mk_rays(c, p, d), mk_rays(c, p, d)
    t1, t2 = c.val(edited.distance(r1)), c.val(fresh.distance(r2))
    c.ensure_eq(cid + '.distance', t1, t2)
    h = mk_rays(c, (p[0], p[1], 0.0), d)
    n1 = tuple(c.val(v) for v in edited.surface_normal(h))
    n2 = tuple(c.val(v) for v in fresh.surface_normal(mk_rays(c, (p[0], p[1], 0.0), d)))
    for i in range(3):
        c.ensure_eq(cid + '.normal', n1[i], n2[i])
    c.ensure_eq(cid + '.sag', c.val(edited.sag(c.arr(p[0]), c.arr(p[1]))), c.val(fresh.sag(c.arr(p[0]), c.arr(p[1]))))


@contract('C02.requery.StandardGeometry', [ST + ':StandardGeometry.distance', ST + ':StandardGeometry.surface_normal', ST + ':StandardGeometry.sag'],
          ['C02', 'C13'], bundle=True, max_paths=200)
def requery_std(c):
    geos = c.mod('optiland.geometries')
    CoordinateSystem = c.mod('optiland.coordinate_system').CoordinateSystem
    R1, k1 = c.real('R_before', 15, 60), c.real('k_before', -0.5, 0.5)
    R2, k2 = c.real('R', 15, 60, positive=True), c.real('k_plus_1', 0.3, 1.7, positive=True) - 1
    g = geos.StandardGeometry(CoordinateSystem(), R1, k1)
    p = (c.real('px', -2, 2), c.real('py', -2, 2), c.real('pz', -6, -1))
    d = (0.0, 0.0, 1.0)
    w = mk_rays(c, p, d)
    g.distance(w), g.surface_normal(mk_rays(c, (p[0], p[1], 0.0), d)), g.sag(c.arr(p[0]), c.arr(p[1]))   # warm any cache
    g.radius, g.k = R2, k2
    c.require(1 - (1 + k2) * (p[0] * p[0] + p[1] * p[1]) / (R2 * R2) > 0)
    _same_answers(c, 'C02.requery.standard_geometry_answers_with_current_radius_and_conic', g, geos.StandardGeometry(CoordinateSystem(), R2, k2), p, d)


@contract('C02.requery.EvenAsphere', [EA + ':EvenAsphere.sag', EA + ':EvenAsphere._surface_normal'], ['C02', 'C13'], bundle=True, max_paths=64)
def requery_asphere(c):
    geos = c.mod('optiland.geometries')
    CoordinateSystem = c.mod('optiland.coordinate_system').CoordinateSystem
    R, k = c.real('R', 15, 60, positive=True), c.real('k_plus_1', 0.3, 1.7, positive=True) - 1
    old = [c.real('old%d' % i, -1e-3, 1e-3) for i in range(2)]
    new = [c.real('C%d' % i, -1e-3, 1e-3) for i in range(2)]
    g = geos.EvenAsphere(CoordinateSystem(), R + 1, k, 1e-10, 100, list(old))
    x, y = c.real('x', -2, 2), c.real('y', -2, 2)
    h = mk_rays(c, (x, y, 0.0), (0.0, 0.0, 1.0))
    g.sag(c.arr(x), c.arr(y)), g.surface_normal(h)
    g.c[0], g.c[1] = new[0], new[1]          # what AsphereCoeffVariable.update_value does
    g.radius = R
    f = geos.EvenAsphere(CoordinateSystem(), R, k, 1e-10, 100, list(new))
    c.require(1 - (1 + k) * (x * x + y * y) / (R * R) > 0)
    c.ensure_eq('C02.requery.even_asphere_answers_with_current_coefficients.sag', c.val(g.sag(c.arr(x), c.arr(y))), c.val(f.sag(c.arr(x), c.arr(y))))
    n1 = tuple(c.val(v) for v in g.surface_normal(mk_rays(c, (x, y, 0.0), (0.0, 0.0, 1.0))))
    n2 = tuple(c.val(v) for v in f.surface_normal(mk_rays(c, (x, y, 0.0), (0.0, 0.0, 1.0))))
    for i in range(3):
        c.ensure_eq('C02.requery.even_asphere_answers_with_current_coefficients.normal', n1[i], n2[i])


def _requery_cs(mask):
    @contract('C02.requery.CoordinateSystem.' + (mask or 'none'), [CS + ':CoordinateSystem.localize', CS + ':CoordinateSystem.globalize'],
              ['C02', 'C13'], bundle=True, max_paths=64)
    def rq(c):
        CoordinateSystem = c.mod('optiland.coordinate_system').CoordinateSystem
        cs = CoordinateSystem(x=c.real('x_before', -1, 1), y=c.real('y_before', -1, 1), z=c.real('z_before', 0, 5),
                              rx=c.real('rx_before', -0.3, 0.3), ry=c.real('ry_before', -0.3, 0.3), rz=c.real('rz_before', -0.3, 0.3))
        p, d = free_point(c), c.unit3('L', 'M', 'N')
        w = mk_rays(c, p, d)
        cs.localize(w), cs.globalize(w)
        fresh = _cs(c, mask)
        for a in ('x', 'y', 'z', 'rx', 'ry', 'rz'):       # what Tilt/Decenter/Thickness variables, solves and pickups do
            setattr(cs, a, getattr(fresh, a))
        r1, r2 = mk_rays(c, p, d), mk_rays(c, p, d)
        cs.localize(r1), fresh.localize(r2)
        for i in range(3):
            c.ensure_eq('C02.requery.frame_localizes_with_current_decentre_and_tilt', pos_of(c, r1)[i], pos_of(c, r2)[i])
            c.ensure_eq('C02.requery.frame_localizes_with_current_decentre_and_tilt', dir_of(c, r1)[i], dir_of(c, r2)[i])
        cs.globalize(r1)
        for i in range(3):
            c.ensure_eq('C02.requery.frame_globalizes_with_current_decentre_and_tilt', pos_of(c, r1)[i], p[i])
            c.ensure_eq('C02.requery.frame_globalizes_with_current_decentre_and_tilt', dir_of(c, r1)[i], d[i])
    return rq


for _m in ('', 'x', 'xy'):
    _requery_cs(_m)


@contract('C02.requery.Surface', [SS + ':Surface._trace_real', SS + ':Surface._interact'], ['C02', 'C13'], bundle=True, max_paths=64)
def requery_surface(c):
    """media and mirror flag are read at trace time: after they are replaced the surface refracts / reflects with the new ones"""
    surfs, mats, geos = c.mod('optiland.surfaces'), c.mod('optiland.materials'), c.mod('optiland.geometries')
    CoordinateSystem = c.mod('optiland.coordinate_system').CoordinateSystem
    n1, n2 = c.real('n1', 1.0, 2.0, positive=True), c.real('n2', 1.0, 2.0, positive=True)
    geo = geos.Plane(CoordinateSystem(z=c.real('zv', 1, 5, positive=True)))
    surf = surfs.Surface(geo, mats.IdealMaterial(1.0, 0.0), mats.IdealMaterial(c.real('n_before', 1.0, 2.0, positive=True), 0.0))
    p = (c.real('px', -1, 1), c.real('py', -1, 1), 0.0)
    d = c.unit3('L', 'M', 'N', cone=0.8)
    surf.trace(mk_rays(c, p, d))
    surf.material_pre, surf.material_post = mats.IdealMaterial(n1, 0.0), mats.IdealMaterial(n2, 0.0)
    c.require(1 - (n1 / n2) ** 2 * (1 - d[2] * d[2]) > 0)
    r = mk_rays(c, p, d)
    surf.trace(r)
    D = dir_of(c, r)
    c.ensure_eq('C02.requery.surface_refracts_with_current_media', n1 * d[0], n2 * D[0])
    c.ensure_eq('C02.requery.surface_refracts_with_current_media', n1 * d[1], n2 * D[1])
    surf.is_reflective = True
    r = mk_rays(c, p, d)
    surf.trace(r)
    D = dir_of(c, r)
    c.ensure_eq('C02.requery.surface_reflects_once_flagged_reflective', D[2], -d[2])
    c.ensure_eq('C02.requery.surface_reflects_once_flagged_reflective', D[0], d[0])


@contract('C02.requery.Optic.trace', ['optiland/optic.py:Optic.trace', 'optiland/optic.py:Optic.trace_generic', 'optiland/optic.py:Optic.set_radius',
                                      'optiland/optic.py:Optic.set_thickness', 'optiland/optic.py:Optic.set_index', 'optiland/optic.py:Optic.set_conic'],
          ['C02', 'C13'], numeric_only=True)
def requery_optic(c):
    """bounded (whole lens on the real code): after the prescription is edited through the public setters, a trace gives what a
    lens built directly with the edited prescription gives -- per surface x, y, z, L, M, N, path and intensity"""
    from .lens import arbitrary_lens
    import numpy as _n

    def build(prefix):
        lens, v = arbitrary_lens(c, 4, stop=2, finite_object=False, prefix=prefix)
        lens.add_wavelength(0.55, is_primary=True)
        lens.set_aperture('EPD', c.real('epd', 1.0, 3.0, positive=True))
        lens.set_field_type('angle')
        lens.add_field(y=0.0)
        lens.add_field(y=c.real('fy', 1.0, 6.0, positive=True))
        return lens, v
    a, va = build('')
    b, vb = build('')                    # same draws: an identical second lens
    c.require(abs(va['R'][1]) > 20 and abs(va['R'][2]) > 20 and abs(va['R'][3]) > 20)
    c.require(va['z'][2] > 1 and va['z'][3] > va['z'][2] + 1)
    Hy, Py = c.real('Hy', -1, 1), c.real('Py', -0.5, 0.5)
    a.trace_generic(0.0, Hy, 0.0, Py, 0.55)
    a.trace(0.0, Hy, 0.55, 3, 'hexapolar')
    newR, newk, newn, newt = c.real('newR', 25, 80), c.real('newk', -0.8, 0.5), c.real('newn', 1.3, 1.9), c.real('newt', 0.5, 4.0)
    for lens in (a, b):
        lens.set_radius(newR, 1)
        lens.set_conic(newk, 2)
        lens.set_index(newn, 1)
        lens.set_thickness(newt, 1)
    # b was never traced before the edit; a fresh lens with the edited prescription has nothing to remember
    for kind in ('generic', 'distribution'):
        out = []
        for lens in (a, b):
            if kind == 'generic':
                lens.trace_generic(0.0, Hy, 0.0, Py, 0.55)
            else:
                lens.trace(0.0, Hy, 0.55, 3, 'hexapolar')
            sg = lens.surface_group
            out.append([_n.array(getattr(sg, q), dtype=float) for q in ('x', 'y', 'z', 'L', 'M', 'N', 'opd', 'intensity')])
        for q, ua, ub in zip(('x', 'y', 'z', 'L', 'M', 'N', 'opd', 'intensity'), out[0], out[1]):
            c.ensure('C02.requery.trace_after_edits_equals_trace_of_a_lens_built_with_the_edited_prescription',
                     ua.shape == ub.shape and bool(_n.allclose(ua, ub, rtol=0, atol=1e-12, equal_nan=True)), note='%s %s' % (kind, q))


# concrete inputs found by the defect-hunting sub-agents (bounded replay, see contracts/hunt.py)
from . import hunt as _hunt  # noqa: E402
_hunt.register('C02')
