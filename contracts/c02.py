"""C02 -- every traced ray obeys Snell / reflection on the prescribed surface.

Contracts on the real kernels; clause ids are listed in LEDGER.json."""
from pyvc.vc import contract, sharded
from .common import *  # noqa

PROPERTY = 'C02'
K_QUICK = 20
K_THOROUGH = 400


@contract('C02.RealRays.refract', [RR + ':RealRays.refract', RR + ':RealRays._align_surface_normal'],
          ['C02'], bundle=True)
def refract(c):
    k0 = c.unit3('L', 'M', 'N')
    n = c.unit3('nx', 'ny', 'nz')
    n1 = c.real('n1', 1.0, 4.0, positive=True)
    n2 = c.real('n2', 1.0, 4.0, positive=True)
    d0 = dot(k0, n)
    c.require(d0 != 0)                      # grazing incidence: sign(0) = 0 zeroes the normal
    u = n1 / n2
    rad = 1 - u * u * (1 - d0 * d0)
    c.require(rad > 0)                      # strictly below the critical angle
    rays = mk_rays(c, (0.0, 0.0, 0.0), k0)
    rays.refract(c.arr(n[0]), c.arr(n[1]), c.arr(n[2]), n1, n2)
    k1 = dir_of(c, rays)
    c.ensure_eq('C02.refract.unit', norm2(k1), 1)
    a, b = cross(k0, n), cross(k1, n)
    for i, ax in enumerate('xyz'):
        c.ensure_eq('C02.refract.snell_' + ax, n1 * a[i], n2 * b[i])
    sg = 1 if c.decide(d0 > 0) else -1
    K = c.abstract('K', dot(k1, n))
    D = c.abstract('D', d0)
    root = c.sqrt(rad)
    c.ensure('C02.refract.halfspace', K * D > 0, using=[K * sg == root, root > 0])
    for i, nm in enumerate(('L0', 'M0', 'N0')):
        c.ensure_eq('C02.refract.saves_incident', c.val(getattr(rays, nm)), k0[i])


@contract('C02.RealRays.refract.tir', [RR + ':RealRays.refract'], ['C02'], bundle=True, ieee=True)
def refract_tir(c):
    k0 = c.unit3('L', 'M', 'N')
    n = c.unit3('nx', 'ny', 'nz')
    n1 = c.real('n1', 1.0, 4.0, positive=True)
    n2 = c.real('n2', 1.0, 4.0, positive=True)
    d0 = dot(k0, n)
    u = n1 / n2
    c.require(d0 != 0)
    c.require(1 - u * u * (1 - d0 * d0) < 0)    # total internal reflection
    rays = mk_rays(c, (0.0, 0.0, 0.0), k0)
    rays.refract(c.arr(n[0]), c.arr(n[1]), c.arr(n[2]), n1, n2)
    for nm in 'LMN':
        c.ensure('C02.refract.tir_nonfinite', not c.isfinite(getattr(rays, nm)))


@contract('C02.RealRays.reflect', [RR + ':RealRays.reflect', RR + ':RealRays._align_surface_normal'],
          ['C02'], bundle=True)
def reflect(c):
    k0 = c.unit3('L', 'M', 'N')
    n = c.unit3('nx', 'ny', 'nz')
    d0 = dot(k0, n)
    c.require(d0 != 0)
    rays = mk_rays(c, (0.0, 0.0, 0.0), k0)
    rays.reflect(c.arr(n[0]), c.arr(n[1]), c.arr(n[2]))
    k1 = dir_of(c, rays)
    c.ensure_eq('C02.reflect.unit', norm2(k1), 1)
    for i, ax in enumerate('xyz'):
        c.ensure_eq('C02.reflect.law_' + ax, k1[i], k0[i] - 2 * d0 * n[i])
    c.ensure_eq('C02.reflect.halfspace', dot(k1, n), -d0)


def _rot_contract(axis):
    # spec rotation (right-handed about the axis) written independently of the code
    def spec(c, v, a):
        cs, sn = c.cos(a), c.sin(a)
        x, y, z = v
        if axis == 'x':
            return (x, y * cs - z * sn, y * sn + z * cs)
        if axis == 'y':
            return (x * cs + z * sn, y, -x * sn + z * cs)
        return (x * cs - y * sn, x * sn + y * cs, z)

    @contract('C02.RealRays.rotate_' + axis, [RR + ':RealRays.rotate_' + axis], ['C02', 'C07'], bundle=True)
    def rot(c):
        p = free_point(c)
        d = c.unit3('L', 'M', 'N')
        a = c.real('angle', -3.2, 3.2)
        rays = mk_rays(c, p, d)
        getattr(rays, 'rotate_' + axis)(a)
        p1, d1 = pos_of(c, rays), dir_of(c, rays)
        sp_, sd_ = spec(c, p, a), spec(c, d, a)
        for i, ax in enumerate('xyz'):
            c.ensure_eq('C02.rotate_%s.position_%s' % (axis, ax), p1[i], sp_[i])
            c.ensure_eq('C02.rotate_%s.direction_%s' % (axis, ax), d1[i], sd_[i])
        c.ensure_eq('C02.rotate_%s.isometry' % axis, norm2(p1), norm2(p))
        c.ensure_eq('C02.rotate_%s.unit_direction' % axis, norm2(d1), 1)
        getattr(rays, 'rotate_' + axis)(-a)
        p2, d2 = pos_of(c, rays), dir_of(c, rays)
        for i, ax in enumerate('xyz'):
            c.ensure_eq('C02.rotate_%s.inverse' % axis, p2[i], p[i])
            c.ensure_eq('C02.rotate_%s.inverse' % axis, d2[i], d[i])
    return rot


for _ax in 'xyz':
    _rot_contract(_ax)


# ------------------------------------------------------------------------------------------
# coordinate systems
# ------------------------------------------------------------------------------------------
@contract('C02.BaseRays.translate', ['optiland/rays/base.py:BaseRays.translate'], ['C02'], bundle=True)
def translate(c):
    p = free_point(c)
    d = c.unit3('L', 'M', 'N')
    dv = (c.real('dx'), c.real('dy'), c.real('dz'))
    rays = mk_rays(c, p, d)
    rays.translate(*dv)
    p1, d1 = pos_of(c, rays), dir_of(c, rays)
    for i, ax in enumerate('xyz'):
        c.ensure_eq('C02.translate.position', p1[i], p[i] + dv[i])
        c.ensure_eq('C02.translate.direction_unchanged', d1[i], d[i])


def _cs(c, tilt_mask, with_ref=False):
    """CoordinateSystem with symbolic decentres and symbolic tilts on the axes in tilt_mask"""
    CoordinateSystem = c.mod('optiland.coordinate_system').CoordinateSystem
    kw = dict(x=c.real('cx', -2, 2), y=c.real('cy', -2, 2), z=c.real('cz', -5, 20))
    for ax in 'xyz':
        kw['r' + ax] = c.real('r' + ax, -0.5, 0.5, nonzero=True) if ax in tilt_mask else 0.0
    return CoordinateSystem(**kw)


def _cs_contract(mask):
    @contract('C02.CoordinateSystem.roundtrip.' + (mask or 'none'),
              [CS + ':CoordinateSystem.localize', CS + ':CoordinateSystem.globalize',
               'optiland/geometries/base.py:BaseGeometry.localize', 'optiland/geometries/base.py:BaseGeometry.globalize'],
              ['C02', 'C07'], bundle=True)
    def rt(c):
        cs = _cs(c, mask)
        p = free_point(c)
        d = c.unit3('L', 'M', 'N')
        rays = mk_rays(c, p, d)
        cs.localize(rays)
        pl, dl = pos_of(c, rays), dir_of(c, rays)
        # isometry: distances to the vertex and direction norm are preserved
        v = (c.val(cs.x), c.val(cs.y), c.val(cs.z))
        c.ensure_eq('C02.cs.localize_isometry', norm2(pl), norm2(tuple(p[i] - v[i] for i in range(3))))
        c.ensure_eq('C02.cs.localize_unit_direction', norm2(dl), 1)
        cs.globalize(rays)
        pg, dg = pos_of(c, rays), dir_of(c, rays)
        for i in range(3):
            c.ensure_eq('C02.cs.globalize_inverts_localize', pg[i], p[i])
            c.ensure_eq('C02.cs.globalize_inverts_localize', dg[i], d[i])
        # and the other way round
        cs.globalize(rays)
        cs.localize(rays)
        pq, dq = pos_of(c, rays), dir_of(c, rays)
        for i in range(3):
            c.ensure_eq('C02.cs.localize_inverts_globalize', pq[i], p[i])
            c.ensure_eq('C02.cs.localize_inverts_globalize', dq[i], d[i])
    return rt


for _m in ('', 'x', 'y', 'z', 'xy', 'xz', 'yz', 'xyz'):
    _cs_contract(_m)


@contract('C02.CoordinateSystem.untilted_is_translation', [CS + ':CoordinateSystem.localize'], ['C02'], bundle=True)
def cs_plain(c):
    cs = _cs(c, '')
    p = free_point(c)
    d = c.unit3('L', 'M', 'N')
    rays = mk_rays(c, p, d)
    cs.localize(rays)
    pl, dl = pos_of(c, rays), dir_of(c, rays)
    v = (c.val(cs.x), c.val(cs.y), c.val(cs.z))
    for i in range(3):
        c.ensure_eq('C02.cs.localize_translation', pl[i], p[i] - v[i])
        c.ensure_eq('C02.cs.localize_translation', dl[i], d[i])


# ------------------------------------------------------------------------------------------
# geometries
# ------------------------------------------------------------------------------------------
PL = 'optiland/geometries/plane.py'
ST = 'optiland/geometries/standard.py'


@contract('C02.Plane.distance', [PL + ':Plane.distance', PL + ':Plane.surface_normal'], ['C02'], bundle=True, ieee=True)
def plane_distance(c):
    geos = c.mod('optiland.geometries')
    CoordinateSystem = c.mod('optiland.coordinate_system').CoordinateSystem
    g = geos.Plane(CoordinateSystem())
    p = free_point(c)
    d = c.unit3('L', 'M', 'N')
    rays = mk_rays(c, p, d)
    before = c.snapshot(rays=rays)
    t = c.val(g.distance(rays))
    if c.isfinite(t):
        c.ensure_eq('C02.plane.distance.on_surface', p[2] + t * d[2], 0)
        c.ensure('C02.plane.distance.forward', t >= 0)
    else:
        # no finite answer only when there is no forward intersection
        c.ensure('C02.plane.distance.nonfinite_only_without_hit',
                 c.decide(d[2] == 0) or c.decide(-p[2] / d[2] < 0))
    c.ensure_frame('C02.plane.distance.pure', before, c.snapshot(rays=rays), [])
    nx, ny, nz = g.surface_normal(rays)
    c.ensure('C02.plane.normal', (nx, ny, nz) == (0, 0, 1))


@sharded('C02.StandardGeometry.distance', [ST + ':StandardGeometry.distance'], ['C02', 'C06'], bits=4, bundle=True,
         ieee=True, max_paths=1500, z3_ms=8000)
def std_distance(c):
    geos = c.mod('optiland.geometries')
    CoordinateSystem = c.mod('optiland.coordinate_system').CoordinateSystem
    R = c.real('R', -50, 50, nonzero=True)
    k = c.real('k', -3, 2)
    g = geos.StandardGeometry(CoordinateSystem(), R, k)
    p = free_point(c)
    d = c.unit3('L', 'M', 'N')
    rays = mk_rays(c, p, d)
    before = c.snapshot(rays=rays)
    t = c.val(g.distance(rays))
    # the quadratic whose roots are the intersections of the line with the quadric (spec side;
    # written without using |D| = 1 so that its coefficients are polynomially the code's)
    x, y, z = p
    L, M, N = d
    a = k * N ** 2 + L ** 2 + M ** 2 + N ** 2
    b = 2 * k * N * z + 2 * L * x + 2 * M * y - 2 * N * R + 2 * N * z
    cc = k * z ** 2 - 2 * R * z + x ** 2 + y ** 2 + z ** 2
    disc = b * b - 4 * a * cc
    if c.isfinite(t):
        q = tuple(p[i] + t * d[i] for i in range(3))
        F = q[0] ** 2 + q[1] ** 2 + (1 + k) * q[2] ** 2 - 2 * R * q[2]
        c.ensure_eq('C02.std.distance.on_quadric', F, 0)
        if c.decide(a != 0):
            c.ensure('C02.std.distance.forward_root_when_quadratic', t >= 0)
    elif c.decide(N != 0):
        # liveness direction (not demanded by the statement, kept so that "always nan" is not
        # vacuously correct): for rays not exactly perpendicular to the axis a non-finite answer is
        # given only when the line has no forward intersection: no real root, or both roots behind.
        # (N == 0 exactly: inf * 0 = nan in the root selection can drop a valid root -- reported
        # in DESIGN.md as an observation; the statement does not forbid losing such a ray.)
        if c.decide(a != 0):
            if c.decide(disc >= 0):
                s = c.sqrt(disc)
                t1, t2 = (-b + s) / (2 * a), (-b - s) / (2 * a)
                c.ensure('C02.std.distance.nonfinite_only_without_forward_root',
                         c.decide(t1 < 0) and c.decide(t2 < 0))
        else:
            c.ensure('C02.std.distance.nonfinite_only_without_forward_root', c.decide(b == 0))
    c.ensure_frame('C02.std.distance.pure', before, c.snapshot(rays=rays), [])
