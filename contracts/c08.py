"""C08 -- Seidel and first-order chromatic terms equal the classical surface formulas.

Oracle: Welford's surface contributions (Aberrations of Optical Systems, ch. 8)
    A = n(yc + u), Abar = n(ybar c + ubar), H = n(ybar u - y ubar)
    S_I = -A^2 y D(u/n)   S_II = -A Abar y D(u/n)   S_III = -Abar^2 y D(u/n)
    S_IV = -H^2 c D(1/n)  S_V = (Abar/A)(S_III + S_IV)
    C_I = A y D(dn/n)     C_II = Abar y D(dn/n)
The library's convention (fixed, see DESIGN.md C08): each transverse term T_k = S_k / (2 n' u') with n', u'
the image-space index and final marginal slope, and seidels() = -2 n' u' * sum(T) = -S (Welford)."""
import math
from pyvc.vc import contract
from .common import *  # noqa
from .lens import arbitrary_lens, SG
from .c04 import _setup

PROPERTY = 'C08'
K_QUICK = 10
K_THOROUGH = 150
TIMEOUT_QUICK = 500
AB = 'optiland/aberrations.py'
KNOWN = {
    'C08.chromatic.TAchC_surface_formula': {'finding': 'C08-colour-uses-previous-surface-height', 'role': 'full'},
    'C08.chromatic.TchC_surface_formula': {'finding': 'C08-colour-uses-previous-surface-height', 'role': 'full'},
    'C08.chromatic.pin_uses_height_at_previous_surface': {'finding': 'C08-colour-uses-previous-surface-height', 'role': 'pin'},
    'C08.mirror.seidel_terms_welford': {'finding': 'C08-mirrors-contribute-zero', 'role': 'full'},
    'C08.mirror.pin_all_terms_zero': {'finding': 'C08-mirrors-contribute-zero', 'role': 'pin'},
}


def _disp_factory(c, j, nj):
    Base = c.mod('optiland.materials.base').BaseMaterial
    nF = c.real('nF%d' % j, 1.0, 2.5, positive=True)
    nC = c.real('nC%d' % j, 1.0, 2.5, positive=True)

    class Dispersive(Base):
        def n(self, w):
            w = float(w) if not hasattr(w, 'shape') else float(w.reshape(-1)[0])
            if abs(w - 0.4861) < 1e-9:
                return nF
            if abs(w - 0.6563) < 1e-9:
                return nC
            return nj

        def k(self, w):
            return 0.0
    m = Dispersive()
    m.dn = nF - nC
    return m


def _welford(c, v, ya, ua, yb, ub, n_surf, mirrors=()):
    """per-surface Welford sums for k = 1..N-2 and the invariant"""
    out = []
    H = v['n'][1] * (yb[1] * ua[1] - ya[1] * ub[1])
    sgn = 1
    for k in range(1, n_surf - 1):
        n0, n1 = v['n'][k - 1] * sgn, v['n'][k] * sgn
        if k in mirrors:
            n1 = -n0
            sgn = -sgn
        C = 0 if v['R'][k] == math.inf else 1 / v['R'][k]
        A = n0 * (ya[k] * C + ua[k - 1])
        Ab = n0 * (yb[k] * C + ub[k - 1])
        d = ua[k] / n1 - ua[k - 1] / n0
        S1 = -A * A * ya[k] * d
        S2 = -A * Ab * ya[k] * d
        S3 = -Ab * Ab * ya[k] * d
        S4 = -H * H * C * (1 / n1 - 1 / n0)
        out.append(dict(S1=S1, S2=S2, S3=S3, S4=S4, A=A, Ab=Ab))
    return out, H


def _seidel_contract(n, stop, finite):
    tag = 'n%d.s%d.%s' % (n, stop, 'fin' if finite else 'inf')

    @contract('C08.seidel.' + tag, [AB + ':Aberrations._precalculations', AB + ':Aberrations._TSC_term',
                                   AB + ':Aberrations._CC_term', AB + ':Aberrations._TAC_term', AB + ':Aberrations._TPC_term',
                                   AB + ':Aberrations._DC_term', AB + ':Aberrations._compute_seidel_terms',
                                   AB + ':Aberrations._sum_seidels', AB + ':Aberrations.third_order', AB + ':Aberrations.seidels',
                                   AB + ':Aberrations.TSC', AB + ':Aberrations.SC', AB + ':Aberrations.CC', AB + ':Aberrations.TCC',
                                   AB + ':Aberrations.TAC', AB + ':Aberrations.AC', AB + ':Aberrations.TPC', AB + ':Aberrations.PC',
                                   AB + ':Aberrations.DC'], ['C08'], max_paths=16, groebner_s=60)
    def sd(c):
        lens, v, apv, fy = _setup(c, n, stop, finite)
        tf = c.tan(fy * c.pi / 180)
        c.require(c.sin(fy * c.pi / 180) != 0)
        ab = lens.aberrations
        px = lens.paraxial
        ya, ua = [[c.val(x) for x in arr] for arr in px.marginal_ray()]
        yb, ub = [[c.val(x) for x in arr] for arr in px.chief_ray()]
        nl, ul = v['n'][n - 1], ua[n - 1]
        c.require(ul != 0)
        W, H = _welford(c, v, ya, ua, yb, ub, n)
        c.require(H != 0)
        for w_ in W:
            c.require(w_['A'] != 0)
        TSC, SC, CC, TCC, TAC, AC, TPC, PC, DC, TAchC, LchC, TchC, S = ab.third_order()
        den = 2 * nl * ul
        tot = [0, 0, 0, 0, 0]
        for k in range(1, n - 1):
            w_ = W[k - 1]
            S5 = (w_['Ab'] / w_['A']) * (w_['S3'] + w_['S4'])
            c.ensure_eq('C08.surface.TSC', c.val(TSC[k - 1]), w_['S1'] / den)
            c.ensure_eq('C08.surface.CC', c.val(CC[k - 1]), w_['S2'] / den)
            c.ensure_eq('C08.surface.TAC', c.val(TAC[k - 1]), w_['S3'] / den)
            c.ensure_eq('C08.surface.TPC', c.val(TPC[k - 1]), w_['S4'] / den)
            c.ensure_eq('C08.surface.DC', c.val(DC[k - 1]), S5 / den)
            # defining identities of the returned families
            c.ensure_eq('C08.identity.TCC_is_3CC', c.val(TCC[k - 1]), 3 * c.val(CC[k - 1]))
            c.ensure_eq('C08.identity.SC', c.val(SC[k - 1]), -c.val(TSC[k - 1]) / ul)
            c.ensure_eq('C08.identity.AC', c.val(AC[k - 1]), -c.val(TAC[k - 1]) / ul)
            c.ensure_eq('C08.identity.PC', c.val(PC[k - 1]), -c.val(TPC[k - 1]) / ul)
            for i, val in enumerate((w_['S1'], w_['S2'], w_['S3'], w_['S4'], S5)):
                tot[i] = tot[i] + val
        for i in range(5):
            c.ensure_eq('C08.sums.seidel_%d' % (i + 1), c.val(S[i]), -tot[i])
            c.ensure_eq('C08.sums.seidels_api_equals_third_order', c.val(ab.seidels()[i]), c.val(S[i]))
        # every accessor agrees with the all-in-one call
        for name, arr in (('TSC', TSC), ('SC', SC), ('CC', CC), ('TCC', TCC), ('TAC', TAC), ('AC', AC), ('TPC', TPC),
                          ('PC', PC), ('DC', DC)):
            acc = getattr(ab, name)()
            for k in range(n - 2):
                c.ensure_eq('C08.accessor_agrees_with_third_order', c.val(acc[k]), c.val(arr[k]))
    return sd


for (_n, _s, _f) in ((4, 1, False), (4, 2, False), (4, 2, True)):
    _seidel_contract(_n, _s, _f)


@contract('C08.stop_shift', [AB + ':Aberrations.seidels', AB + ':Aberrations._precalculations'], ['C08'], max_paths=16,
          groebner_s=60)
def stop_shift(c):
    """spherical and Petzval sums do not depend on where the stop is (infinite object, EPD aperture:
    the marginal launch does not depend on the stop)"""
    lens1, v, apv, fy = _setup(c, 4, 1, False)
    c.require(c.sin(fy * c.pi / 180) != 0)
    S_a = [c.val(x) for x in lens1.aberrations.seidels()]
    lens1.surface_group.surfaces[1].is_stop = False
    lens1.surface_group.surfaces[2].is_stop = True
    S_b = [c.val(x) for x in lens1.aberrations.seidels()]
    c.ensure_eq('C08.stop_shift.spherical_sum_independent_of_stop', S_a[0], S_b[0])
    c.ensure_eq('C08.stop_shift.petzval_sum_independent_of_stop', S_a[3], S_b[3])
    # and the second query describes the lens as it is *now* (nothing remembered from the first one)
    px = lens1.paraxial
    ya, ua = [[c.val(x) for x in arr] for arr in px.marginal_ray()]
    yb, ub = [[c.val(x) for x in arr] for arr in px.chief_ray()]
    W, H = _welford(c, v, ya, ua, yb, ub, 4)
    for w_ in W:
        c.require(w_['A'] != 0)
    tot = [0, 0, 0, 0, 0]
    for w_ in W:
        S5 = (w_['Ab'] / w_['A']) * (w_['S3'] + w_['S4'])
        for i, val in enumerate((w_['S1'], w_['S2'], w_['S3'], w_['S4'], S5)):
            tot[i] = tot[i] + val
    for i in range(5):
        c.ensure_eq('C08.requery_after_stop_move.seidel_%d' % (i + 1), S_b[i], -tot[i])


@contract('C08.chromatic', [AB + ':Aberrations._TAchC_term', AB + ':Aberrations._TchC_term', AB + ':Aberrations.TAchC',
                            AB + ':Aberrations.LchC', AB + ':Aberrations.TchC', AB + ':Aberrations.third_order'], ['C08'],
          max_paths=16, groebner_s=60)
def chromatic(c):
    n, stop = 4, 2
    lens, v = arbitrary_lens(c, n, stop=stop, finite_object=False, mat_factory=_disp_factory)
    lens.add_wavelength(0.55, is_primary=True)
    lens.set_aperture('EPD', c.real('ap_value', 0.5, 8.0, positive=True))
    lens.set_field_type('angle')
    fy = c.real('max_field', 1.0, 20.0, positive=True)
    lens.add_field(y=0.0)
    lens.add_field(y=fy)
    c.require(c.sin(fy * c.pi / 180) != 0)
    ab, px = lens.aberrations, lens.paraxial
    ya, ua = [[c.val(x) for x in arr] for arr in px.marginal_ray()]
    yb, ub = [[c.val(x) for x in arr] for arr in px.chief_ray()]
    nl, ul = v['n'][n - 1], ua[n - 1]
    c.require(ul != 0)
    TA, LC, TC = ab.TAchC(), ab.LchC(), ab.TchC()
    dn = [m.dn for m in v['mat']]
    for k in range(1, n - 1):
        C = 1 / v['R'][k]
        A = v['n'][k - 1] * (ya[k] * C + ua[k - 1])
        Ab = v['n'][k - 1] * (yb[k] * C + ub[k - 1])
        dd = dn[k] / v['n'][k] - dn[k - 1] / v['n'][k - 1]
        # unsplit clauses of known finding C08-colour-uses-previous-surface-height (symbolic only)
        c.ensure_eq('C08.chromatic.TAchC_surface_formula', c.val(TA[k - 1]), A * ya[k] * dd / (nl * ul), sym_only=True)
        c.ensure_eq('C08.chromatic.TchC_surface_formula', c.val(TC[k - 1]), Ab * ya[k] * dd / (nl * ul), sym_only=True)
        # pin: the code evaluates the same formulas with the marginal height at the *previous* surface
        c.ensure_eq('C08.chromatic.pin_uses_height_at_previous_surface', c.val(TA[k - 1]), A * ya[k - 1] * dd / (nl * ul))
        c.ensure_eq('C08.chromatic.pin_uses_height_at_previous_surface', c.val(TC[k - 1]), Ab * ya[k - 1] * dd / (nl * ul))
        # residual: identities that do hold
        c.ensure_eq('C08.identity.LchC', c.val(LC[k - 1]), -c.val(TA[k - 1]) / ul)
    full = ab.third_order()
    for k in range(n - 2):
        c.ensure_eq('C08.accessor_agrees_with_third_order', c.val(full[9][k]), c.val(TA[k]))
        c.ensure_eq('C08.accessor_agrees_with_third_order', c.val(full[10][k]), c.val(LC[k]))
        c.ensure_eq('C08.accessor_agrees_with_third_order', c.val(full[11][k]), c.val(TC[k]))


@contract('C08.mirror', [AB + ':Aberrations._precalculations', AB + ':Aberrations.third_order', 'optiland/optic.py:Optic.n'],
          ['C08'], max_paths=16, groebner_s=60)
def mirror(c):
    n, stop = 4, 1
    lens, v = arbitrary_lens(c, n, stop=stop, finite_object=False, mirrors=(2,))
    lens.add_wavelength(0.55, is_primary=True)
    lens.set_aperture('EPD', c.real('ap_value', 0.5, 8.0, positive=True))
    lens.set_field_type('angle')
    fy = c.real('max_field', 1.0, 20.0, positive=True)
    lens.add_field(y=0.0)
    lens.add_field(y=fy)
    c.require(c.sin(fy * c.pi / 180) != 0)
    ab, px = lens.aberrations, lens.paraxial
    ya, ua = [[c.val(x) for x in arr] for arr in px.marginal_ray()]
    yb, ub = [[c.val(x) for x in arr] for arr in px.chief_ray()]
    W, H = _welford(c, v, ya, ua, yb, ub, n, mirrors=(2,))
    ul = ua[n - 1]
    c.require(ul != 0)
    full = ab.third_order()
    TSC = full[0]
    # image space after one mirror: signed index -n
    den = 2 * (-v['n'][n - 1]) * ul
    c.ensure_eq('C08.mirror.seidel_terms_welford', c.val(TSC[1]), W[1]['S1'] / den, sym_only=True)
    for idx in (0, 2, 4, 6):
        c.ensure_eq('C08.mirror.pin_all_terms_zero', c.val(full[idx][1]), 0)
    # the distortion term keeps only its (ubar'^2 - ubar^2)/2 part
    hp = (v['n'][1] * (yb[1] * ua[1] - ya[1] * ub[1])) / (v['n'][n - 1] * ul)
    c.ensure_eq('C08.mirror.pin_all_terms_zero', c.val(full[8][1]), hp * (ub[2] ** 2 - ub[1] ** 2) / 2)


def _tsc_limit(ct, tier, seed):
    """bounded: the third-order transverse spherical sum predicts the real marginal-ray error in the small-aperture limit:
    y_image(rho) / rho^3 -> sum TSC as the pupil fraction rho -> 0, the discrepancy shrinking quadratically"""
    import random
    import time
    import warnings
    import numpy as np
    from optiland.optic import Optic
    from optiland.materials import IdealMaterial
    warnings.simplefilter('ignore')
    np.seterr(all='ignore')
    t0 = time.time()
    rng = random.Random(seed * 37 + 6)
    clauses, fails, cases = {}, [], 0
    cid = 'C08.runtime.transverse_spherical_sum_predicts_small_aperture_marginal_ray_error'
    c_ = clauses.setdefault(cid, {'paths': 0, 'proved': 0, 'backends': {}, 'failed': [], 'seconds': 0.0, 'bounded': True})
    for i in range(6 if tier == 'quick' else 40):
        L = Optic()
        finite = (i % 3 == 2)
        immersed = finite and (i % 2 == 0)               # object in a medium other than air, aperture given as object-space NA
        if immersed:
            L.add_surface(index=0, thickness=rng.uniform(150, 400), material=IdealMaterial(rng.uniform(1.2, 1.6)))
        else:
            L.add_surface(index=0, thickness=(rng.uniform(150, 400) if finite else np.inf))
        idx = 1
        stop_at = rng.randrange(1, 5)
        for e in range(2):
            # positive elements of varying bending (biconvex, plano-convex-like, meniscus), so that a real image exists
            R1 = rng.uniform(30, 90)
            R2 = rng.choice([-1.0, -1.0, 4.0]) * rng.uniform(40, 120)
            L.add_surface(index=idx, radius=R1, thickness=rng.uniform(2, 5), material=IdealMaterial(rng.uniform(1.45, 1.8)), is_stop=(idx == stop_at))
            idx += 1
            L.add_surface(index=idx, radius=R2, thickness=rng.uniform(3, 20), is_stop=(idx == stop_at))
            idx += 1
        L.add_surface(index=idx)
        if immersed:
            L.set_aperture('objectNA', rng.uniform(0.01, 0.02))
        else:
            L.set_aperture('EPD', rng.uniform(4, 8))
        if finite:
            L.set_field_type('object_height')
            L.add_field(y=0)
            L.add_field(y=rng.uniform(2, 6))
        else:
            L.set_field_type('angle')
            L.add_field(y=0)
            L.add_field(y=rng.uniform(2, 8))
        L.add_wavelength(0.55, is_primary=True)
        try:
            L.image_solve()
            tsc = float(np.sum(L.aberrations.TSC()))
            epss = [0.3, 0.1, 0.03]
            errs = []
            for eps in epss:
                L.trace_generic(0.0, 0.0, 0.0, eps, 0.55)
                errs.append(abs(float(L.surface_group.y[-1, 0]) / eps ** 3 - tsc))
        except Exception:
            continue
        if not np.all(np.isfinite(errs)) or not np.isfinite(tsc):
            continue
        cases += 1
        c_['paths'] += 1
        C = errs[0] / epss[0] ** 2
        ok = all(e <= 3 * C * eps ** 2 + 1e-9 for e, eps in zip(errs[1:], epss[1:])) and errs[-1] <= 5e-3 * abs(tsc) + 1e-9
        if ok:
            c_['proved'] += 1
            c_['backends']['runtime'] = c_['backends'].get('runtime', 0) + 1
        else:
            fails.append({'clause': cid, 'draws': {'lens': 'two spherical singlets #%d' % i, 'seed': seed},
                          'note': 'sum TSC = %.6g, |y/rho^3 - TSC| = %s at rho = %s' % (tsc, errs, epss)})
    return {'contract': ct.name, 'functions': ct.functions, 'props': ct.props,
            'symbolic': {'clauses': clauses, 'paths': 0, 'errors': [], 'solver_s': 0.0, 'samples': [], 'wd_assumed': [], 'assumed': []},
            'numeric': {'accepted': cases, 'rejected': 0, 'failures': fails[:10], 'concolic_agree': 0, 'encoder_mismatches': [],
                        'samples': [{'rho': [0.3, 0.1, 0.03]}]}, 'wall_s': time.time() - t0}


contract('C08.runtime.tsc_limit', ['optiland/aberrations.py:Aberrations.TSC', 'optiland/aberrations.py:Aberrations._precalculations',
                                   'optiland/optic.py:Optic.trace_generic'], ['C08'], custom=_tsc_limit)(lambda c: None)


# concrete inputs found by the defect-hunting sub-agents (bounded replay, see contracts/hunt.py)
from . import hunt as _hunt  # noqa: E402
_hunt.register('C08')
