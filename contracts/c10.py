"""C10 -- Zernike families are correctly indexed, normalised, and recovered by fitting."""
import math
import random
import time

import numpy as np
import sympy as sp

from pyvc.vc import contract
from pyvc import sym as S
from .common import *  # noqa

PROPERTY = 'C10'
K_QUICK = 6
K_THOROUGH = 60
ZK = 'optiland/zernike.py'
TRUSTED = ['trigonometric orthogonality on [0, 2pi]: integral of cos(m t)cos(k t), sin sin, cos sin (used for the azimuthal factor)',
           'scipy.optimize.least_squares returns a stationary point of 0.5*||f||^2 (external contract); with an affine residual of '
           'full column rank that point is the unique least-squares solution']


# ---- published index rules (independent enumerations) ----------------------------------------------
def spec_standard(count):
    """OSA/ANSI: j = (n(n+2)+m)/2, j = 0, 1, 2, ..."""
    out = []
    n = 0
    while len(out) < count:
        for m in range(-n, n + 1, 2):
            out.append((n, m))
        n += 1
    out.sort(key=lambda nm: (nm[0] * (nm[0] + 2) + nm[1]) // 2)
    return out[:count]


def spec_noll(count):
    """Noll 1976: j = 1, 2, ...; ordered by n, then |m|; even j <-> cosine (m > 0), odd j <-> sine (m < 0)"""
    out = []
    j = 1
    n = 0
    while len(out) < count:
        for am in range(n % 2, n + 1, 2):
            if am == 0:
                out.append((n, 0))
                j += 1
            else:
                if j % 2 == 0:
                    out.extend([(n, am), (n, -am)])
                else:
                    out.extend([(n, -am), (n, am)])
                j += 2
        n += 1
    return out[:count]


def spec_fringe(count):
    """Fringe (University of Arizona): by (n+|m|)/2 ascending, then |m| descending, cosine before sine"""
    out = []
    k = 0
    while len(out) < count:
        for am in range(k, -1, -1):
            n = 2 * k - am
            if am == 0:
                out.append((n, 0))
            else:
                out.extend([(n, am), (n, -am)])
        k += 1
    return out[:count]


FAMILIES = {'standard': ('ZernikeStandard', spec_standard), 'noll': ('ZernikeNoll', spec_noll), 'fringe': ('ZernikeFringe', spec_fringe)}


def _clause(clauses, cid, ok, detail='', backend='closed-evaluation'):
    c = clauses.setdefault(cid, {'paths': 0, 'proved': 0, 'backends': {}, 'failed': [], 'seconds': 0.0})
    c['paths'] += 1
    if ok:
        c['proved'] += 1
        c['backends'][backend] = c['backends'].get(backend, 0) + 1
    elif len(c['failed']) < 3:
        c['failed'].append({'status': 'refuted', 'back_end': backend, 'detail': detail, 'goal': cid})


def _closed(ct, tier, seed):
    """closed evaluation over the whole (finite) index space, on the twin (exact rationals) and the real package"""
    from pyvc import twin
    t0 = time.time()
    clauses = {}
    fails = []
    zr = twin.real('optiland.zernike')
    zs_ = twin.sym('optiland.zernike')
    path = S.Path(())
    S.set_path(path)
    try:
        r = sp.Symbol('r', nonnegative=True)
        for fam, (cls, spec) in FAMILIES.items():
            Z = getattr(zr, cls)()
            idx = [tuple(int(v) for v in nm) for nm in Z.indices]
            want = spec(120)
            _clause(clauses, 'C10.indices.%s.count_is_120' % fam, len(idx) == 120, 'got %d' % len(idx))
            for j, (a, b) in enumerate(zip(idx, want)):
                ok = a == b
                _clause(clauses, 'C10.indices.%s.published_order' % fam, ok, 'position %d: code %s, rule %s' % (j, a, b))
                if not ok:
                    fails.append({'clause': 'C10.indices.%s.published_order' % fam, 'draws': {'family': fam, 'position': j},
                                  'note': 'code %s, rule %s' % (a, b)})
            _clause(clauses, 'C10.indices.%s.no_repetition' % fam, len(set(idx)) == len(idx))
            _clause(clauses, 'C10.indices.%s.valid_pairs' % fam, all((n - abs(m)) % 2 == 0 and n >= abs(m) for n, m in idx))
            # radial polynomials from the *extracted* _radial_term with symbolic r (exact rationals)
            Zs = getattr(zs_, cls)()
            polys = {}
            for (n, m) in idx:
                try:
                    e = S.lift(Zs._radial_term(n, m, S.Sym(r))).e
                except Exception as ex:       # the function under contract raises inside its stated domain: a failed obligation
                    polys[(n, m)] = sp.Integer(0)
                    _clause(clauses, 'C10.radial.%s.unit_value_at_pupil_edge' % fam, False,
                            '_radial_term(%d, %d, r) raises %s: %s' % (n, m, type(ex).__name__, ex))
                    fails.append({'clause': 'C10.radial.%s.unit_value_at_pupil_edge' % fam, 'draws': {'family': fam, 'n': n, 'm': m},
                                  'note': '_radial_term raises %s' % type(ex).__name__})
                    continue
                polys[(n, m)] = sp.expand(e)
                _clause(clauses, 'C10.radial.%s.unit_value_at_pupil_edge' % fam, sp.simplify(polys[(n, m)].subs(r, 1) - 1) == 0,
                        'R_%d^%d(1) = %s' % (n, m, polys[(n, m)].subs(r, 1)))
            # orthogonality / normalisation: integral_0^1 R_n^m R_n'^m r dr = delta/(2n+2)
            for i, (n, m) in enumerate(idx):
                for (n2, m2) in idx[i:]:
                    if abs(m) != abs(m2) or (m != m2 and n == n2):
                        continue          # different |m|: azimuthal orthogonality (trusted); +-m same n: cos vs sin
                    val = sp.integrate(sp.expand(polys[(n, m)] * polys[(n2, m2)] * r), (r, 0, 1))
                    want_v = sp.Rational(1, 2 * n + 2) if n == n2 else 0
                    _clause(clauses, 'C10.radial.%s.orthogonality' % fam, sp.nsimplify(val - want_v) == 0 or abs(float(val - want_v)) < 1e-12,
                            'n=%d n2=%d m=%d: %s' % (n, n2, m, val))
            # normalisation constants: N^2 * 1/(2n+2) * (2 if m == 0 else 1) = 1 for Standard and Noll; Fringe: N = 1
            for (n, m) in idx:
                N = S.lift(Zs._norm_constant(n, m))
                N2 = sp.nsimplify(sp.expand(N.e ** 2).subs({a: sp.sqrt(e_) for (a, e_) in [(v[0], v[1]) for v in path.sqrt_atoms.values()]}))
                if fam == 'fringe':
                    _clause(clauses, 'C10.norm.fringe.unit_norm_constant', N2 == 1, 'N^2 = %s' % N2)
                else:
                    _clause(clauses, 'C10.norm.%s.orthonormal_on_unit_disk' % fam,
                            sp.simplify(N2 * sp.Rational(1, 2 * n + 2) * (2 if m == 0 else 1) - 1) == 0, '(n,m)=%s N^2=%s' % ((n, m), N2))
            # all assigned coefficients are used, also more than the object was built with
            Z2 = getattr(zr, cls)()
            Z2.coeffs = [0.0] * 40 + [1.0]
            v1 = Z2.poly(0.7, 0.3)
            if len(idx) <= 40:
                _clause(clauses, 'C10.poly.%s.uses_every_assigned_coefficient' % fam, False, 'index table has only %d entries' % len(idx))
                continue
            # a series with a single unit coefficient is that term, for every one of the 120 positions (public evaluation at the pupil edge)
            for j, (nj, mj) in enumerate(idx):
                Z3 = getattr(zr, cls)()
                Z3.coeffs = [0.0] * j + [1.0]
                try:
                    got = abs(float(Z3.poly(1.0, 0.3)))
                except Exception as ex:
                    got = float('nan')
                Nj = 1.0 if fam == 'fringe' else math.sqrt((2 * nj + 2) / (2.0 if mj == 0 else 1.0))
                wantj = Nj * abs(math.cos(mj * 0.3) if mj >= 0 else math.sin(mj * 0.3))
                okj = abs(got - wantj) < 1e-9 * max(1.0, wantj)
                _clause(clauses, 'C10.poly.%s.single_coefficient_series_is_that_term_at_the_pupil_edge' % fam, okj,
                        'term %d (n, m)=(%d, %d): |poly(1, 0.3)| = %r, want %r' % (j + 1, nj, mj, got, wantj))
                if not okj:
                    fails.append({'clause': 'C10.poly.%s.single_coefficient_series_is_that_term_at_the_pupil_edge' % fam,
                                  'draws': {'family': fam, 'term': j + 1, 'n': nj, 'm': mj}, 'note': 'got %r want %r' % (got, wantj)})
            n_, m_ = idx[40]
            want_v = Z2._norm_constant(n_, m_) * Z2._radial_term(n_, m_, 0.7) * Z2._azimuthal_term(m_, 0.3)
            _clause(clauses, 'C10.poly.%s.uses_every_assigned_coefficient' % fam, abs(v1 - want_v) < 1e-12, 'term 41: %s vs %s' % (v1, want_v))
            if abs(v1 - want_v) >= 1e-12:
                fails.append({'clause': 'C10.poly.%s.uses_every_assigned_coefficient' % fam, 'draws': {'family': fam}, 'note': 'coefficient 41 ignored'})
    finally:
        S.set_path(None)
    return {'contract': ct.name, 'functions': ct.functions, 'props': ct.props,
            'symbolic': {'clauses': clauses, 'paths': sum(c['paths'] for c in clauses.values()), 'errors': [], 'solver_s': time.time() - t0,
                         'samples': [{'clause': 'C10.indices.noll.published_order', 'first_terms': spec_noll(8)}], 'wd_assumed': [], 'assumed': []},
            'numeric': {'accepted': 1, 'rejected': 0, 'failures': fails[:10], 'concolic_agree': 0, 'encoder_mismatches': [], 'samples': []},
            'wall_s': time.time() - t0}


contract('C10.closed', [ZK + ':ZernikeStandard._generate_indices', ZK + ':ZernikeNoll._generate_indices',
                        ZK + ':ZernikeFringe._generate_indices', ZK + ':ZernikeStandard._radial_term',
                        ZK + ':ZernikeStandard._norm_constant', ZK + ':ZernikeNoll._norm_constant', ZK + ':ZernikeFringe._norm_constant',
                        ZK + ':ZernikeStandard.terms', ZK + ':ZernikeStandard.poly'], ['C10'], custom=_closed)(lambda c: None)


# ---- linearity of evaluation, affine residual (symbolic) ----------------------------------------------
def _linear_contract(fam):
    cls = FAMILIES[fam][0]

    @contract('C10.linear.' + fam, [ZK + ':ZernikeStandard.terms', ZK + ':ZernikeStandard.poly', ZK + ':ZernikeStandard.get_term',
                                    ZK + ':ZernikeStandard._azimuthal_term', ZK + ':ZernikeFit._objective'], ['C10'], max_paths=8)
    def lin(c):
        Zm = c.mod('optiland.zernike')
        N = 10
        a = [c.real('a%d' % i, -2, 2) for i in range(N)]
        b = [c.real('b%d' % i, -2, 2) for i in range(N)]
        al, be = c.real('alpha', -2, 2), c.real('beta', -2, 2)
        r, phi = c.real('r', 0, 1, nonneg=True), c.real('phi', -3, 3)

        def ev(co):
            Z = getattr(Zm, cls)(list(co))
            return c.val(Z.poly(r, phi))
        lhs = ev([al * x + be * y for x, y in zip(a, b)])
        c.ensure_eq('C10.poly.linear_in_coefficients', lhs, al * ev(a) + be * ev(b))
        c.ensure_eq('C10.poly.zero_coefficients_give_zero', ev([0.0] * N), 0)
    return lin


for _f in FAMILIES:
    _linear_contract(_f)


def _requery_contract(fam):
    cls = FAMILIES[fam][0]

    @contract('C10.requery.' + fam, [ZK + ':ZernikeStandard.terms', ZK + ':ZernikeStandard.poly', ZK + ':ZernikeStandard.__init__'], ['C10'], max_paths=8)
    def rq(c):
        """edit-then-ask: the polynomial is evaluated with the coefficient list the object holds *now* (ZernikeFit assigns a new
        list on every objective evaluation), also when the new list is longer or shorter than the one given at construction"""
        Zm = c.mod('optiland.zernike')
        r, phi = c.real('r', 0, 1, nonneg=True), c.real('phi', -3, 3)
        first = [c.real('f%d' % i, -2, 2) for i in range(3)]
        Z = getattr(Zm, cls)(list(first))
        Z.poly(r, phi)
        for n_new in (8, 2):
            new = [c.real('n%d_%d' % (n_new, i), -2, 2) for i in range(n_new)]
            Z.coeffs = list(new)
            fresh = getattr(Zm, cls)(list(new))
            c.ensure_eq('C10.requery.poly_uses_the_current_coefficient_list', c.val(Z.poly(r, phi)), c.val(fresh.poly(r, phi)))
            c.ensure('C10.requery.one_term_per_current_coefficient', len(Z.terms(r, phi)) == n_new)
    return rq


for _f in FAMILIES:
    _requery_contract(_f)


# ---- fitting ------------------------------------------------------------------------------------------------
def _fit(ct, tier, seed):
    from pyvc import twin
    t0 = time.time()
    zr = twin.real('optiland.zernike')
    rng = np.random.default_rng(seed + 5)
    clauses = {}
    fails = []
    cases = 0
    Ns = [1, 4, 11, 22, 36, 37] if tier == 'quick' else list(range(1, 38))
    # (a) the solver is asked for the plain (linear) least-squares problem
    calls = []
    real_ls = zr.least_squares

    def rec(fun, x0, *a, **k):
        calls.append((a, dict(k)))
        return real_ls(fun, x0, *a, **k)
    for fam in FAMILIES:
        for N in Ns:
            npts = max(3 * N, 30)
            rr = np.sqrt(rng.uniform(0, 1, npts))
            th = rng.uniform(0, 2 * np.pi, npts)
            x, y = rr * np.cos(th), rr * np.sin(th)
            truth = rng.normal(size=N)
            Zc = getattr(zr, FAMILIES[fam][0])(list(truth))
            z = Zc.poly(rr, th)
            zr.least_squares = rec
            try:
                fit = zr.ZernikeFit(x, y, z, fam, N)
            finally:
                zr.least_squares = real_ls
            cases += 1
            # affine residual: J independent of the coefficients, f(c*) = 0
            f0 = fit._objective(np.zeros(N))
            e1 = np.zeros(N)
            e1[N // 2] = 1.0
            J1 = fit._objective(e1) - f0
            J2 = (fit._objective(3 * e1 + truth) - fit._objective(truth)) / 3
            _clause(clauses, 'C10.fit.residual_is_affine_in_coefficients', np.allclose(J1, J2, atol=1e-9), backend='runtime')
            _clause(clauses, 'C10.fit.residual_vanishes_at_generating_coefficients', np.allclose(fit._objective(truth), 0, atol=1e-9), backend='runtime')
            fit._objective(np.zeros(N))
            fit2 = zr.ZernikeFit(x, y, z, fam, N)
            ok = np.allclose(fit2.coeffs, truth, atol=1e-6)
            _clause(clauses, 'C10.fit.recovers_exact_combination', ok, '%s N=%d max err %.2e' % (fam, N, np.max(np.abs(np.array(fit2.coeffs) - truth))), backend='runtime')
            if not ok:
                fails.append({'clause': 'C10.fit.recovers_exact_combination', 'draws': {'family': fam, 'N': N, 'seed': seed},
                              'note': 'max coefficient error %.3e' % np.max(np.abs(np.array(fit2.coeffs) - truth))})
            # linear in the data, also for data outside the span with large residuals
            zo = 6.0 * np.sign(x) + 3.0 * (rr > 0.6) + z
            c1 = np.array(zr.ZernikeFit(x, y, zo, fam, N).coeffs)
            c2 = np.array(zr.ZernikeFit(x, y, 2.5 * zo, fam, N).coeffs)
            # the solver stops on its own tolerances (ftol = xtol = 1e-8 on a cost of order 1e3): agreement to 1e-4 of the largest coefficient
            ok = np.allclose(c2, 2.5 * c1, rtol=1e-4, atol=1e-4 * max(1.0, float(np.max(np.abs(c1)))))
            _clause(clauses, 'C10.fit.linear_in_the_data', ok, '%s N=%d' % (fam, N), backend='runtime')
            if not ok:
                fails.append({'clause': 'C10.fit.linear_in_the_data', 'draws': {'family': fam, 'N': N, 'seed': seed},
                              'note': 'fit(2.5 z) != 2.5 fit(z): max dev %.3e' % np.max(np.abs(c2 - 2.5 * c1))})
    # several fits alive at once (one per field, one per data set): each keeps the coefficients of *its own* data
    for fam in FAMILIES:
        xs = rng.uniform(-0.7, 0.7, 60)
        ys = rng.uniform(-0.7, 0.7, 60)
        rr_, ph_ = np.sqrt(xs ** 2 + ys ** 2), np.arctan2(ys, xs)
        ca, cb = rng.normal(size=6), rng.normal(size=10)
        Za = getattr(zr, FAMILIES[fam][0])(list(ca))
        Zb = getattr(zr, FAMILIES[fam][0])(list(cb))
        za = np.array([Za.poly(r_, p_) for r_, p_ in zip(rr_, ph_)])
        zb = np.array([Zb.poly(r_, p_) for r_, p_ in zip(rr_, ph_)])
        fa = zr.ZernikeFit(xs, ys, za, fam, 6)
        first = np.array(fa.coeffs, dtype=float).copy()
        fb = zr.ZernikeFit(xs, ys, zb, fam, 10)                 # a later fit of the same family, other data, other size
        cases += 1
        ok = len(fa.coeffs) == 6 and np.allclose(np.array(fa.coeffs, dtype=float), first, rtol=0, atol=0) and np.allclose(first, ca, atol=1e-6) \
            and np.allclose(np.array(fb.coeffs, dtype=float), cb, atol=1e-6)
        back = np.array([fa.zernike.poly(r_, p_) for r_, p_ in zip(rr_, ph_)])
        ok = ok and np.allclose(back, za, atol=1e-6)
        _clause(clauses, 'C10.fit.an_earlier_fit_keeps_its_own_coefficients_when_another_fit_is_made', ok, fam, backend='runtime')
        if not ok:
            fails.append({'clause': 'C10.fit.an_earlier_fit_keeps_its_own_coefficients_when_another_fit_is_made', 'draws': {'family': fam, 'seed': seed},
                          'note': 'first fit now reports %d coefficients %s (its data were generated from %s)' % (len(fa.coeffs), np.round(fa.coeffs, 3)[:6], np.round(ca, 3))})
    plain = all(k.get('loss', 'linear') == 'linear' and not a for a, k in calls)
    _clause(clauses, 'C10.fit.solver_called_with_plain_least_squares', plain, str(calls[:1]), backend='runtime')
    for c_ in clauses.values():
        c_['bounded'] = True
    return {'contract': ct.name, 'functions': ct.functions, 'props': ct.props,
            'symbolic': {'clauses': clauses, 'paths': 0, 'errors': [], 'solver_s': 0.0, 'samples': [], 'wd_assumed': [], 'assumed': []},
            'numeric': {'accepted': cases, 'rejected': 0, 'failures': fails[:10], 'concolic_agree': 0, 'encoder_mismatches': [],
                        'samples': [{'families': list(FAMILIES), 'N': Ns}]}, 'wall_s': time.time() - t0}


contract('C10.fit', [ZK + ':ZernikeFit._fit', ZK + ':ZernikeFit._objective', ZK + ':ZernikeFit.__init__'], ['C10'], custom=_fit)(lambda c: None)


def _zernike_opd(ct, tier, seed):
    """bounded: the lens-wavefront decomposition (wavefront.ZernikeOPD) fits *the sampled OPD* at the sampled pupil points -- also when
    a physical aperture or obscuration blocks part of the bundle -- i.e. its coefficients are those of a direct ZernikeFit of an
    independently computed OPD, and its reconstruction reproduces that OPD up to the same truncation residual"""
    import warnings
    from optiland import wavefront
    from optiland.physical_apertures import RadialAperture
    from optiland.samples.objectives import CookeTriplet
    warnings.simplefilter('ignore')
    np.seterr(all='ignore')
    t0 = time.time()
    from pyvc import twin as _twin
    zr = _twin.real('optiland.zernike')
    clauses, fails, cases = {}, [], 0
    cid = 'C10.zernike_opd.coefficients_are_the_fit_of_the_sampled_opd'
    for (clip, fam, nt) in ((None, 'fringe', 37), (5.5, 'standard', 36), (5.0, 'noll', 28)):
        L = CookeTriplet()
        if clip:
            L.surface_group.surfaces[6].aperture = RadialAperture(r_max=clip)
        f0 = (0.0, 1.0)
        pw = L.primary_wavelength
        ref = wavefront.OPD(L, f0, pw, num_rings=6)
        z = np.array(ref.data[0][0][0], dtype=float)
        inten = np.array(ref.data[0][0][1], dtype=float)
        zo = wavefront.ZernikeOPD(L, f0, pw, num_rings=6, zernike_type=fam, num_terms=nt)
        direct = zr.ZernikeFit(ref.distribution.x, ref.distribution.y, z, fam, nt)
        cases += 1
        ok = bool(np.allclose(np.array(zo.coeffs, dtype=float), np.array(direct.coeffs, dtype=float), rtol=1e-7, atol=1e-9))
        _clause(clauses, cid, ok, '%s clip=%s' % (fam, clip), backend='runtime')
        if not ok:
            fails.append({'clause': cid, 'draws': {'lens': 'CookeTriplet', 'clip_radius_surface_6': clip, 'family': fam, 'blocked_rays': int(np.sum(inten == 0))},
                          'note': 'max coefficient difference %.3e' % float(np.max(np.abs(np.array(zo.coeffs, dtype=float) - np.array(direct.coeffs, dtype=float))))})
    for c_ in clauses.values():
        c_['bounded'] = True
    return {'contract': ct.name, 'functions': ct.functions, 'props': ct.props,
            'symbolic': {'clauses': clauses, 'paths': 0, 'errors': [], 'solver_s': 0.0, 'samples': [], 'wd_assumed': [], 'assumed': []},
            'numeric': {'accepted': cases, 'rejected': 0, 'failures': fails[:10], 'concolic_agree': 0, 'encoder_mismatches': [],
                        'samples': [{'lens': 'CookeTriplet with and without a clipping aperture'}]}, 'wall_s': time.time() - t0}


contract('C10.zernike_opd', ['optiland/wavefront.py:ZernikeOPD.__init__', ZK + ':ZernikeFit.__init__'], ['C10'], custom=_zernike_opd)(lambda c: None)


# concrete inputs found by the defect-hunting sub-agents (bounded replay, see contracts/hunt.py)
from . import hunt as _hunt  # noqa: E402
_hunt.register('C10')
