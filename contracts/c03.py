"""C03 -- rays start at the requested field point and aim at the requested pupil point."""
import math
from pyvc.vc import contract
from .common import *  # noqa
from .lens import arbitrary_lens

PROPERTY = 'C03'
K_QUICK = 12
K_THOROUGH = 200
TIMEOUT_QUICK = 400
RG = 'optiland/rays/ray_generator.py'
DI = 'optiland/distribution.py'
FUNCS = [RG + ':RayGenerator.generate_rays', RG + ':RayGenerator._get_ray_origins', RG + ':RayGenerator._get_starting_z_offset',
         'optiland/fields.py:FieldGroup.get_vig_factor', 'optiland/fields.py:FieldGroup.max_field']

# field tables: (y, vx, vy); the largest field in magnitude is *negative* on purpose
ANGLE_FIELDS = ((-14.0, 0.2, 0.1), (0.0, 0.0, 0.0), (10.0, 0.1, 0.15))
HEIGHT_FIELDS = ((-5.0, 0.2, 0.1), (0.0, 0.0, 0.0), (3.0, 0.1, 0.15))


def _lens(c, finite, ap, field, vignetting=True, stub=True):
    lens, v = arbitrary_lens(c, 4, stop=2, finite_object=finite)
    lens.add_wavelength(0.55, is_primary=True)
    apv = c.real('ap_value', 0.05, 0.3, positive=True) if ap == 'objectNA' else c.real('ap_value', 0.5, 6.0, positive=True)
    lens.set_aperture(ap, apv)
    lens.set_field_type(field)
    for (y, vx, vy) in (ANGLE_FIELDS if field == 'angle' else HEIGHT_FIELDS):
        lens.add_field(y=y, vx=vx if vignetting else 0.0, vy=vy if vignetting else 0.0)
    if c.symbolic and stub:
        # modular: the entrance pupil position / diameter are whatever Paraxial.EPL/EPD return
        # (their values are the subject of C04); here they are opaque reals
        EPL = c.opaque('EPL', lens.paraxial.EPL())
        EPD = c.opaque('EPD', lens.paraxial.EPD())
        lens.paraxial.EPL = lambda: EPL
        lens.paraxial.EPD = lambda: EPD
    return lens, v, apv


def _launch_contract(finite, ap, field):
    tag = '%s.%s.%s' % ('finite' if finite else 'infinite', ap, field)

    @contract('C03.launch.' + tag, FUNCS, ['C03', 'C05'], bundle=True, max_paths=64, groebner_s=40)
    def launch(c):
        lens, v, apv = _lens(c, finite, ap, field)
        maxf = 14.0 if field == 'angle' else 5.0
        Hx, Hy = 0.0, c.real('Hy', -1.0, 1.0)
        Px, Py = c.real('Px', -1.0, 1.0), c.real('Py', -1.0, 1.0)
        c.require(Px * Px + Py * Py <= 1)
        w = c.real('wavelength', 0.4, 0.7, positive=True)
        EPL, EPD = c.val(lens.paraxial.EPL()), c.val(lens.paraxial.EPD())
        vx, vy = lens.fields.get_vig_factor(Hx, Hy)
        vx, vy = c.val(vx), c.val(vy)
        rays = lens.ray_generator.generate_rays(Hx, Hy, c.arr(Px), c.arr(Py), w)
        P0, D = pos_of(c, rays), dir_of(c, rays)
        P1 = (Px * EPD / 2 * (1 - vx), Py * EPD / 2 * (1 - vy), EPL)
        dv = tuple(P1[i] - P0[i] for i in range(3))
        c.require(dv[2] != 0)
        # aimed exactly at the pupil point: direction parallel to P1 - P0, same sense, unit length
        cr = cross(D, dv)
        for i in range(3):
            c.ensure_eq('C03.launch.aimed_at_pupil_point', cr[i], 0)
        c.ensure_eq('C03.launch.unit_direction', norm2(D), 1)
        DD = c.abstract('DD', dot(D, dv))
        mag = c.sqrt(norm2(dv))
        c.ensure('C03.launch.towards_pupil_point', DD >= 0, using=[DD == mag, mag >= 0])
        c.ensure_eq('C03.launch.unit_intensity', c.val(rays.i), 1)
        c.ensure_eq('C03.launch.zero_path', c.val(rays.opd), 0)
        c.ensure_eq('C03.launch.wavelength', c.val(rays.w), w)
        if finite and field == 'object_height':
            c.ensure_eq('C03.launch.starts_at_field_point_x', P0[0], 0)
            c.ensure_eq('C03.launch.starts_at_field_point_y', P0[1], Hy * maxf)
            c.ensure_eq('C03.launch.starts_on_object_surface', P0[2], v['z'][0])
        if field == 'angle':
            # travels at angle Hy * max field to the axis, whatever the pupil point
            ang = Hy * maxf * c.pi / 180
            if finite:
                # finite object with angular fields: the chief-type ray (P = 0) has that angle
                pass
            else:
                c.ensure_eq('C03.launch.field_angle', D[1] * c.cos(ang), D[2] * c.sin(ang) * (1 if True else 1))
                c.ensure_eq('C03.launch.meridional_for_y_fields', D[0], 0) if False else None
    return launch


for (_f, _a, _fl) in ((False, 'EPD', 'angle'), (False, 'imageFNO', 'angle'), (True, 'EPD', 'object_height'),
                      (True, 'objectNA', 'object_height'), (True, 'EPD', 'angle')):
    _launch_contract(_f, _a, _fl)


@contract('C03.launch.chief_finite_angle', FUNCS, ['C03'], bundle=True, max_paths=64)
def chief_finite_angle(c):
    lens, v, apv = _lens(c, True, 'EPD', 'angle')
    Hy = c.real('Hy', -1.0, 1.0)
    rays = lens.ray_generator.generate_rays(0.0, Hy, c.arr(0.0), c.arr(0.0), 0.55)
    D = dir_of(c, rays)
    ang = Hy * 14.0 * c.pi / 180
    c.ensure_eq('C03.launch.field_angle_chief_ray_finite_object', D[1] * c.cos(ang), D[2] * c.sin(ang))


@contract('C03.launch.telecentric', FUNCS, ['C03'], bundle=True, max_paths=64)
def telecentric(c):
    lens, v, apv = _lens(c, True, 'objectNA', 'object_height', vignetting=False)
    lens.obj_space_telecentric = True
    c.require(apv < 1)
    Hy = c.real('Hy', -1.0, 1.0)
    # chief ray leaves parallel to the axis
    r0 = lens.ray_generator.generate_rays(0.0, Hy, c.arr(0.0), c.arr(0.0), 0.55)
    D0 = dir_of(c, r0)
    c.ensure_eq('C03.telecentric.chief_parallel_to_axis', D0[0], 0)
    c.ensure_eq('C03.telecentric.chief_parallel_to_axis', D0[1], 0)
    c.ensure_eq('C03.telecentric.chief_parallel_to_axis', D0[2], 1)
    c.ensure_eq('C03.telecentric.starts_at_field_point', c.val(r0.y), Hy * 5.0)
    # marginal ray: the stated numerical aperture is n0 sin(theta) in the object-space medium (any index; the clause used to read
    # sin(theta) = NA, which is what the library did -- defect fixed in 4c6ece2)
    n0 = v['n'][0]
    c.require(apv < n0)
    sin0 = apv / n0
    r1 = lens.ray_generator.generate_rays(0.0, Hy, c.arr(0.0), c.arr(1.0), 0.55)
    D1 = dir_of(c, r1)
    c.ensure_eq('C03.telecentric.marginal_sine_is_NA', n0 * D1[1], apv)
    c.ensure_eq('C03.telecentric.unit', norm2(D1), 1)
    # any pupil point, skew ones included: the slopes are (Px, Py) tan(theta_max) with sin(theta_max) = NA, i.e. the direction
    # is parallel to (Px NA, Py NA, sqrt(1 - NA^2)) -- a circular cone whose rim carries the stated NA
    Px, Py = c.real('Px', -1.0, 1.0), c.real('Py', -1.0, 1.0)
    c.require(Px * Px + Py * Py <= 1)
    r2 = lens.ray_generator.generate_rays(0.0, Hy, c.arr(Px), c.arr(Py), 0.55)
    D2 = dir_of(c, r2)
    cz = c.sqrt(1 - sin0 * sin0)
    cr = cross(D2, (Px * sin0, Py * sin0, cz))
    for i in range(3):
        c.ensure_eq('C03.telecentric.direction_for_any_pupil_point', cr[i], 0)
    c.ensure_eq('C03.telecentric.unit', norm2(D2), 1)
    c.ensure('C03.telecentric.leaves_towards_the_lens', D2[2] > 0)


def _reject_contract(finite, ap, field, tele):
    tag = '%s.%s.%s.%s' % ('finite' if finite else 'infinite', ap, field, 'tele' if tele else 'std')

    @contract('C03.config.' + tag, FUNCS + ['optiland/aperture.py:Aperture.__init__'], ['C03'], bundle=True, max_paths=64)
    def cfg(c):
        lens, v, apv = _lens(c, finite, ap, field, vignetting=False)
        lens.obj_space_telecentric = tele
        if ap == 'objectNA':
            c.require(apv < 1)
        must_reject = (not finite and field == 'object_height') or (not finite and tele) or (tele and ap in ('EPD', 'imageFNO'))
        may_reject = tele and field == 'angle'
        Hy, Px, Py = c.real('Hy', -1, 1), c.real('Px', -0.7, 0.7), c.real('Py', -0.7, 0.7)
        if not finite and ap == 'objectNA':
            return          # EPD from an object NA needs a finite object distance; outside the statement
        try:
            lens.ray_generator.generate_rays(0.0, Hy, c.arr(Px), c.arr(Py), 0.55)
            raised = False
        except ValueError:
            raised = True
        if must_reject:
            c.ensure('C03.config.unrepresentable_combination_rejected', raised)
        elif not may_reject:
            c.ensure('C03.config.representable_combination_traced', not raised)
    return cfg


for _f in (True, False):
    for _a in ('EPD', 'imageFNO', 'objectNA'):
        for _fl in ('angle', 'object_height'):
            for _t in (False, True):
                _reject_contract(_f, _a, _fl, _t)


@contract('C03.vignetting', ['optiland/fields.py:FieldGroup.get_vig_factor'], ['C03'], max_paths=64)
def vignetting(c):
    lens, v, apv = _lens(c, False, 'EPD', 'angle')
    Hy = c.real('Hy', -1.0, 1.0)
    Hx = c.real('Hx', -1.0, 1.0)
    c.require(Hx * Hx + Hy * Hy <= 1)
    vx, vy = lens.fields.get_vig_factor(Hx, Hy)
    vx, vy = c.val(vx), c.val(vy)
    # interpolated factors stay inside the range of the table, hence in [0, 1]: the pupil can only shrink
    c.ensure('C03.vignetting.factor_in_table_range', s_and(vx >= 0, vx <= 0.2, vy >= 0, vy <= 0.15))
    P = c.real('P', -1, 1)
    scaled = P * (1 - vx)
    c.ensure('C03.vignetting.only_shrinks', scaled * scaled <= P * P, using=[vx >= 0, vx <= 0.2])


# ---- named pupil samplings: documented count, containment, vignetting only shrinks -------------------
def _expected_count(name, n):
    if name in ('line_x', 'line_y', 'positive_line_x', 'positive_line_y', 'random', 'ring'):
        return n
    if name == 'cross':
        return 2 * n
    if name == 'hexapolar':
        return 1 + 3 * n * (n + 1)
    if name == 'uniform':
        import numpy as np
        g = np.linspace(-1, 1, n)
        return int(sum(1 for a in g for b in g if a * a + b * b <= 1))
    raise KeyError(name)


def _distribution_contract(name):
    @contract('C03.distribution.' + name, [DI + ':create_distribution', DI + ':' + {
        'line_x': 'LineXDistribution', 'line_y': 'LineYDistribution', 'positive_line_x': 'LineXDistribution',
        'positive_line_y': 'LineYDistribution', 'random': 'RandomDistribution', 'uniform': 'UniformDistribution',
        'hexapolar': 'HexagonalDistribution', 'cross': 'CrossDistribution', 'ring': 'RingDistribution'}[name] + '.generate_points'],
        ['C03'], max_paths=4, concolic=False)
    def dist(c):
        # closed evaluation: the count argument is enumerated (1..NMAX), the vignetting factors are symbolic
        D = c.mod('optiland.distribution')
        vx = c.real('vx', 0.0, 1.0, nonneg=True)
        vy = c.real('vy', 0.0, 1.0, nonneg=True)
        c.require(vx <= 1)
        c.require(vy <= 1)
        nmax = 6 if name in ('hexapolar', 'uniform') else 9
        for n in range(1, nmax + 1):
            d = D.create_distribution(name)
            d.generate_points(n, vx, vy) if name != 'hexapolar' else d.generate_points(n, vx, vy)
            x, y = d.x, d.y
            c.ensure('C03.distribution.documented_count', len(x) == _expected_count(name, n) and len(y) == len(x))
            d0 = D.create_distribution(name)
            if name == 'random':
                d0.rng = c.np.random.default_rng(7) if not c.symbolic else __import__('numpy').random.default_rng(7)
                d.rng = c.np.random.default_rng(7) if not c.symbolic else __import__('numpy').random.default_rng(7)
                d.generate_points(n, vx, vy)
                x, y = d.x, d.y
            d0.generate_points(n, 0.0, 0.0)
            for i in range(len(x)):
                xi, yi, x0, y0 = c.val(x[i]), c.val(y[i]), c.val(d0.x[i]), c.val(d0.y[i])
                # unvignetted point inside the unit pupil (floats: 1e-12 slack for cos^2+sin^2)
                c.ensure('C03.distribution.inside_unit_pupil', x0 * x0 + y0 * y0 <= 1 + 1e-12)
                c.ensure_eq('C03.distribution.vignetting_scales_x', xi, x0 * (1 - vx))
                c.ensure_eq('C03.distribution.vignetting_scales_y', yi, y0 * (1 - vy))
    return dist


for _nm in ('line_x', 'line_y', 'positive_line_x', 'positive_line_y', 'random', 'uniform', 'hexapolar', 'cross', 'ring'):
    _distribution_contract(_nm)


def _counts(ct, tier, seed):
    """bounded: the documented number of points for *every* count argument up to a bound (the symbolic contracts above enumerate
    1..9 only; a count computed in floating point can be off by one at isolated larger values), all points inside the unit pupil"""
    import time
    import numpy as np
    from pyvc import twin
    D = twin.real('optiland.distribution')
    t0 = time.time()
    clauses, fails, cases = {}, [], 0

    def note(cid, ok, detail, inputs):
        c_ = clauses.setdefault(cid, {'paths': 0, 'proved': 0, 'backends': {}, 'failed': [], 'seconds': 0.0, 'bounded': True})
        c_['paths'] += 1
        if ok:
            c_['proved'] += 1
            c_['backends']['runtime'] = c_['backends'].get('runtime', 0) + 1
        elif len(fails) < 10:
            fails.append({'clause': cid, 'draws': inputs, 'note': detail})
    big = 600 if tier == 'quick' else 4096
    bounds = {'line_x': big, 'line_y': big, 'positive_line_x': big, 'positive_line_y': big, 'random': big, 'ring': big, 'cross': big,
              'hexapolar': 40 if tier == 'quick' else 90, 'uniform': 64 if tier == 'quick' else 160}
    for name, nmax in bounds.items():
        for n in range(1, nmax + 1):
            d = D.create_distribution(name)
            d.generate_points(n)
            cases += 1
            x, y = np.asarray(d.x, dtype=float), np.asarray(d.y, dtype=float)
            if name == 'uniform':
                g = np.linspace(-1, 1, n)
                want = int(np.count_nonzero(g[:, None] ** 2 + g[None, :] ** 2 <= 1))
            else:
                want = _expected_count(name, n)
            note('C03.distribution.documented_count_for_every_count_argument', len(x) == want and len(y) == want,
                 '%s(%d): %d points, documented %d' % (name, n, len(x), want), {'distribution': name, 'num_points': n})
            note('C03.distribution.every_point_inside_unit_pupil_for_every_count_argument', bool(np.all(x * x + y * y <= 1 + 1e-12)),
                 '%s(%d)' % (name, n), {'distribution': name, 'num_points': n})
    return {'contract': ct.name, 'functions': ct.functions, 'props': ct.props,
            'symbolic': {'clauses': clauses, 'paths': 0, 'errors': [], 'solver_s': 0.0, 'samples': [], 'wd_assumed': [], 'assumed': []},
            'numeric': {'accepted': cases, 'rejected': 0, 'failures': fails[:10], 'concolic_agree': 0, 'encoder_mismatches': [],
                        'samples': [{'bounds': bounds}]}, 'wall_s': time.time() - t0}


contract('C03.runtime.counts', [DI + ':create_distribution', DI + ':RingDistribution.generate_points', DI + ':LineXDistribution.generate_points',
                                DI + ':LineYDistribution.generate_points', DI + ':RandomDistribution.generate_points',
                                DI + ':UniformDistribution.generate_points', DI + ':HexagonalDistribution.generate_points',
                                DI + ':CrossDistribution.generate_points'], ['C03'], custom=_counts)(lambda c: None)


def _object_na(ct, tier, seed):
    """bounded, composition on the real code with nothing stubbed (the symbolic launch contracts take EPL and EPD from Paraxial by
    contract; their values are C04's subject): for an object NA specification with the object immersed in a medium of index n0,
    the axial rim ray (Hy = 0, Py = +-1) leaves the object point with n0 sin(theta) = NA -- tan(theta) = (EPD/2) / (EPL - z_obj)
    composed with the EPD the library computes -- and is aimed at the rim of the entrance pupil"""
    import random
    import time
    import warnings
    import numpy as np
    from optiland.optic import Optic
    from optiland.materials import IdealMaterial
    warnings.simplefilter('ignore')
    t0 = time.time()
    rng = random.Random(seed * 67 + 3)
    clauses, fails, cases = {}, [], 0

    def note(cid, ok, detail, inputs):
        c_ = clauses.setdefault(cid, {'paths': 0, 'proved': 0, 'backends': {}, 'failed': [], 'seconds': 0.0, 'bounded': True})
        c_['paths'] += 1
        if ok:
            c_['proved'] += 1
            c_['backends']['runtime'] = c_['backends'].get('runtime', 0) + 1
        elif len(fails) < 10:
            fails.append({'clause': cid, 'draws': inputs, 'note': detail})
    for i in range(6 if tier == 'quick' else 60):
        n0 = (1.0, 1.333, 1.515)[i % 3]
        na = rng.uniform(0.05, 0.3)
        d0, R, t = rng.uniform(20, 80), rng.uniform(25, 60), rng.uniform(2, 6)
        stop = 1 + i % 2
        L = Optic()
        L.add_surface(index=0, thickness=d0, material=IdealMaterial(n0))
        L.add_surface(index=1, radius=R, thickness=t, material=IdealMaterial(1.6), is_stop=(stop == 1))
        L.add_surface(index=2, radius=-R, thickness=50.0, is_stop=(stop == 2))
        L.add_surface(index=3)
        L.set_aperture('objectNA', na)
        L.set_field_type('object_height')
        L.add_field(y=0)
        L.add_field(y=2.0)
        L.add_wavelength(0.55, is_primary=True)
        inputs = {'n0': n0, 'NA': na, 'object_distance': d0, 'R': R, 't': t, 'stop': stop}
        for py in (1.0, -1.0):
            r = L.ray_generator.generate_rays(0.0, 0.0, np.array([0.0]), np.array([py]), 0.55)
            cases += 1
            M = float(r.M[0])
            note('C03.runtime.object_na_rim_ray_carries_the_stated_na', abs(n0 * M - py * na) <= 1e-9, 'n0 sin(theta) = %r, NA = %r' % (n0 * M, py * na), inputs)
            note('C03.runtime.object_na_rim_ray_starts_on_the_axial_object_point', abs(float(r.y[0])) <= 1e-12 and abs(float(r.x[0])) <= 1e-12 and abs(float(r.L[0])) <= 1e-12,
                 'x, y, L = %r %r %r' % (float(r.x[0]), float(r.y[0]), float(r.L[0])), inputs)
    return {'contract': ct.name, 'functions': ct.functions, 'props': ct.props,
            'symbolic': {'clauses': clauses, 'paths': 0, 'errors': [], 'solver_s': 0.0, 'samples': [], 'wd_assumed': [], 'assumed': []},
            'numeric': {'accepted': cases, 'rejected': 0, 'failures': fails[:10], 'concolic_agree': 0, 'encoder_mismatches': [],
                        'samples': [{'lens': 'immersed finite object, biconvex singlet, stop on either surface'}]}, 'wall_s': time.time() - t0}


contract('C03.runtime.object_na', [RG + ':RayGenerator.generate_rays', 'optiland/paraxial.py:Paraxial.EPD', 'optiland/paraxial.py:Paraxial.EPL'],
         ['C03'], custom=_object_na)(lambda c: None)


@contract('C03.distribution.gaussian_quadrature', [DI + ':GaussianQuadrature.generate_points', DI + ':GaussianQuadrature._get_radius'],
          ['C03'], max_paths=4, concolic=False)
def gq(c):
    D = c.mod('optiland.distribution')
    for sym_ in (True, False):
        for rings in range(1, 7):
            d = D.GaussianQuadrature(is_symmetric=sym_)
            d.generate_points(rings, 0.0, 0.0)
            c.ensure('C03.distribution.documented_count', len(d.x) == rings * (1 if sym_ else 3))
            for i in range(len(d.x)):
                c.ensure('C03.distribution.inside_unit_pupil', c.val(d.x[i]) * c.val(d.x[i]) + c.val(d.y[i]) * c.val(d.y[i]) <= 1 + 1e-12)


# ---- edit-then-ask: rays are launched for the lens as it is at the time of the call ---------------------------------------
@contract('C03.requery.pupil', [RG + ':RayGenerator.generate_rays', RG + ':RayGenerator._get_ray_origins'], ['C03', 'C05', 'C13'], bundle=True, max_paths=64)
def requery_pupil(c):
    """a second launch after the entrance pupil moved / changed size aims at the new pupil (whatever moved it)"""
    lens, v, apv = _lens(c, False, 'EPD', 'angle', stub=False)
    vals = {'EPL': c.real('EPL_first', 1, 30), 'EPD': c.real('EPD_first', 1, 8, positive=True)}
    lens.paraxial.EPL = lambda: vals['EPL']
    lens.paraxial.EPD = lambda: vals['EPD']
    Hy, Px, Py = c.real('Hy', -1, 1), c.real('Px', -1, 1), c.real('Py', -1, 1)
    c.require(Px * Px + Py * Py <= 1)
    lens.ray_generator.generate_rays(0.0, Hy, c.arr(Px), c.arr(Py), 0.55)
    vals['EPL'], vals['EPD'] = c.real('EPL_second', 1, 30), c.real('EPD_second', 1, 8, positive=True)
    vx, vy = lens.fields.get_vig_factor(0.0, Hy)
    rays = lens.ray_generator.generate_rays(0.0, Hy, c.arr(Px), c.arr(Py), 0.55)
    P0, D = pos_of(c, rays), dir_of(c, rays)
    P1 = (Px * vals['EPD'] / 2 * (1 - c.val(vx)), Py * vals['EPD'] / 2 * (1 - c.val(vy)), vals['EPL'])
    cr = cross(D, tuple(P1[i] - P0[i] for i in range(3)))
    for i in range(3):
        c.ensure_eq('C03.requery.second_launch_aims_at_the_current_entrance_pupil', cr[i], 0)


@contract('C03.requery.fields', [RG + ':RayGenerator._get_ray_origins', 'optiland/fields.py:FieldGroup.max_field', 'optiland/fields.py:FieldGroup.get_vig_factor'],
          ['C03', 'C13'], bundle=True, max_paths=64)
def requery_fields(c):
    """a field added after a first launch changes the normalisation: Hy = 1 is the largest field of the *current* table"""
    lens, v, apv = _lens(c, True, 'EPD', 'object_height')
    Hy = c.real('Hy', -1, 1)
    lens.ray_generator.generate_rays(0.0, Hy, c.arr(0.0), c.arr(0.0), 0.55)
    lens.fields.get_vig_factor(0.0, Hy)
    lens.add_field(y=8.0, vx=0.3, vy=0.25)                  # larger than every field of the table (max was 5)
    rays = lens.ray_generator.generate_rays(0.0, Hy, c.arr(0.0), c.arr(0.0), 0.55)
    c.ensure_eq('C03.requery.field_point_uses_the_current_field_table', c.val(rays.y), Hy * 8.0)
    vx, vy = lens.fields.get_vig_factor(0.0, 1.0)
    c.ensure_eq('C03.requery.vignetting_uses_the_current_field_table', c.val(vx), 0.3)
    c.ensure_eq('C03.requery.vignetting_uses_the_current_field_table', c.val(vy), 0.25)


@contract('C03.requery.object_distance', [RG + ':RayGenerator.generate_rays', RG + ':RayGenerator._get_ray_origins', 'optiland/optic.py:Optic.set_thickness'],
          ['C03', 'C01', 'C13'], bundle=True, max_paths=64)
def requery_object_distance(c):
    """after the object distance is edited (set_thickness on surface 0 -- what a thickness variable, pickup or scale_system does) the
    ray starts on the object at its new distance *from the first surface* and is aimed at the pupil plane EPL behind *that* surface"""
    lens, v, apv = _lens(c, True, 'EPD', 'object_height')
    Hy, Px, Py = c.real('Hy', -1, 1), c.real('Px', -1, 1), c.real('Py', -1, 1)
    c.require(Px * Px + Py * Py <= 1)
    lens.ray_generator.generate_rays(0.0, Hy, c.arr(Px), c.arr(Py), 0.55)
    newT = c.real('new_object_distance', 5, 60, positive=True)
    lens.set_thickness(newT, 0)
    EPL, EPD = c.val(lens.paraxial.EPL()), c.val(lens.paraxial.EPD())
    vx, vy = lens.fields.get_vig_factor(0.0, Hy)
    rays = lens.ray_generator.generate_rays(0.0, Hy, c.arr(Px), c.arr(Py), 0.55)
    z1 = c.val(lens.surface_group.positions[1])
    P0, D = pos_of(c, rays), dir_of(c, rays)
    c.ensure_eq('C03.requery.object_at_its_new_distance_from_the_first_surface', P0[2], z1 - newT)
    c.ensure_eq('C03.requery.object_height_unchanged_by_the_distance_edit', P0[1], Hy * 5.0)
    P1 = (Px * EPD / 2 * (1 - c.val(vx)), Py * EPD / 2 * (1 - c.val(vy)), z1 + EPL)
    cr = cross(D, tuple(P1[i] - P0[i] for i in range(3)))
    for i in range(3):
        c.ensure_eq('C03.requery.aimed_at_the_pupil_behind_the_first_surface_after_the_distance_edit', cr[i], 0)


# concrete inputs found by the defect-hunting sub-agents (bounded replay, see contracts/hunt.py)
from . import hunt as _hunt  # noqa: E402
_hunt.register('C03')
