"""C13 -- tracing and analysis are repeatable and free of side effects.

Decided by frame conditions.  (1) Static frame analysis of the real source (pyvc/frames.py): for every
query entry point, every heap-write site reachable in the (over-approximated, receiver-typed) call
graph lies in the allowed frame, and no in-place mutation reaches a parameter of the entry point --
for all inputs.  (2) Bounded run-time tier: snapshots around real calls, repeated-call equality,
argument snapshots, and validation of the static call graph against traced executions."""
import copy
import json
import os
import random
import sys
import time

from pyvc.vc import contract
from pyvc import frames, twin
from . import rt

PROPERTY = 'C13'
TRUSTED = ['static call graph: method calls are resolved by the receiver naming convention of the code base '
           '(pyvc/frames.py RECEIVER_FAMILY); validated on every run against traced real executions (bounded)']

KNOWN = {'C13.frame.PolynomialCoeffVariable.get_value': {'finding': 'C13-polycoeff-getter-pads', 'role': 'full'},
         'C13.frame.ChebyshevCoeffVariable.get_value': {'finding': 'C13-polycoeff-getter-pads', 'role': 'full'},
         'C13.frame.Variable.value': {'finding': 'C13-polycoeff-getter-pads', 'role': 'full'},
         'C13.getter_pad.only_write_is_the_zero_padding': {'finding': 'C13-polycoeff-getter-pads', 'role': 'pin'}}

RECORD = {'x', 'y', 'z', 'L', 'M', 'N', 'intensity', 'aoi', 'opd', 'u'}
RAY_CLASSES = {'BaseRays', 'RealRays', 'ParaxialRays', 'PolarizedRays'}
OWN_STATE_MODULES = ('optiland/analysis/', 'optiland/wavefront.py', 'optiland/psf.py', 'optiland/mtf.py', 'optiland/zernike.py',
                     'optiland/distribution.py', 'optiland/optimization/operand/')
MUTATORS = {'add_surface', 'add_field', 'add_wavelength', 'set_aperture', 'set_field_type', 'set_radius', 'set_conic',
            'set_thickness', 'set_index', 'set_asphere_coeff', 'set_polarization', 'scale_system', 'reset', 'update',
            'update_paraxial', 'image_solve', 'from_dict', 'remove_surface', 'set_fresnel_coatings', 'set_fresnel_coating',
            'set_semi_aperture', 'set_telecentric', 'clear', 'apply', 'add'}
ENTRY_MODULES = ['optiland/optic.py', 'optiland/paraxial.py', 'optiland/aberrations.py', 'optiland/wavefront.py',
                 'optiland/psf.py', 'optiland/mtf.py', 'optiland/analysis/spot_diagram.py', 'optiland/analysis/encircled_energy.py',
                 'optiland/analysis/ray_fan.py', 'optiland/analysis/y_ybar.py', 'optiland/analysis/distortion.py',
                 'optiland/analysis/grid_distortion.py', 'optiland/analysis/field_curvature.py', 'optiland/analysis/rms_vs_field.py',
                 'optiland/analysis/pupil_aberration.py', 'optiland/optimization/operand/ray.py',
                 'optiland/optimization/operand/paraxial.py', 'optiland/optimization/operand/aberration.py',
                 'optiland/surfaces/surface_group.py']
GETTER_ENTRIES = ['optiland/optimization/variable/variable.py:Variable.value', 'optiland/optimization/variable/variable.py:Variable.bounds',
                  'optiland/optimization/operand/operand.py:Operand.value']


def _entries(funcs):
    out = []
    for q, f in sorted(funcs.items()):
        if f.module in ENTRY_MODULES and f.cls:
            if f.name in frames.SKIP_METHODS or f.name in MUTATORS:
                continue
            if f.name.startswith('_') and f.name != '__init__':
                continue
            if f.module == 'optiland/optic.py' and f.name in ('__init__',):
                continue
            if f.module == 'optiland/surfaces/surface_group.py' and f.name in ('__init__',):
                continue
            out.append(f)
    for q in GETTER_ENTRIES:
        if q in funcs:
            out.append(funcs[q])
    for q, f in sorted(funcs.items()):
        if f.module.startswith('optiland/optimization/variable/') and f.name == 'get_value':
            out.append(f)
    return out


def _benign(f, w):
    kind, bk, text, attr, ln = w
    if bk == 'local':
        return True
    if f.name == '__init__' and bk == 'self':
        return True                                    # a constructor initialises the fresh object
    if f.cls in RAY_CLASSES and bk == 'self':
        return True                                    # ray bundles are per-call objects
    if bk.endswith('param:rays') and (kind == 'inplace' or attr in RECORD | {'i', 'w', 'L0', 'M0', 'N0', 'p'}):
        return True
    if kind == 'inplace' and bk.startswith('param:'):
        return True        # in-place use of a parameter: judged by the C13.args clause (does it reach an argument of the entry?)
    if f.cls in ('Surface', 'ObjectSurface', 'ImageSurface') and bk == 'self' and kind == 'attr' and attr in RECORD:
        return True                                    # per-surface *record* fields
    if kind == 'attr' and attr in RECORD and '.surfaces[' in text:
        return True                                    # a per-surface *record* field written through the surface list (Optic.trace, a9d2415)
    if f.cls == 'Aberrations' and bk == 'self' and kind == 'attr' and attr.startswith('_'):
        return True                                    # its pre-computation cache
    if f.cls == 'Aberrations' and bk == 'self' and kind == 'inplace' and text.startswith('self._'):
        return True
    if any(f.module.startswith(m) for m in OWN_STATE_MODULES) and bk == 'self':
        return True                                    # the analysis object's own fields
    if f.cls in ('Material',) and attr == '_df':
        return True                                    # idempotent class-level cache of the catalogue table
    if f.cls == 'MaterialFile' and bk == 'self':
        return True                                    # lazy parse into the material object's own cache fields
    if f.cls == 'MaterialFile' and kind == 'inplace' and text == 'n' and f.name.startswith('_formula_'):
        return True        # `n = c[0]; n += ...`: c is the parsed list of python floats, n an immutable scalar (rebinding)
    return False


def _static(ct, tier, seed):
    t0 = time.time()
    repo = twin._STATE['repo']
    funcs, by_name, classes = frames.load(repo)
    mut = frames.mutated_params(funcs, by_name, classes)
    clauses = {}
    samples = []
    n_sites = 0
    all_edges = set()
    for f in _entries(funcs):
        reach, edges = frames.reachable([f], funcs, by_name, classes)
        all_edges |= edges
        bad = []
        for q, g in reach.items():
            for w in g.writes:
                n_sites += 1
                if not _benign(g, w):
                    bad.append('%s line %d: %s %s%s (%s)' % (g.qual, w[4], 'in-place write to' if w[0] == 'inplace' else 'store to',
                                                             w[2], '.' + w[3] if w[3] else '', w[1]))
        # a prescription-rooted object handed to a callee that mutates that parameter in place
        for q, g in reach.items():
            for call in g.calls:
                (name, recv, rk, argk, kw, ln) = call
                for cand in frames.resolve(g, call, by_name, classes):
                    if not mut[cand.qual]:
                        continue
                    ps = [p for p in cand.params if p not in ('self', 'cls')]
                    for i, k in enumerate(argk):
                        kk = k[6:] if k.startswith('alias:') else k
                        if i < len(ps) and ps[i] in mut[cand.qual] and kk in ('self', 'global') and g.cls not in RAY_CLASSES:
                            bad.append('%s line %d: passes %s-rooted object to %s which mutates parameter %s in place'
                                       % (g.qual, ln, kk, cand.qual, ps[i]))
        cid = 'C13.frame.%s.%s' % (f.cls, f.name)
        clauses[cid] = {'paths': 1, 'proved': 0 if bad else 1, 'backends': {} if bad else {'static-frame-analysis': 1},
                        'failed': [{'status': 'refuted', 'back_end': 'static-frame-analysis', 'detail': '; '.join(sorted(set(bad))[:6]),
                                    'goal': 'every reachable heap write lies in the query frame (records, rays, own fields)'}] if bad else [],
                        'seconds': 0.0}
        am = sorted(p for p in mut[f.qual] if p not in ('rays', 'self'))
        cid2 = 'C13.args.%s.%s' % (f.cls, f.name)
        clauses[cid2] = {'paths': 1, 'proved': 0 if am else 1, 'backends': {} if am else {'static-frame-analysis': 1},
                         'failed': [{'status': 'refuted', 'back_end': 'static-frame-analysis',
                                     'detail': 'parameters mutated in place (directly or through callees): %s' % am,
                                     'goal': 'no in-place write reaches an argument object'}] if am else [], 'seconds': 0.0}
        if len(samples) < 3:
            samples.append({'clause': cid, 'entry': f.qual, 'reachable_functions': len(reach),
                            'write_sites_checked': sum(len(g.writes) for g in reach.values())})
    # pin of known finding C13-polycoeff-getter-pads: the only write outside the frame reachable from the getters
    # is the zero-padding store in the `except IndexError` branch of PolynomialCoeffVariable.get_value
    import ast as _ast
    g = funcs.get('optiland/optimization/variable/polynomial_coeff.py:PolynomialCoeffVariable.get_value')
    pin_ok = False
    if g is not None:
        stores = [w for w in g.writes if not _benign(g, w)]
        in_handler = set()
        for node in _ast.walk(g.node):
            if isinstance(node, _ast.ExceptHandler):
                for sub in _ast.walk(node):
                    if hasattr(sub, 'lineno'):
                        in_handler.add(sub.lineno)
        pads = [n for n in _ast.walk(g.node) if isinstance(n, _ast.Call) and _ast.unparse(n.func) == 'np.pad'
                and any(k.arg == 'constant_values' and _ast.unparse(k.value) == '0' for k in n.keywords)]
        pin_ok = bool(stores) and all(w[4] in in_handler and w[3] == 'c' for w in stores) and bool(pads)
    clauses['C13.getter_pad.only_write_is_the_zero_padding'] = {
        'paths': 1, 'proved': 1 if pin_ok else 0, 'backends': {'static-frame-analysis': 1} if pin_ok else {},
        'failed': [] if pin_ok else [{'status': 'refuted', 'back_end': 'static-frame-analysis', 'detail': 'getter writes differ from the recorded padding',
                                      'goal': 'the only store is geometry.c = np.pad(..., constant_values=0) under except IndexError'}], 'seconds': 0.0}
    # global mutable state / RNG on query paths
    rng_sites = []
    for f in _entries(funcs):
        reach, _ = frames.reachable([f], funcs, by_name, classes)
        for q, g in reach.items():
            for call in g.calls:
                recv = call[1] or ''
                if recv.startswith('np.random') or recv in ('random', 'self.rng', 'rng'):
                    if g.cls not in ('RandomDistribution',) and not g.module.endswith('scatter.py'):
                        rng_sites.append('%s line %d' % (g.qual, call[5]))
    clauses['C13.determinism.no_rng_on_query_paths'] = {
        'paths': 1, 'proved': 0 if rng_sites else 1, 'backends': {} if rng_sites else {'static-frame-analysis': 1},
        'failed': [{'status': 'refuted', 'back_end': 'static-frame-analysis', 'detail': str(sorted(set(rng_sites))[:6]),
                    'goal': 'no random source other than RandomDistribution / scatter models'}] if rng_sites else [], 'seconds': 0.0}
    return {'contract': ct.name, 'functions': ct.functions, 'props': ct.props,
            'symbolic': {'clauses': clauses, 'paths': len(clauses), 'errors': [], 'solver_s': time.time() - t0,
                         'samples': samples, 'wd_assumed': [], 'assumed': []},
            'numeric': {'accepted': 1, 'rejected': 0, 'failures': [], 'concolic_agree': 0, 'encoder_mismatches': [],
                        'samples': [{'write_sites_checked': n_sites}]}, 'wall_s': time.time() - t0}


contract('C13.static_frames', ['optiland/**: every function reachable from the %d query entry points' % 0], ['C13'],
         custom=_static)(lambda c: None)


# ---- bounded run-time tier ---------------------------------------------------------------------------
def _presc(lens):
    """JSON-able snapshot of everything that is *prescription* (not records)"""
    import numpy as np

    def conv(o):
        if isinstance(o, np.ndarray):
            return ['nd', o.shape, o.tolist()]
        if isinstance(o, (np.floating, np.integer)):
            return o.item()
        if isinstance(o, dict):
            return {k: conv(v) for k, v in o.items()}
        if isinstance(o, (list, tuple)):
            return [conv(v) for v in o]
        if isinstance(o, (int, float, str, bool)) or o is None:
            return o
        return repr(type(o))
    d = {'surfaces': []}
    for s in lens.surface_group.surfaces:
        g = s.geometry
        d['surfaces'].append(conv({'geo': type(g).__name__, 'radius': getattr(g, 'radius', None), 'k': getattr(g, 'k', None),
                                   'c': getattr(g, 'c', None), 'cs': [g.cs.x, g.cs.y, g.cs.z, g.cs.rx, g.cs.ry, g.cs.rz],
                                   'stop': s.is_stop, 'refl': s.is_reflective, 'pre': id(s.material_pre), 'post': id(s.material_post),
                                   'ap': None if s.aperture is None else s.aperture.to_dict(), 'semi': s.semi_aperture}))
    d['fields'] = [[f.x, f.y, f.vx, f.vy] for f in lens.fields.fields]
    d['waves'] = [[w.value, w.is_primary] for w in lens.wavelengths.wavelengths]
    d['aperture'] = None if lens.aperture is None else lens.aperture.to_dict()
    d['field_type'] = lens.field_type
    return json.dumps(d, sort_keys=True, default=str)


def _queries():
    import numpy as np
    from optiland import analysis, wavefront, psf, mtf
    from optiland.optimization.operand.ray import RayOperand
    Q = []

    def q(name, fn):
        Q.append((name, fn))
    q('trace', lambda L: (lambda r: np.concatenate([r.x, r.y, r.z, r.L, r.M, r.N, r.opd, r.i]))(L.trace(0.0, 0.7, 0.5876, 16, 'hexapolar')) if False else
      (lambda r: np.concatenate([r.x, r.y, r.z, r.L, r.M, r.N, r.opd, r.i]))(L.trace(0.0, 0.7, 0.5876, 2, 'hexapolar')))
    q('trace_generic', lambda L: (lambda r: np.concatenate([r.x, r.y, r.L, r.M, r.opd]))(
        L.trace_generic(0.0, 0.5, np.array([0.0, 0.3, -0.4]), np.array([0.5, -0.2, 0.1]), 0.5876)))
    for nm in ('f1', 'f2', 'F1', 'F2', 'P1', 'P2', 'N1', 'N2', 'EPL', 'EPD', 'XPL', 'XPD', 'FNO', 'invariant'):
        q('paraxial.' + nm, lambda L, nm=nm: np.atleast_1d(getattr(L.paraxial, nm)()))
    q('paraxial.marginal_ray', lambda L: np.concatenate([np.ravel(a) for a in L.paraxial.marginal_ray()]))
    q('paraxial.chief_ray', lambda L: np.concatenate([np.ravel(a) for a in L.paraxial.chief_ray()]))
    q('aberrations.third_order', lambda L: np.concatenate([np.ravel(a) for a in L.aberrations.third_order()]))
    q('aberrations.seidels', lambda L: np.ravel(L.aberrations.seidels()))
    q('SpotDiagram', lambda L: np.ravel(analysis.SpotDiagram(L, num_rings=2).rms_spot_radius()))
    q('SpotDiagram.centroid', lambda L: np.ravel(analysis.SpotDiagram(L, num_rings=2).centroid()))
    q('EncircledEnergy', lambda L: np.ravel(analysis.EncircledEnergy(L, num_rays=6, distribution='hexapolar', num_points=8).centroid()))
    q('RayFan', lambda L: np.ravel(analysis.RayFan(L, num_points=7).data['Py']))
    q('Distortion', lambda L: np.ravel(analysis.Distortion(L, num_points=6).data))
    q('GridDistortion', lambda L: np.ravel(analysis.GridDistortion(L, num_points=4).data['xr']))
    q('FieldCurvature', lambda L: np.ravel(analysis.FieldCurvature(L, num_points=6).data))
    q('RmsSpotSizeVsField', lambda L: np.ravel(analysis.RmsSpotSizeVsField(L, num_fields=4, num_rings=2)._spot_size))
    q('PupilAberration', lambda L: np.ravel(analysis.PupilAberration(L, num_points=7).data['Px']))
    q('OPD', lambda L: np.ravel(wavefront.OPD(L, (0, 0.7), 0.5876, num_rays=8).data[0][0][0]))
    q('ZernikeOPD', lambda L: np.ravel(wavefront.ZernikeOPD(L, (0, 1), 0.5876, num_rings=3, zernike_type='fringe', num_terms=11).coeffs))
    q('FFTPSF', lambda L: np.ravel(psf.FFTPSF(L, (0, 0.7), 0.5876, num_rays=32, grid_size=64).psf))
    q('FFTMTF', lambda L: np.ravel(mtf.FFTMTF(L, num_rays=32, grid_size=64).mtf[0][0]))
    q('GeometricMTF', lambda L: np.ravel(mtf.GeometricMTF(L, num_rays=16, num_points=16).mtf[0][0]))
    q('RayOperand.rms_spot_size', lambda L: np.atleast_1d(RayOperand.rms_spot_size(L, 6, 0, 0.7, 2, 0.5876, 'hexapolar')))
    q('RayOperand.OPD_difference', lambda L: np.atleast_1d(RayOperand.OPD_difference(L, 0, 0.7, 3, 0.5876, 'gaussian_quad')))
    return Q


def _bounded(ct, tier, seed):
    t0 = time.time()
    import numpy as np
    import warnings
    warnings.simplefilter('ignore')
    np.seterr(all='ignore')
    rng = random.Random(seed * 7919 + 13)
    lenses = []
    names = rt.sample_names()
    rng.shuffle(names)
    for (m, n) in names[:(4 if tier == 'quick' else len(names))]:
        try:
            lenses.append((n, lambda m=m, n=n: rt.make_sample(m, n)))
        except Exception:
            pass
    for i in range(3 if tier == 'quick' else 40):
        st = rng.getstate()
        lenses.append(('random#%d' % i, lambda st=st: rt.random_lens(_rng_from(st), vignetting=True, apertures=(i % 2 == 0),
                                                                     asphere=(i % 3 == 0))))
    fails = []
    cases = 0
    distinct = set()
    clauses = {}

    def note(cid, ok, detail, inputs):
        c = clauses.setdefault(cid, {'paths': 0, 'proved': 0, 'backends': {}, 'failed': [], 'seconds': 0.0, 'bounded': True})
        c['paths'] += 1
        if ok:
            c['proved'] += 1
            c['backends']['runtime'] = c['backends'].get('runtime', 0) + 1
        else:
            fails.append({'clause': cid, 'draws': inputs, 'note': detail})
    Q = _queries()
    # dynamic call edges for the validation of the static call graph
    dyn_edges = set()
    repo = twin._STATE['repo']

    def prof(frame, event, arg):
        if event == 'call':
            co = frame.f_code
            fn = co.co_filename
            if fn.startswith(repo) and frame.f_back is not None:
                bco = frame.f_back.f_code
                if bco.co_filename.startswith(repo):
                    dyn_edges.add((bco.co_filename[len(repo) + 1:], bco.co_name, fn[len(repo) + 1:], co.co_name))
    for lname, mk in lenses:
        try:
            L = mk()
        except Exception as ex:
            continue
        order = list(range(len(Q)))
        rng.shuffle(order)
        for qi in order[:(10 if tier == 'quick' else len(Q))]:
            qn, fn = Q[qi]
            before = _presc(L)
            try:
                sys.setprofile(prof)
                r1 = np.array(fn(L), dtype=float)
                sys.setprofile(None)
            except Exception as ex:
                sys.setprofile(None)
                continue            # the query is not applicable to this lens (not C13's subject)
            cases += 1
            distinct.add((lname, qn))
            after = _presc(L)
            note('C13.runtime.prescription_unchanged', before == after,
                 'prescription changed by query %s on %s' % (qn, lname), {'lens': lname, 'query': qn})
            # interleave another query, then repeat: bit-identical
            try:
                Q[order[(qi + 1) % len(order)]][1](L)
            except Exception:
                pass
            try:
                r2 = np.array(fn(L), dtype=float)
                same = r1.shape == r2.shape and np.array_equal(r1, r2, equal_nan=True)
                note('C13.runtime.repeatable_bit_identical', same, 'query %s on %s differs on repetition' % (qn, lname),
                     {'lens': lname, 'query': qn})
            except Exception as ex:
                note('C13.runtime.repeatable_bit_identical', False, 'second call raised %s' % ex, {'lens': lname, 'query': qn})
        # caller arrays
        Hx, Hy = 0.0, 0.7
        Px = np.array([0.0, 0.3, -0.4, 0.9])
        Py = np.array([0.5, -0.2, 0.1, 0.0])
        Px0, Py0 = Px.copy(), Py.copy()
        try:
            r = L.trace_generic(Hx, Hy, Px, Py, 0.5876)
            note('C13.runtime.caller_arrays_unchanged', np.array_equal(Px, Px0) and np.array_equal(Py, Py0),
                 'trace_generic modified its Px/Py arguments on %s' % lname, {'lens': lname, 'query': 'trace_generic'})
            # per-ray independence: each ray alone gives the same result (beyond the intersection tolerance);
            # the bundle carries several wavelengths (first and last equal, others in between)
            wl = np.array([0.5876, 0.4861, 0.6563, 0.5876])
            r = L.trace_generic(Hx, Hy, Px0.copy(), Py0.copy(), wl)
            for j in range(len(Px0)):
                r1 = L.trace_generic(Hx, Hy, Px0[j:j + 1].copy(), Py0[j:j + 1].copy(), wl[j])
                ok = all(np.allclose(getattr(r1, a)[0], getattr(r, a)[j], rtol=0, atol=1e-7, equal_nan=True) for a in 'xyLM')
                note('C13.runtime.per_ray_independence', ok, 'ray %d of a bundle differs when traced alone on %s' % (j, lname),
                     {'lens': lname, 'ray': j})
        except Exception:
            pass
        # the same with polarization tracking and Fresnel coatings: a bundle that contains the exactly axial ray (normal incidence
        # everywhere, the plane of incidence is undefined for it alone) next to oblique rays
        try:
            from optiland.rays.polarization_state import create_polarization
            LP = mk()
            LP.set_polarization(create_polarization('V'))
            LP.surface_group.set_fresnel_coatings()
            pw_ = float(LP.primary_wavelength)

            class _Pts:
                pass
            pts = _Pts()
            pts.x, pts.y = np.array([0.0, 0.3, -0.4, 0.0]), np.array([0.0, -0.2, 0.5, 0.9])
            for (hx_, hy_) in ((0.0, 0.0), (0.0, 0.7)):
                rb = LP.trace(hx_, hy_, pw_, distribution=pts)
                ib, pb = np.array(rb.i, dtype=float).copy(), np.array(rb.p).copy()
                for j in range(4):
                    one = _Pts()
                    one.x, one.y = pts.x[j:j + 1].copy(), pts.y[j:j + 1].copy()
                    r1 = LP.trace(hx_, hy_, pw_, distribution=one)
                    ok = bool(np.allclose(r1.i[0], ib[j], rtol=0, atol=1e-9, equal_nan=True)) and \
                        bool(np.allclose(np.array(r1.p)[0], pb[j], rtol=0, atol=1e-9, equal_nan=True))
                    cases += 1
                    note('C13.runtime.per_ray_independence_with_polarization', ok,
                         'ray %d (Px=%s, Py=%s) of a polarized bundle at field (%s, %s) differs when traced alone on %s: intensity %r vs %r'
                         % (j, pts.x[j], pts.y[j], hx_, hy_, lname, float(r1.i[0]), float(ib[j])), {'lens': lname, 'ray': j, 'Hy': hy_})
        except Exception:
            pass
    # static call graph covers the traced executions
    funcs, by_name, classes = frames.load(repo)
    static_edges = set()
    for f_ in _entries(funcs):
        static_edges |= frames.reachable([f_], funcs, by_name, classes)[1]
    if static_edges is not None:
        stat = set()
        for a, b in static_edges:
            fa, fb = funcs[a], funcs[b]
            stat.add((fa.module, fa.name, fb.module, fb.name))
        entry_funcs = {(f.module, f.name) for f in _entries(funcs)}
        reach_names = {(funcs[b].module, funcs[b].name) for a, b in static_edges} | entry_funcs
        missing = [e for e in dyn_edges if (e[0], e[1]) in reach_names and e not in stat
                   and not e[3].startswith('<') and not e[1].startswith('<') and e[3] not in ('__init_subclass__',)]
        note('C13.runtime.static_call_graph_covers_traced_executions', not missing,
             'dynamic call edges missing from the static graph: %s' % missing[:5], {'edges': len(dyn_edges)})
    return {'contract': ct.name, 'functions': ct.functions, 'props': ct.props,
            'symbolic': {'clauses': clauses, 'paths': 0, 'errors': [], 'solver_s': 0.0, 'samples': [], 'wd_assumed': [], 'assumed': []},
            'numeric': {'accepted': cases, 'rejected': 0, 'failures': fails[:10], 'concolic_agree': 0, 'encoder_mismatches': [],
                        'samples': [{'distinct_lens_query_pairs': len(distinct), 'dynamic_edges': len(dyn_edges)}]},
            'wall_s': time.time() - t0}


def _rng_from(state):
    r = random.Random()
    r.setstate(state)
    return r


contract('C13.runtime', ['optiland/optic.py:Optic.trace', 'optiland/optic.py:Optic.trace_generic', 'every analysis class'], ['C13'],
         custom=_bounded)(lambda c: None)


# ---- per-ray independence of the surface step, symbolic (3-ray bundle vs each ray alone) -----------------
from .common import mk_rays as _mk_rays  # noqa: E402


def _independence_contract(reflective):
    @contract('C13.per_ray_independence.trace_real.' + ('mirror' if reflective else 'refract'),
              ['optiland/surfaces/standard_surface.py:Surface._trace_real', 'optiland/surfaces/standard_surface.py:Surface._interact',
               'optiland/rays/real_rays.py:RealRays.refract', 'optiland/rays/real_rays.py:RealRays.propagate',
               'optiland/geometries/plane.py:Plane.distance'], ['C13'], max_paths=64)
    def ind(c):
        surfs = c.mod('optiland.surfaces')
        geos = c.mod('optiland.geometries')
        Base = c.mod('optiland.materials.base').BaseMaterial
        CoordinateSystem = c.mod('optiland.coordinate_system').CoordinateSystem
        a1, b1 = c.real('a1', 1.2, 1.8, positive=True), c.real('b1', 0.01, 0.1, positive=True)
        a2, b2 = c.real('a2', 1.2, 1.8, positive=True), c.real('b2', 0.01, 0.1, positive=True)

        class Dispersive(Base):        # n(w) = a + b w, element-wise like every catalogue formula
            def __init__(self, a, b):
                self.a, self.b = a, b

            def n(self, w):
                return self.a + self.b * w

            def k(self, w):
                return 0.0
        surf = surfs.Surface(geos.Plane(CoordinateSystem(z=c.real('zs', 1.0, 5.0, positive=True))), Dispersive(a1, b1),
                             Dispersive(a2, b2), is_reflective=reflective)
        RealRays = c.mod('optiland.rays.real_rays').RealRays
        w0, w1 = c.real('w0', 0.4, 0.7, positive=True), c.real('w1', 0.4, 0.7, positive=True)
        ws = [w0, w1, w0]                  # first and last equal, a different one in between
        P = [(c.real('x%d' % i, -1, 1), c.real('y%d' % i, -1, 1), 0.0) for i in range(3)]
        D = [c.unit3('L%d' % i, 'M%d' % i, 'N%d' % i, cone=0.8) for i in range(3)]
        for i in range(3):
            c.require(D[i][2] > 0)
            if not reflective:
                u = (a1 + b1 * ws[i]) / (a2 + b2 * ws[i])
                c.require(1 - u * u * (1 - D[i][2] ** 2) > 0)

        def bundle(idx):
            return RealRays(c.arr(*[P[i][0] for i in idx]), c.arr(*[P[i][1] for i in idx]), c.arr(*[P[i][2] for i in idx]),
                            c.arr(*[D[i][0] for i in idx]), c.arr(*[D[i][1] for i in idx]), c.arr(*[D[i][2] for i in idx]),
                            c.arr(*[1.0 for i in idx]), c.arr(*[ws[i] for i in idx]))
        full = bundle([0, 1, 2])
        surf.trace(full)
        for i in range(3):
            one = bundle([i])
            surf.trace(one)
            for a in ('x', 'y', 'z', 'L', 'M', 'N', 'opd', 'i'):
                c.ensure_eq('C13.per_ray_independence.surface_step', c.val(getattr(full, a), i), c.val(getattr(one, a), 0))
    return ind


_independence_contract(False)
_independence_contract(True)


# concrete inputs found by the defect-hunting sub-agents (bounded replay, see contracts/hunt.py)
from . import hunt as _hunt  # noqa: E402
_hunt.register('C13')
