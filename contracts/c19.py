"""C19 -- saving and reloading a lens preserves its behaviour."""
import json
import math
import numpy as _np
from pyvc.vc import contract, snapshot, frame_diff
from pyvc import sym as S
from .common import *  # noqa

PROPERTY = 'C19'
K_QUICK = 8
K_THOROUGH = 100
OP = 'optiland/optic.py'
FUNCS = [OP + ':Optic.to_dict', OP + ':Optic.from_dict', 'optiland/surfaces/surface_group.py:SurfaceGroup.to_dict',
         'optiland/surfaces/surface_group.py:SurfaceGroup.from_dict', 'optiland/surfaces/standard_surface.py:Surface.to_dict',
         'optiland/surfaces/standard_surface.py:Surface.from_dict', 'optiland/surfaces/standard_surface.py:Surface._from_dict',
         'optiland/surfaces/object_surface.py:ObjectSurface.to_dict', 'optiland/surfaces/object_surface.py:ObjectSurface._from_dict',
         'optiland/geometries/base.py:BaseGeometry.to_dict', 'optiland/geometries/base.py:BaseGeometry.from_dict',
         'optiland/geometries/plane.py:Plane.to_dict', 'optiland/geometries/standard.py:StandardGeometry.to_dict',
         'optiland/geometries/even_asphere.py:EvenAsphere.to_dict', 'optiland/geometries/polynomial.py:PolynomialGeometry.to_dict',
         'optiland/geometries/chebyshev.py:ChebyshevPolynomialGeometry.to_dict', 'optiland/coordinate_system.py:CoordinateSystem.to_dict',
         'optiland/coordinate_system.py:CoordinateSystem.from_dict', 'optiland/materials/ideal.py:IdealMaterial.to_dict',
         'optiland/materials/base.py:BaseMaterial.from_dict', 'optiland/coatings.py:SimpleCoating.to_dict',
         'optiland/coatings.py:BaseCoating.from_dict', 'optiland/physical_apertures.py:RadialAperture.to_dict',
         'optiland/physical_apertures.py:BaseAperture.from_dict', 'optiland/fields.py:FieldGroup.to_dict',
         'optiland/fields.py:FieldGroup.from_dict', 'optiland/wavelength.py:WavelengthGroup.to_dict',
         'optiland/wavelength.py:WavelengthGroup.from_dict', 'optiland/aperture.py:Aperture.to_dict', 'optiland/aperture.py:Aperture.from_dict',
         'optiland/pickup.py:PickupManager.to_dict', 'optiland/pickup.py:PickupManager.from_dict', 'optiland/solves.py:SolveManager.to_dict',
         'optiland/solves.py:SolveManager.from_dict']

RECORDS = ['*.x', '*.y', '*.z', '*.L', '*.M', '*.N', '*.u', '*.opd', '*.aoi', '*.intensity']


def build(c, features):
    """a lens built through the public API with symbolic parameters"""
    Optic = c.mod('optiland.optic').Optic
    mats = c.mod('optiland.materials')
    lens = Optic()
    finite = 'finite' in features
    lens.add_surface(index=0, thickness=(c.real('t0', 20, 200, positive=True) if finite else math.inf))
    kw = {}
    if 'tilt' in features:
        kw = dict(dx=c.real('dx', -1, 1), dy=c.real('dy', -1, 1), rx=c.real('rx', -0.2, 0.2), ry=c.real('ry', -0.2, 0.2))
    if 'aperture' in features:
        kw['aperture'] = c.mod('optiland.physical_apertures').RadialAperture(c.real('rmax', 3, 9, positive=True), c.real('rmin', 0, 1, nonneg=True))
    if 'fresnel' in features:
        kw['coating'] = 'fresnel'
    if 'coating' in features:
        kw['coating'] = c.mod('optiland.coatings').SimpleCoating(c.real('T', 0.5, 1, positive=True), c.real('Rf', 0, 0.5, nonneg=True))
    lens.add_surface(index=1, radius=c.real('R1', 20, 90, positive=True), conic=c.real('k1', -1, 0.5), thickness=c.real('t1', 2, 6, positive=True),
                     material=mats.IdealMaterial(c.real('n1', 1.4, 1.9, positive=True), 0.0), is_stop=True, **kw)
    if 'asphere' in features:
        lens.add_surface(index=2, surface_type='even_asphere', radius=c.real('R2', -90, -20), conic=c.real('k2', -1, 0.5),
                         coefficients=[c.real('a0', -1e-4, 1e-4), c.real('a1', -1e-6, 1e-6)], thickness=c.real('t2', 3, 12, positive=True))
    elif 'polynomial' in features:
        lens.add_surface(index=2, surface_type='polynomial', radius=c.real('R2', -90, -20), conic=c.real('k2', -1, 0.5),
                         coefficients=[[c.real('p00', -1e-3, 1e-3)], [c.real('p10', -1e-3, 1e-3)], [c.real('p20', -1e-3, 1e-3)]],
                         thickness=c.real('t2', 3, 12, positive=True))
    elif 'chebyshev' in features:
        lens.add_surface(index=2, surface_type='chebyshev', radius=c.real('R2', -90, -20), conic=c.real('k2', -1, 0.5),
                         coefficients=[[c.real('c00', -1e-3, 1e-3), c.real('c01', -1e-3, 1e-3)], [c.real('c10', -1e-3, 1e-3), c.real('c11', -1e-3, 1e-3)]],
                         norm_x=c.real('normx', 5, 20, positive=True), norm_y=c.real('normy', 5, 20, positive=True),
                         thickness=c.real('t2', 3, 12, positive=True))
    elif 'mirror' in features:
        lens.add_surface(index=2, radius=c.real('R2', -90, -20), material='mirror', thickness=-c.real('t2', 3, 12, positive=True))
    else:
        lens.add_surface(index=2, radius=c.real('R2', -90, -20), thickness=c.real('t2', 3, 12, positive=True))
    lens.add_surface(index=3, radius=c.real('R3', 30, 90, positive=True), conic=0.0, thickness=c.real('t3', 3, 12, positive=True),
                     material=mats.IdealMaterial(c.real('n3', 1.4, 1.9, positive=True), 0.0))
    lens.add_surface(index=4)
    if finite:
        lens.set_aperture('objectNA', c.real('NA', 0.02, 0.2, positive=True))
        lens.set_field_type('object_height')
        if 'telecentric' in features:
            lens.obj_space_telecentric = True
    else:
        lens.set_aperture('EPD', c.real('EPD', 2, 6, positive=True))
        lens.set_field_type('angle')
    lens.add_field(y=0.0)
    lens.add_field(y=c.real('fy', 1, 10, positive=True), vx=c.real('vx', 0, 0.2, nonneg=True), vy=c.real('vy', 0, 0.2, nonneg=True))
    lens.add_wavelength(c.real('wl0', 0.4, 0.5, positive=True))
    lens.add_wavelength(c.real('wl1', 0.5, 0.6, positive=True), is_primary=True)
    lens.add_wavelength(0.6563, unit='um')
    if 'polarized' in features or 'fresnel' in features:
        lens.set_polarization(c.mod('optiland.rays.polarization_state').create_polarization('H'))
    if 'pickup' in features:
        lens.pickups.add(1, 'conic', 3, c.real('pk_scale', -2, 2), c.real('pk_offset', -1, 1))
    if 'solve' in features:
        lens.solves.add('marginal_ray_height', 4, 0.0)
    return lens


def compare(c, cid, a, b):
    bad = frame_diff(snapshot({'lens': a}, depth=9, expand_shared=True), snapshot({'lens': b}, depth=9, expand_shared=True), RECORDS)
    c.ensure(cid, not bad, note='reloaded lens differs: %s' % (bad[:4],))


def json_offenders(d, path='$'):
    """paths of leaves that json.dump cannot encode (a Sym stands for a python float)"""
    if isinstance(d, dict):
        out = []
        for k, v in d.items():
            if not isinstance(k, (str, int, float, bool)) and k is not None:
                out.append(path + ' key ' + repr(k))
            out += json_offenders(v, '%s.%s' % (path, k))
        return out
    if isinstance(d, (list, tuple)):
        out = []
        for i, v in enumerate(d):
            out += json_offenders(v, '%s[%d]' % (path, i))
        return out
    if isinstance(d, (str, bool, int, float)) or d is None or isinstance(d, S.Sym):
        return []
    return ['%s: %s' % (path, type(d).__name__)]


def dict_equal(a, b):
    if isinstance(a, dict) and isinstance(b, dict):
        return set(a) == set(b) and all(dict_equal(a[k], b[k]) for k in a)
    if isinstance(a, (list, tuple)) and isinstance(b, (list, tuple)):
        return len(a) == len(b) and all(dict_equal(x, y) for x, y in zip(a, b))
    if isinstance(a, _np.ndarray) or isinstance(b, _np.ndarray):
        a, b = _np.asarray(a, dtype=object), _np.asarray(b, dtype=object)
        return a.shape == b.shape and all(dict_equal(x, y) for x, y in zip(a.reshape(-1), b.reshape(-1)))
    if isinstance(a, S.Sym) or isinstance(b, S.Sym):
        a, b = S.lift(a), S.lift(b)
        return a.kind == b.kind and (a.kind != S.FIN or S.sp.expand(a.e - b.e) == 0)
    if isinstance(a, float) and isinstance(b, float) and a != a and b != b:
        return True
    return a == b


FEATURE_SETS = [('plain',), ('tilt', 'aperture', 'coating'), ('asphere', 'pickup'), ('polynomial',), ('chebyshev',), ('mirror',),
                ('finite',), ('finite', 'telecentric'), ('solve',), ('fresnel',), ('polarized',)]


def _roundtrip_contract(features):
    @contract('C19.roundtrip.' + '_'.join(features), FUNCS, ['C19'], max_paths=16, concolic=False)
    def rt(c):
        lens = build(c, features)
        Optic = c.mod('optiland.optic').Optic
        d = lens.to_dict()
        lens2 = Optic.from_dict(d)
        compare(c, 'C19.roundtrip.same_prescription', lens, lens2)
        c.ensure('C19.roundtrip.dictionary_form_is_reproduced', dict_equal(lens2.to_dict(), d))
        off = json_offenders(d)
        c.ensure('C19.serialisable.every_leaf_has_a_json_type', not off, note=str(off[:4]))
        if c.mode == 'num':
            try:
                txt = json.dumps(d)
                lens3 = Optic.from_dict(json.loads(txt))
                compare(c, 'C19.roundtrip.same_prescription_through_json_text', lens, lens3)
                for Hy, Py in ((0.0, 0.3), (1.0, -0.5)):
                    r1 = lens.trace_generic(0.0, Hy, 0.1, Py, 0.55)
                    r3 = lens3.trace_generic(0.0, Hy, 0.1, Py, 0.55)
                    same = all(_np.array_equal(getattr(r1, a), getattr(r3, a), equal_nan=True) for a in ('x', 'y', 'z', 'L', 'M', 'N', 'opd', 'i'))
                    c.ensure('C19.roundtrip.identical_traces', same)
                c.ensure('C19.roundtrip.identical_paraxial', float(lens.paraxial.f2()) == float(lens3.paraxial.f2()))
                # the file functions of the library (scratch file, removed at once)
                import tempfile
                import os as _os
                from optiland.fileio.optiland_handler import save_optiland_file, load_optiland_file
                fd, fp = tempfile.mkstemp(suffix='.json')
                _os.close(fd)
                try:
                    save_optiland_file(lens, fp)
                    lens4 = load_optiland_file(fp)
                finally:
                    _os.remove(fp)
                compare(c, 'C19.roundtrip.same_prescription_through_a_saved_file', lens, lens4)
                c.ensure('C19.roundtrip.saved_file_reloads_to_the_same_dictionary', dict_equal(lens4.to_dict(), json.loads(txt)))
            except TypeError as ex:
                c.ensure('C19.serialisable.json_dump_succeeds', False, note=str(ex))
    return rt


for _fs in FEATURE_SETS:
    _roundtrip_contract(_fs)


EDITS = ['set_thickness', 'set_radius', 'set_conic', 'set_index', 'set_asphere_coeff', 'scale_system', 'image_solve', 'solve',
         'pickup_thickness', 'variable_thickness', 'variable_tilt',
         # constraints that do not hold (any more) when the lens is saved: the saved prescription is what was set last
         'pickup_then_override', 'pickup_then_scale', 'solve_then_override', 'solve_then_scale',
         # a Fresnel coating whose stored media are not (any more) the media of its surface: the saved coating is what is reloaded
         'fresnel_then_set_index', 'fresnel_with_chosen_media']


def _after_edit_contract(edit):
    @contract('C19.after_edit.' + edit, FUNCS + [OP + ':Optic.' + e for e in ('set_thickness', 'scale_system', 'image_solve')],
              ['C19'], max_paths=32, concolic=False)
    def ae(c):
        feats = ('asphere',) if edit == 'set_asphere_coeff' else (('aperture',) if edit == 'scale_system' else ('plain',))
        lens = build(c, feats)
        v = c.real('edit_value', 1.2, 2.5, positive=True)
        if edit == 'set_thickness':
            lens.set_thickness(v * 3, 2)
        elif edit == 'set_radius':
            lens.set_radius(v * 30, 3)
        elif edit == 'set_conic':
            lens.set_conic(-v / 3, 1)
        elif edit == 'set_index':
            lens.set_index(v, 1)
        elif edit == 'set_asphere_coeff':
            lens.set_asphere_coeff(v * 1e-5, 2, 0)
        elif edit == 'scale_system':
            lens.scale_system(v)
        elif edit == 'image_solve':
            lens.image_solve()
        elif edit == 'solve':
            lens.solves.add('marginal_ray_height', 4, 0.0)
        elif edit == 'pickup_thickness':
            lens.pickups.add(1, 'thickness', 3, 1.0, 0.5)
        elif edit == 'pickup_then_override':
            lens.pickups.add(1, 'thickness', 3, 1.0, 0.5)
            lens.set_thickness(v * 3, 3)
        elif edit == 'pickup_then_scale':
            lens.pickups.add(1, 'radius', 3, -1.0, 5.0)
            lens.scale_system(v)
        elif edit == 'solve_then_override':
            lens.solves.add('marginal_ray_height', 4, 0.0)
            lens.set_thickness(c.val(lens.surface_group.get_thickness(3)) + v / 4, 3)
        elif edit == 'solve_then_scale':
            lens.solves.add('marginal_ray_height', 4, 0.3)
            lens.scale_system(v)
        elif edit == 'fresnel_then_set_index':
            lens.set_polarization(c.mod('optiland.rays.polarization_state').create_polarization('V'))
            lens.surface_group.set_fresnel_coatings()
            lens.set_index(v, 1)
        elif edit == 'fresnel_with_chosen_media':
            lens.set_polarization(c.mod('optiland.rays.polarization_state').create_polarization('V'))
            mats_ = c.mod('optiland.materials')
            lens.surface_group.surfaces[2].coating = c.mod('optiland.coatings').FresnelCoating(mats_.IdealMaterial(n=v, k=0.0), mats_.IdealMaterial(n=1.0, k=0.0))
        elif edit == 'variable_thickness':
            c.mod('optiland.optimization.variable.variable').Variable(lens, 'thickness', surface_number=2).update(v / 10)
        elif edit == 'variable_tilt':
            c.mod('optiland.optimization.variable.variable').Variable(lens, 'tilt', surface_number=2, axis='x').update(v / 20)
        d = lens.to_dict()
        off = json_offenders(d)
        c.ensure('C19.serialisable.after_any_edit', not off, note=str(off[:4]))
        if c.mode == 'num':
            try:
                json.dumps(d)
                c.ensure('C19.serialisable.json_dump_succeeds_after_edit', True)
            except TypeError as ex:
                c.ensure('C19.serialisable.json_dump_succeeds_after_edit', False, note=str(ex))
        lens2 = c.mod('optiland.optic').Optic.from_dict(d)
        compare(c, 'C19.roundtrip.same_prescription_after_edit', lens, lens2)
        c.ensure('C19.roundtrip.dictionary_form_is_reproduced_after_edit', dict_equal(lens2.to_dict(), d))
        if c.mode == 'num':
            # behaviour, not only attributes: the edited lens and its reloaded copy trace identically (intensities included --
            # what a physical aperture clips after the edit is what the reloaded aperture clips)
            for Hy, Px, Py in ((0.0, 0.1, 0.3), (1.0, -0.4, -0.5), (0.5, 0.9, 0.3), (0.0, 0.0, 1.0)):
                r1 = lens.trace_generic(0.0, Hy, Px, Py, 0.55)
                r2 = lens2.trace_generic(0.0, Hy, Px, Py, 0.55)
                # (a reloaded pickup / solve is re-applied at load: vertex positions may differ in the last place, hence 1e-12)
                same = all(_np.allclose(getattr(r1, a), getattr(r2, a), rtol=1e-12, atol=1e-12, equal_nan=True) for a in ('x', 'y', 'z', 'L', 'M', 'N', 'opd', 'i'))
                if hasattr(r1, 'p') or hasattr(r2, 'p'):        # polarization tracking: the accumulated polarization matrices as well
                    same = same and hasattr(r1, 'p') and hasattr(r2, 'p') and bool(_np.allclose(r1.p, r2.p, rtol=1e-12, atol=1e-12, equal_nan=True))
                c.ensure('C19.roundtrip.identical_traces_after_edit', same)
    return ae


for _e in EDITS:
    _after_edit_contract(_e)


# ---- bounded: catalogue glasses (file-backed materials selected by name, reference and wavelength range) ---------------------------
def _catalogue(ct, tier, seed):
    """lenses with catalogue materials, including the same glass name selected with different wavelength-range restrictions, are
    reloaded one after the other in one process: each reloaded medium is the data set of the original medium (same file, same
    index at several wavelengths), the reloaded dictionary equals the original one and the traces are identical"""
    import json as _json
    import time
    import warnings
    import numpy as np
    from optiland.optic import Optic
    from optiland.materials import Material
    warnings.simplefilter('ignore')
    np.seterr(all='ignore')
    t0 = time.time()
    clauses, fails, cases = {}, [], 0

    def note(cid, ok, detail, inputs):
        c_ = clauses.setdefault(cid, {'paths': 0, 'proved': 0, 'backends': {}, 'failed': [], 'seconds': 0.0, 'bounded': True})
        c_['paths'] += 1
        if ok:
            c_['proved'] += 1
            c_['backends']['runtime'] = c_['backends'].get('runtime', 0) + 1
        else:
            fails.append({'clause': cid, 'draws': inputs, 'note': detail})

    def singlet(mats, w):
        L = Optic()
        L.add_surface(index=0, thickness=np.inf)
        idx = 1
        for m in mats:
            L.add_surface(index=idx, radius=60.0, thickness=4.0, material=m, is_stop=(idx == 1))
            L.add_surface(index=idx + 1, radius=-80.0, thickness=3.0)
            idx += 2
        L.add_surface(index=idx)
        L.set_aperture('EPD', 6.0)
        L.set_field_type('angle')
        L.add_field(y=0.0)
        L.add_field(y=2.0)
        L.add_wavelength(w, is_primary=True)
        return L
    specs = [
        ('BaF2 long-wave', lambda: [Material('BaF2', min_wavelength=8.0, max_wavelength=10.0)], 9.0),
        ('BaF2 visible', lambda: [Material('BaF2', min_wavelength=0.45, max_wavelength=0.65)], 0.55),
        ('BaF2 unrestricted + visible', lambda: [Material('BaF2'), Material('BaF2', min_wavelength=0.45, max_wavelength=0.65)], 0.55),
        ('N-BK7 / F2 with reference', lambda: [Material('N-BK7', reference='schott'), Material('F2', reference='schott')], 0.55),
    ]
    for label, mk, w in specs:
        try:
            L = singlet(mk(), w)
        except Exception:
            continue
        inputs = {'lens': label}
        d = L.to_dict()
        for route in ('dict', 'json text'):
            try:
                L2 = Optic.from_dict(d if route == 'dict' else _json.loads(_json.dumps(d)))
            except Exception as ex:
                note('C19.runtime.catalogue_lens_reloads', False, '%s via %s: %s: %s' % (label, route, type(ex).__name__, ex), inputs)
                continue
            cases += 1
            same_media = True
            for s1, s2 in zip(L.surface_group.surfaces, L2.surface_group.surfaces):
                for side in ('material_pre', 'material_post'):
                    m1, m2 = getattr(s1, side), getattr(s2, side)
                    for ww in (w * 0.9, w, w * 1.1):
                        try:
                            same_media &= bool(np.isclose(float(np.ravel(m1.n(ww))[0]), float(np.ravel(m2.n(ww))[0]), rtol=1e-13, atol=0))
                        except Exception:
                            pass
                    same_media &= getattr(m1, 'filename', None) == getattr(m2, 'filename', None)
            note('C19.runtime.reloaded_catalogue_medium_is_the_same_data_set', same_media, '%s via %s' % (label, route), inputs)
            note('C19.runtime.reloaded_catalogue_lens_has_the_same_dictionary', L2.to_dict() == d, '%s via %s' % (label, route), inputs)
            r1 = L.trace_generic(0.0, 1.0, 0.1, 0.4, w)
            r2 = L2.trace_generic(0.0, 1.0, 0.1, 0.4, w)
            note('C19.runtime.reloaded_catalogue_lens_traces_identically',
                 all(np.array_equal(getattr(r1, a), getattr(r2, a), equal_nan=True) for a in ('x', 'y', 'z', 'L', 'M', 'N', 'opd', 'i')), '%s via %s' % (label, route), inputs)
            note('C19.runtime.reloaded_catalogue_lens_has_the_same_focal_length', float(L.paraxial.f2()) == float(L2.paraxial.f2()),
                 '%s via %s: %s vs %s' % (label, route, float(L.paraxial.f2()), float(L2.paraxial.f2())), inputs)
    return {'contract': ct.name, 'functions': ct.functions, 'props': ct.props,
            'symbolic': {'clauses': clauses, 'paths': 0, 'errors': [], 'solver_s': 0.0, 'samples': [], 'wd_assumed': [], 'assumed': []},
            'numeric': {'accepted': cases, 'rejected': 0, 'failures': fails[:10], 'concolic_agree': 0, 'encoder_mismatches': [],
                        'samples': [{'lenses': [s_[0] for s_ in specs]}]}, 'wall_s': time.time() - t0}


contract('C19.runtime.catalogue', ['optiland/materials/material.py:Material.__init__', 'optiland/materials/base.py:BaseMaterial.from_dict',
                                   'optiland/materials/base.py:BaseMaterial.to_dict'], ['C19'], custom=_catalogue)(lambda c: None)


# ---- bounded: floats that are re-derived when a lens is rebuilt must come back bit for bit ---------------------------------------------
def _polarization(ct, tier, seed):
    """a lens with a polarization state (amplitudes given un-normalised, as the constructor accepts them) is saved and reloaded, and
    the reloaded lens saved and reloaded again: every dictionary equals the one it was loaded from, exactly (the symbolic round-trip
    contracts treat the normalisation Ex / sqrt(Ex^2 + Ey^2) as real arithmetic, where it is idempotent; in floating point it is
    not unless the code takes care)"""
    import json as _json
    import random
    import time
    import warnings
    import numpy as np
    from optiland.optic import Optic
    from optiland.rays.polarization_state import PolarizationState
    warnings.simplefilter('ignore')
    t0 = time.time()
    rng = random.Random(seed * 17 + 5)
    clauses, fails, cases = {}, [], 0

    def note(cid, ok, detail, inputs):
        c_ = clauses.setdefault(cid, {'paths': 0, 'proved': 0, 'backends': {}, 'failed': [], 'seconds': 0.0, 'bounded': True})
        c_['paths'] += 1
        if ok:
            c_['proved'] += 1
            c_['backends']['runtime'] = c_['backends'].get('runtime', 0) + 1
        else:
            fails.append({'clause': cid, 'draws': inputs, 'note': detail})
    amps = [(1.0, 0.5), (1.0, 1.0), (0.6, 0.8), (3.0, 4.0), (1.0, 2.0), (0.3, 0.1), (1.0, 0.0), (0.0, 2.0), (1.0, -1.0)]
    amps += [(round(rng.uniform(-3, 3), 3), round(rng.uniform(0.1, 3), 3)) for _ in range(20 if tier == 'quick' else 400)]
    for Ex, Ey in amps:
        L = Optic()
        L.add_surface(index=0, thickness=np.inf)
        L.add_surface(index=1, radius=50.0, thickness=4.0, material='N-BK7', is_stop=True)
        L.add_surface(index=2, radius=-70.0, thickness=60.0)
        L.add_surface(index=3)
        L.set_aperture('EPD', 5.0)
        L.set_field_type('angle')
        L.add_field(y=0.0)
        L.add_wavelength(0.55, is_primary=True)
        L.set_polarization(PolarizationState(is_polarized=True, Ex=Ex, Ey=Ey, phase_x=0.0, phase_y=0.3))
        d1 = L.to_dict()
        L2 = Optic.from_dict(_json.loads(_json.dumps(d1)))
        d2 = L2.to_dict()
        d3 = Optic.from_dict(_json.loads(_json.dumps(d2))).to_dict()
        cases += 1
        inputs = {'Ex': Ex, 'Ey': Ey}
        note('C19.runtime.reloaded_dictionary_equals_the_saved_one_bit_for_bit_with_a_polarization_state', dict_equal(d2, d1) and dict_equal(d3, d2),
             'saved %r, reloaded %r, reloaded again %r' % tuple((d_['wavelengths']['polarization']['Ex'], d_['wavelengths']['polarization']['Ey'])
                                                                    for d_ in (d1, d2, d3)), inputs)
    return {'contract': ct.name, 'functions': ct.functions, 'props': ct.props,
            'symbolic': {'clauses': clauses, 'paths': 0, 'errors': [], 'solver_s': 0.0, 'samples': [], 'wd_assumed': [], 'assumed': []},
            'numeric': {'accepted': cases, 'rejected': 0, 'failures': fails[:10], 'concolic_agree': 0, 'encoder_mismatches': [],
                        'samples': [{'amplitudes': amps[:9]}]}, 'wall_s': time.time() - t0}


contract('C19.runtime.polarization', ['optiland/rays/polarization_state.py:PolarizationState.__init__', 'optiland/rays/polarization_state.py:PolarizationState.to_dict',
                                      'optiland/rays/polarization_state.py:PolarizationState.from_dict', OP + ':Optic.to_dict', OP + ':Optic.from_dict'],
         ['C19'], custom=_polarization)(lambda c: None)


# concrete inputs found by the defect-hunting sub-agents (bounded replay, see contracts/hunt.py)
from . import hunt as _hunt  # noqa: E402
_hunt.register('C19')
