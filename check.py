#!/usr/bin/env python3
"""check.py <PROPERTY> [--tier quick|thorough] [--repo PATH] [--replay FILE] [--update-ledger]

exit 0  every ledger obligation of the property discharged on the current tree (KNOWN-FINDING
        lines possible)
exit 1  VIOLATION property=<id> replay=<path> [no-failing-input-found]
exit 2  undecided (engine limit, ledger mismatch, zero obligations)  -- not a verdict
exit 3  checker crash / encoder mismatch / failed probe               -- not a verdict
"""
import json
import os
import sys
import time

HERE = os.path.dirname(os.path.abspath(__file__))


def _bootstrap():
    sys.path.insert(0, HERE)
    import setup as _setup
    py = _setup.ensure()
    if os.path.realpath(sys.executable) != os.path.realpath(py) and os.environ.get('PYVC_BOOT') != '1':
        os.environ['PYVC_BOOT'] = '1'
        os.execv(py, [py, os.path.abspath(__file__)] + sys.argv[1:])


if __name__ == '__main__':
    _bootstrap()

import argparse  # noqa: E402
import importlib  # noqa: E402
import multiprocessing as mp  # noqa: E402
import traceback  # noqa: E402

os.environ.setdefault('MPLBACKEND', 'Agg')
os.environ.setdefault('OPTILAND_VERIF', '1')


def _worker(conn, modname, cname, tier, seed, k, repo):
    try:
        sys.setrecursionlimit(10000)
        from pyvc import twin, vc, probes
        twin.install(repo)
        probes.apply()
        importlib.import_module(modname)
        ct = vc.CONTRACTS[cname]
        if ct.opts.get('custom'):
            res = ct.opts['custom'](ct, tier, seed)
        else:
            res = vc.check_contract(ct, tier, seed, k)
        conn.send(json.loads(json.dumps(res, default=str)))
    except BaseException as ex:  # noqa
        conn.send({'contract': cname, 'crash': '%s: %s\n%s' % (type(ex).__name__, ex, traceback.format_exc())})
    finally:
        conn.close()


def run_contracts(modname, names, tier, seed, k, repo, timeout_s, jobs=16):
    ctx = mp.get_context('fork')
    pending = list(names)
    running = {}
    results = {}
    while pending or running:
        while pending and len(running) < jobs:
            n = pending.pop(0)
            pc, cc = ctx.Pipe(duplex=False)
            p = ctx.Process(target=_worker, args=(cc, modname, n, tier, seed, k, repo))
            p.start()
            cc.close()
            running[n] = (p, pc, time.time())
        for n in list(running):
            p, pc, t0 = running[n]
            if pc.poll(0.05):
                try:
                    results[n] = pc.recv()
                except EOFError:
                    results[n] = {'contract': n, 'crash': 'worker died without a result'}
                p.join(5)
                del running[n]
            elif not p.is_alive():
                results[n] = {'contract': n, 'crash': 'worker exited (code %s) without a result' % p.exitcode}
                del running[n]
            elif time.time() - t0 > timeout_s:
                p.kill()
                results[n] = {'contract': n, 'timeout': timeout_s}
                del running[n]
    return results


def main():
    ap = argparse.ArgumentParser()
    ap.add_argument('prop')
    ap.add_argument('--tier', default=os.environ.get('VERIF_TIER', 'quick'))
    ap.add_argument('--repo', default=os.environ.get('VERIF_REPO', '/repo'))
    ap.add_argument('--replay')
    ap.add_argument('--update-ledger', action='store_true')
    ap.add_argument('--only', help='comma list of contract names (debug)')
    ap.add_argument('-v', action='store_true')
    a = ap.parse_args()
    if a.tier not in ('quick', 'thorough'):
        a.tier = 'quick'
    seed = int(os.environ.get('VERIF_SEED', '0') or 0)
    t0 = time.time()
    from pyvc import report
    try:
        code = report.run_property(a, seed, run_contracts)
    except SystemExit:
        raise
    except BaseException:
        traceback.print_exc()
        print('CHECKER-CRASH property=%s' % a.prop)
        code = 3
    print('done property=%s tier=%s exit=%d wall=%.1fs' % (a.prop, a.tier, code, time.time() - t0))
    sys.exit(code)


if __name__ == '__main__':
    main()
